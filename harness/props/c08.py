"""
C08 — the object model stays self-consistent over any history of reads and edits.

One long-lived `Shelxfile` object is driven through a history of API calls (read_string / read_file / reload,
`del shx.atoms[id]`, `atom.delete()`, delete by name, `add_line`, `atom.name = …`, `atom.element = …`,
`to_isotropic()`, `plan.set(…)`, `cycles.number = …`).  After EVERY call the real object graph is examined:

  position   every atom reports an index at which `_reslist` holds that very object (identity)
  cards      the same for every instruction object of the file (and those the API attributes hand out)
  ids        atom ids pairwise distinct
  byid       get_atom_by_id(a.atomid) is a
  byname     get_atom_by_name(a.fullname) is a            (when the NAME_RESINUM is unique)
  deleted    atoms deleted so far are absent from the atom list, the name index, hydrogen/riding/Q-peak lists,
             `_reslist`, and the written file
  attrs      every instruction object that an attribute of the Shelxfile hands out (`shx.plan`, `shx.cell`, `shx.wght`,
             … : every attribute that is `None` on a new object) reports a position at which `_reslist` holds that
             very object — in particular it is an object of the file read LAST
  reread     after every read into the long-lived object: (a) the read did not raise, (b) no mutable container that
             lives on a class / module of the package changed (state shared by all later reads), (c) the whole object
             (every attribute, atoms as tuples, symmetry operators, list of lines ...) equals what a fresh *process*
             gets from the same text

Streams (DESIGN 3.2):
  inv     implementation vs spec  (theorem history_inv: every clause holds after any history)   kind 'property'
  table   implementation vs model (`_reslist` layout, id/position table, name look-ups, clause verdicts, raised)
  reread  implementation (long-lived object, long-lived process) vs fresh process                kind 'property'
Object identity is carried across as "line number at parse time" (the model's uid).

Files: besides the two fixed files and the random ones, `OPTIONAL` lists every instruction (and SHELXL's own REM/WGHT/Q-peak
trailer) through which a file can put something into the object; each is optional in a valid file.  The read histories
are enumerated over files that HAVE one of them followed by a file that has NONE (and over bare / rich / other-values
profiles in every order, through every pair of entry points): an attribute that the parser assigns only when it meets the
instruction shows a missing reset only when the file read second lacks the instruction.
"""
import itertools
import json
import os
import subprocess
import sys
import tempfile
from pathlib import Path

from .. import core

CLAUSES = ['position', 'cards', 'ids', 'byid', 'byname', 'deleted', 'attrs']

# ------------------------------------------------------------------------------------------------
# files by construction: a list of line dicts  {"k":"r"|"c","text":…}  |  {"k":"a", name, sfac, xyz, sof, u, resi, q}
# "k" is what `_parse_cards` has to make of the line: raw string, instruction object, Atom.

RAW_KW = {'TITL', 'END', 'LIST', 'TEMP', 'EXTI', 'OMIT', 'EQIV', 'MOLE', 'LAUE', 'ANSC', 'ANSR', 'TIME', 'FEND', 'NEUT'}


def L(text):
    kw = text[:4].upper().strip()
    return dict(k='r' if (kw in RAW_KW or not text.strip()) else 'c', text=text)


def A(name, sfac, xyz, sof=11.0, u=(0.04,), resi=0, q=False):
    return dict(k='a', name=name, sfac=sfac, xyz=list(xyz), sof=sof, u=list(u), resi=resi, q=q)


def atom_text(a):
    us = '  '.join(f'{v:.5f}' for v in a['u'])
    return f'{a["name"]:<5}{a["sfac"]:>2}  {a["xyz"][0]:.6f}  {a["xyz"][1]:.6f}  {a["xyz"][2]:.6f}  {a["sof"]:.5f}  {us}'


def render(lines):
    return '\n'.join(atom_text(x) if x['k'] == 'a' else x['text'] for x in lines) + '\n'


STD = ('TEMP -100', 'L.S. 10', 'PLAN 20', 'LIST 4')


def header(latt=-1, symm=(), sfac=('C', 'H', 'O'), fvar=(0.5,), extra=(), cell='0.71073 10.0 11.0 12.0 90 95 90', z=4, std=STD):
    out = [L('TITL c08 test'), L(f'CELL {cell}'), L(f'ZERR {z} 0.001 0.001 0.001 0 0.01 0'), L(f'LATT {latt}')]
    out += [L(f'SYMM {s}') for s in symm]
    out += [L('SFAC ' + ' '.join(sfac)), L('UNIT ' + ' '.join(str(4 * (i + 1)) for i in range(len(sfac))))]
    out += [L(x) for x in std]
    out += [x if isinstance(x, dict) else L(x) for x in extra]
    out += [L('FVAR ' + ' '.join(f'{v:.5f}' for v in fvar))]
    return out


# ------------------------------------------------------------------------------------------------
# every way in which a valid file can put something into the Shelxfile object — each of them optional.
# (key, section, lines(v)): v = 0/1 selects one of two sets of values (all of them different from the defaults and from
# each other), so that two files that both have the instruction still differ in what it says.
# sections: disp (between SFAC and UNIT), head (instruction section), pre (directly before the atoms), post (own atoms,
# after the common ones), tail (between HKLF and END: SHELXL writes its REM summary there), after (behind END)

def _n(v, a, b):
    return a if v == 0 else b


OPTIONAL = [
    ('SYMM', 'symm', lambda v: [L('SYMM ' + _n(v, '-X, 1/2+Y, -Z', '1/2+X, -Y, 1/2-Z'))]),
    ('DISP', 'disp', lambda v: [L(f'DISP C {_n(v, 0.0033, 0.0181)} {_n(v, 0.0016, 0.0091)} {_n(v, 11.5, 33.5)}')]),
    ('TEMP', 'head', lambda v: [L(f'TEMP {_n(v, -100, -173.18)}')]),
    ('L.S.', 'head', lambda v: [L(f'L.S. {_n(v, "10 2 3", "14")}')]),
    ('CGLS', 'head', lambda v: [L(f'CGLS {_n(v, 7, "9 1")}')]),
    ('PLAN', 'head', lambda v: [L(f'PLAN {_n(v, "25 1.5 2.5", "-30")}')]),
    ('LIST', 'head', lambda v: [L(f'LIST {_n(v, 4, 6)}')]),
    ('ABIN', 'head', lambda v: [L(f'ABIN {_n(v, "1 2", "3 4")}')]),
    ('ACTA', 'head', lambda v: [L(f'ACTA {_n(v, 52, "50.5 NOHKL")}')]),
    ('FMAP', 'head', lambda v: [L(f'FMAP {_n(v, "2 1 40", "-2")}')]),
    ('XNPD', 'head', lambda v: [L(f'XNPD {_n(v, -0.002, 0.003)}')]),
    ('WPDB', 'head', lambda v: [L(f'WPDB {_n(v, 2, -1)}')]),
    ('WIGL', 'head', lambda v: [L(f'WIGL {_n(v, "0.1 0.3", "0.15")}')]),
    ('SWAT', 'head', lambda v: [L(f'SWAT {_n(v, "0.5 3", "0.25 4")}')]),
    ('STIR', 'head', lambda v: [L(f'STIR {_n(v, "1.5 0.02", "1.8")}')]),
    ('SPEC', 'head', lambda v: [L(f'SPEC {_n(v, 0.3, 0.4)}')]),
    ('TWST', 'head', lambda v: [L(f'TWST {_n(v, 1, 2)}')]),
    ('PRIG', 'head', lambda v: [L(f'PRIG {_n(v, 1.5, 2.5)}')]),
    ('MERG', 'head', lambda v: [L(f'MERG {_n(v, 3, 4)}')]),
    ('MORE', 'head', lambda v: [L(f'MORE {_n(v, 2, 3)}')]),
    ('MOVE', 'pre', lambda v: [L(f'MOVE {_n(v, "0.5 0.5 0.5 -1", "1 1 1")}')]),
    ('DEFS', 'head', lambda v: [L(f'DEFS {_n(v, "0.03 0.2 0.02 0.05 0.9", "0.025 0.15")}')]),
    ('WGHT', 'head', lambda v: [L(f'WGHT {_n(v, "0.05 0.2", "0.0777")}')]),
    ('TWIN', 'head', lambda v: [L(f'TWIN {_n(v, "0 1 0 1 0 0 0 0 -1 3", "1 0 0 0 -1 0 0 0 -1")}')]),
    ('BASF', 'head', lambda v: [L(f'BASF {_n(v, "0.3 0.2", "0.45")}')]),
    ('ANIS', 'head', lambda v: [L(f'ANIS {_n(v, "C1", "$O")}')]),
    ('ANIS-n', 'pre', lambda v: [L(f'ANIS {_n(v, 2, 1)}')]),
    ('DAMP', 'head', lambda v: [L(f'DAMP {_n(v, "0.5 10", "1.7")}')]),
    ('SIZE', 'head', lambda v: [L(f'SIZE {_n(v, "0.1 0.2 0.3", "0.15 0.25 0.35")}')]),
    ('HTAB', 'head', lambda v: [L(f'HTAB {_n(v, 2.2, "C1 O1")}')]),
    ('SHEL', 'head', lambda v: [L(f'SHEL {_n(v, "99 0.8", "50 0.9")}')]),
    ('MPLA', 'head', lambda v: [L(f'MPLA {_n(v, "3 C1 C2 O1", "C1 C2 O1")}')]),
    ('GRID', 'head', lambda v: [L(f'GRID {_n(v, "-1 -2 -3 1 2 3", "-3 -2 -1 3 2 1")}')]),
    ('CONN', 'head', lambda v: [L(f'CONN {_n(v, "8 C1", "6")}')]),
    ('CONF', 'head', lambda v: [L(f'CONF{_n(v, "", " C1 C2 O1 C1")}')]),
    ('BLOC', 'head', lambda v: [L(f'BLOC {_n(v, "1 C1 C2", "-1 O1")}')]),
    ('BOND', 'head', lambda v: [L(f'BOND {_n(v, "$H", "C1 O1")}')]),
    ('BIND', 'head', lambda v: [L(f'BIND {_n(v, "C1 O1", "C2 O1")}')]),
    ('RTAB', 'head', lambda v: [L(f'RTAB {_n(v, "omeg C1 C2", "dist C1 O1")}')]),
    ('OMIT', 'head', lambda v: [L(f'OMIT {_n(v, "1 0 0", "-3 55")}')]),
    ('FREE', 'head', lambda v: [L(f'FREE {_n(v, "C1 C2", "C2 O1")}')]),
    ('EQIV', 'head', lambda v: [L(f'EQIV {_n(v, "$1 -X, -Y, -Z", "$2 1-X, 1/2+Y, -Z")}')]),
    ('HFIX', 'head', lambda v: [L(f'HFIX {_n(v, "43 C1", "137 C2")}')]),
    ('SUMP', 'head', lambda v: [L(f'SUMP {_n(v, "1.0 0.01 1.0 2", "0.5 0.02 1.0 2 1.0 2")}')]),
    ('EXTI', 'head', lambda v: [L(f'EXTI {_n(v, 0.002, 0.0135)}')]),
    ('ANSR', 'head', lambda v: [L(f'ANSR {_n(v, 0.002, 0.004)}')]),
    ('ANSC', 'head', lambda v: [L(f'ANSC {_n(v, "1 2 3 4 5 6", "6 5 4 3 2 1")}')]),
    ('BUMP', 'head', lambda v: [L(f'BUMP {_n(v, 0.03, 0.05)}')]),
    ('SADI', 'head', lambda v: [L(f'SADI {_n(v, "C1 C2 C1 O1", "0.03 C2 O1 C1 O1")}')]),
    ('SADI-bare', 'head', lambda v: [L('SADI')] + ([L('REM x')] if v else [])),
    ('DFIX', 'head', lambda v: [L(f'DFIX {_n(v, "1.5 C1 C2", "1.45 0.01 C2 O1")}')]),
    ('DANG', 'head', lambda v: [L(f'DANG {_n(v, "2.5 C1 O1", "2.4 0.03 C2 O1")}')]),
    ('SIMU', 'head', lambda v: [L(f'SIMU {_n(v, "C1 C2", "0.03 0.06 1.8 C1 > O1")}')]),
    ('DELU', 'head', lambda v: [L(f'DELU {_n(v, "C1 C2", "0.02 0.02 C2 O1")}')]),
    ('RIGU', 'head', lambda v: [L(f'RIGU{_n(v, "", " 0.003 0.003 C1 C2")}')]),
    ('ISOR', 'head', lambda v: [L(f'ISOR {_n(v, "0.1 C1", "0.05 0.1 O1")}')]),
    ('FLAT', 'head', lambda v: [L(f'FLAT {_n(v, "C1 C2 O1 C1", "0.05 C2 C1 O1 C2")}')]),
    ('CHIV', 'head', lambda v: [L(f'CHIV {_n(v, "0 0.1 C1", "2.5 C2")}')]),
    ('EADP', 'head', lambda v: [L(f'EADP {_n(v, "C1 C2", "C2 O1")}')]),
    ('EXYZ', 'head', lambda v: [L(f'EXYZ {_n(v, "C1 C2", "C2 O1")}')]),
    ('SAME', 'pre', lambda v: [L(f'SAME {_n(v, "C1 C2", "0.03 0.05 C2 > O1")}')]),
    ('NCSY', 'head', lambda v: [L(f'NCSY {_n(v, "1 C1 C2", "-1 0.2 0.1 O1")}')]),
    ('REM', 'head', lambda v: [L(f'REM {_n(v, "a remark", "another remark = with a mark")}')]),
    ('REM-DSR', 'head', lambda v: [L(f'REM DSR {_n(v, "PUT TOLUENE WITH C1 C2 ON C1 C2 PART 2 OCC -31", "REPLACE BENZENE WITH C1 C2 ON C2 O1")}')]),
    ('REM-R1', 'tail', lambda v: [L(f'REM R1 = {_n(v, 0.04, 0.0312)} for {_n(v, 7085, 911)} Fo > 4sig(Fo) and 0.0794 for all {_n(v, 10786, 1234)} data')]),
    ('REM-wR2', 'tail', lambda v: [L(f'REM wR2 = {_n(v, 0.1005, 0.0876)}, GooF = S = {_n(v, 1.016, 1.101)}, Restrained GooF = {_n(v, 0.95, 1.099)} for all data')]),
    ('REM-par', 'tail', lambda v: [L(f'REM R1 = 0.05 for 5000 Fo > 4sig(Fo) and 0.06 for all {_n(v, 6000, 7000)} data'),
                                   L(f'REM {_n(v, 945, 131)} parameters refined using {_n(v, 1842, 7)} restraints')]),
    ('REM-sg', 'tail', lambda v: [L(f'REM c08 in {_n(v, "P2(1)/c", "C2/c")}')]),
    ('REM-peak', 'after', lambda v: [L(f'REM Highest difference peak  {_n(v, 0.407, 1.213)},  deepest hole {_n(v, -0.691, -0.355)},  1-sigma level  0.073')]),
    ('WGHT-sugg', 'after', lambda v: [L(f'WGHT {_n(v, "0.0491 0.0000", "0.0312 1.2345")}')]),
    ('QPEAK', 'after', lambda v: [A('Q1', 1, (0.5, _n(v, 0.5, 0.25), 0.5), u=(0.05, _n(v, 1.5, 2.25)), q=True)]),
    ('RESI', 'post', lambda v: [L(f'RESI {_n(v, "3 CCC", "DDD 7")}'), A('C5', 1, (0.3, 0.2, _n(v, 0.3, 0.35)), resi=_n(v, 3, 7)), L('RESI 0')]),
    ('RESI-open', 'post', lambda v: [L(f'RESI {_n(v, "5 DDD", "9 EEE")}'), A('C9', 1, (0.43, 0.25, _n(v, 0.3, 0.35)), resi=_n(v, 5, 9))]),
    ('PART', 'post', lambda v: [L(f'PART {_n(v, "1 21", "2 -21")}'), A('C6', 1, (0.4, 0.2, _n(v, 0.3, 0.35)), sof=_n(v, 21.0, -21.0)), L('PART 0')]),
    ('PART-open', 'post', lambda v: [L(f'PART {_n(v, 2, -1)}'), A('C8', 1, (0.42, 0.25, _n(v, 0.3, 0.35)))]),
    ('AFIX', 'post', lambda v: [L(f'AFIX {_n(v, 43, 13)}'), A('H1', 2, (0.4, 0.25, _n(v, 0.3, 0.35)), u=(_n(v, -1.2, -1.5),)), L('AFIX 0')]),
    ('AFIX-open', 'post', lambda v: [L(f'AFIX {_n(v, 66, 56)}'), A('C7', 1, (0.41, 0.25, _n(v, 0.3, 0.35)))]),
    ('FRAG', 'post', lambda v: [L(f'FRAG {_n(v, "17 1 1 1 90 90 90", "18 2 2 2 90 100 90")}'), dict(k='r', text='C1 1 0.1 0.2 0.3'),
                                dict(k='r', text='C2 1 0.2 0.3 0.4'), L('FEND')]),
    ('FRAG-open', 'post', lambda v: [L(f'FRAG {_n(v, "17 1 1 1 90 90 90", "18 2 2 2 90 100 90")}'), dict(k='r', text='C1 1 0.1 0.2 0.3')]),
    ('MOLE', 'head', lambda v: [L(f'MOLE {_n(v, 1, 2)}')]),
    ('LAUE', 'head', lambda v: [L(f'LAUE {_n(v, "C", "O")}')]),
    ('TIME', 'head', lambda v: [L(f'TIME {_n(v, 5, 50)}')]),
    ('NEUT', 'neut', lambda v: [L('NEUT')]),
    ('SFAC-2', 'disp', lambda v: [L(f'SFAC {_n(v, "N", "S F")}')]),
    ('FVAR-2', 'pre', lambda v: [L(f'FVAR {_n(v, "0.7", "0.3 0.8")}')]),
    ('HKLF-long', 'hklf', lambda v: [L(f'HKLF {_n(v, "4 1 1 0 0 0 1 0 0 0 1", "5 2 0 1 0 1 0 0 0 0 -1")}')]),
    ('blank', 'head', lambda v: [L('')] * (1 + v)),
]
OPT_KEYS = [k for k, _, _ in OPTIONAL]
# what SHELXL refuses in one file, or what would only shadow another group: left out of the "rich" profile
NOT_IN_RICH = {'CGLS', 'SWAT', 'ANIS-n', 'RESI-open', 'PART-open', 'AFIX-open', 'FRAG-open', 'NEUT', 'SFAC-2', 'HKLF-long'}


def file_opt(sel, v=0, titl='c08 optional'):
    """a valid file: the instructions SHELXL cannot do without (TITL CELL ZERR LATT SFAC UNIT FVAR, atoms, HKLF, END)
    plus the groups of `OPTIONAL` named in `sel` = [key | (key, v)], everything else absent"""
    parts = {}
    for item in sel:
        key, vv = (item, v) if isinstance(item, str) else item
        sec, fn = next((s_, f_) for k_, s_, f_ in OPTIONAL if k_ == key)
        parts.setdefault(sec, []).extend(fn(vv))
    els = ('C', 'H', 'O') if v == 0 else ('O', 'C', 'H')      # the same names stand for other scattering factors
    nc, nh, no = els.index('C') + 1, els.index('H') + 1, els.index('O') + 1
    f = [L(f'TITL {titl}'), L('CELL ' + _n(v, '0.71073 10.0 11.0 12.0 90 95 90', '1.54178 7.5 8.25 19.0 90 101.5 90')),
         L(f'ZERR {_n(v, 4, 2)} 0.001 0.001 0.001 0 0.01 0'), L(f'LATT {_n(v, -1, 2)}')]
    f += parts.get('symm', []) + parts.get('neut', [])
    f += [L('SFAC ' + ' '.join(els))] + parts.get('disp', []) + [L('UNIT ' + _n(v, '4 8 12', '6 10 2') + (' 2' * sum(len(x['text'].split()) - 1 for x in parts.get('disp', []) if x['text'].startswith('SFAC'))))]
    f += parts.get('head', [])
    f += [L('FVAR ' + _n(v, '0.5 0.6', '0.75 0.4 0.3'))] + parts.get('pre', [])
    f += [A('C1', nc, (0.1, 0.2, _n(v, 0.3, 0.31))), A('C2', nc, (0.15, 0.25, _n(v, 0.35, 0.36)), sof=_n(v, 11.0, 21.0)),
          A('O1', no, (0.6, 0.7, _n(v, 0.8, 0.81)), u=_n(v, (0.04,), (0.02, 0.03, 0.04, 0.001, 0.002, 0.003)))]
    f += [dict(x, sfac={1: nc, 2: nh, 3: no}[x['sfac']]) if x['k'] == 'a' and not x['q'] else x for x in parts.get('post', [])]
    f += parts.get('hklf', [L('HKLF 4')]) + parts.get('tail', []) + [L('END')] + parts.get('after', [])
    return f


def file_bare(v=0):
    return file_opt([], v, titl='c08 bare')


def file_rich(v=0):
    return file_opt([k for k in OPT_KEYS if k not in NOT_IN_RICH], v, titl='c08 rich')


def read_shapes(a, b):
    """every way to read file a and then file b into one object"""
    return [[['read_string', a], ['read_string', b]], [['read_file', a], ['read_file', b]], [['read_string', a], ['read_file', b]],
            [['read_file', a], ['read_string', b]], [['read_file', a], ['read_file', b], ['reload']],
            [['read_file', a], ['reload'], ['read_string', b], ['read_file', b]]]


def reread_cases(ctx):
    """the systematic part of the re-read stream.
    one-in:   file with exactly one optional group, then the bare file        (all groups x 5 shapes, other values x 2 shapes)
    profiles: bare / rich / rich with other values / the two fixed files, every ordered pair x 6 shapes
    one-out:  rich file, then the rich file (other values) without one group  (quick: a sample, thorough: all)"""
    cases = []
    bare = file_bare()
    for key in OPT_KEYS:
        for v in (0, 1):
            shapes = read_shapes(0, 1)[:5]          # (the sixth re-reads file a itself: one more fresh process per group)
            for ops in (shapes if v == 0 else shapes[:2]):
                cases.append(dict(files=[file_opt([key], v), bare if v == 0 else file_bare(1)], ops=ops, tag='one-in:' + key))
    prof = [file_bare(), file_rich(0), file_rich(1), file_twins(), file_other()]
    for i in range(len(prof)):
        for j in range(len(prof)):
            if i != j:
                for ops in read_shapes(i, j):
                    cases.append(dict(files=prof, ops=ops, check_first_read=True, tag='profiles'))
    rich_keys = [k for k in OPT_KEYS if k not in NOT_IN_RICH]
    outs = rich_keys if ctx.budget(0, 1) else ctx.rng.sample(rich_keys, 6)
    for key in outs:
        cases.append(dict(files=[file_rich(0), file_opt([k for k in rich_keys if k != key], 1, titl='c08 rich')],
                          ops=[['read_string', 0], ['read_string', 1]], tag='one-out:' + key))
    return cases


def file_twins():
    """atoms with identical lines: same atom line in two residues, a plain duplicate, the same line in two PARTs;
    identical SADI and REM lines; a riding hydrogen; an anisotropic atom; Q-peaks after END"""
    f = header(extra=['SADI C1 C2', 'REM note', 'SADI C1 C2', 'REM note', '', 'DFIX 1.5 C1 C3'])
    f += [L('RESI 1 AAA'),
          A('C1', 1, (0.1, 0.2, 0.3), resi=1), A('C2', 1, (0.15, 0.25, 0.35), resi=1),
          L('RESI 2 AAA'),
          A('C1', 1, (0.1, 0.2, 0.3), resi=2), A('C2', 1, (0.45, 0.25, 0.35), resi=2),
          L('RESI 0'),
          A('C3', 1, (0.31, 0.42, 0.53), u=(0.02, 0.03, 0.04, 0.001, 0.002, 0.003)),
          L('AFIX 43'), A('H3', 2, (0.33, 0.44, 0.55), u=(-1.2,)), L('AFIX 0'),
          L('PART 1'), A('O1', 3, (0.6, 0.7, 0.8), sof=21.0), L('PART 2'), A('O1', 3, (0.6, 0.7, 0.8), sof=21.0), L('PART 0'),
          A('C4', 1, (0.7, 0.1, 0.2)), A('C4', 1, (0.7, 0.1, 0.2)),
          L('HKLF 4'), L('END'), L(''),
          A('Q1', 1, (0.5, 0.5, 0.5), u=(0.05, 1.5), q=True), A('Q2', 1, (0.25, 0.5, 0.5), u=(0.05, 1.25), q=True)]
    return f


def file_other():
    """a different file. Everything a value remembered from the previous read could get wrong differs from file 0:
    SFAC order (hydrogen is scattering factor 4 here, 2 there; number 1 is oxygen, not carbon), cell and wavelength, Z,
    centred lattice with a SYMM card, free variables (number and values), atom names reused for other elements and
    residues, occupancies tied to other free variables, which atoms ride, no text twins, no Q-peaks"""
    f = header(latt=2, symm=('-X, 1/2+Y, 1/2-Z',), sfac=('O', 'N', 'S', 'H', 'C'), fvar=(0.75, 0.4, 0.6), z=2,
               cell='1.54178 7.5 8.25 19.0 90 101.5 90',
               extra=['SIMU 0.04 N1 Sx1', 'WGHT 0.1', 'OMIT 1 0 0', 'EQIV $1 -X, -Y, -Z', 'DFIX 1.4 C1 C2'])
    f += [A('N1', 2, (0.11, 0.21, 0.31), sof=21.0), A('Sx1', 3, (0.12, 0.22, 0.32), sof=-21.0),
          A('C1', 1, (0.4, 0.2, 0.3), sof=31.0), A('C2', 5, (0.15, 0.25, 0.35), sof=10.5),
          L('AFIX 137'), A('H1A', 4, (0.2, 0.3, 0.4), u=(-1.5,)), A('H3', 5, (0.21, 0.31, 0.41), u=(-1.5,)), L('AFIX 0'),
          L('RESI 4 BBB'), A('C7', 5, (0.9, 0.8, 0.7), u=(0.03, 0.03, 0.03, 0.0, 0.01, 0.0), resi=4), L('RESI 0'),
          L('HKLF 4'), L('END')]
    return f


def random_file(rng):
    els = ['C', 'H'] + rng.sample(['N', 'O', 'F', 'S', 'Cl', 'Br'], rng.randint(1, 3))
    rng.shuffle(els)       # the scattering-factor number of an element differs from file to file
    latt = rng.choice([-1, 1, -2, 2, -7, 7, -4])
    symm = rng.choice([(), ('-X, 1/2+Y, -Z',), ('-X, -Y, 1/2+Z', '1/2+X, 1/2-Y, -Z')])
    fv = [round(rng.uniform(0.1, 1.0), 5) for _ in range(rng.randint(1, 4))]
    restr = ['SADI C1 C2', 'REM note', 'DFIX 1.5 C1 C2', 'SIMU C1 > C9', 'RIGU', 'DELU C1 C2', 'REM other', '', 'BOND $H', 'CONF', 'ACTA',
             'FMAP 2', 'SIZE 0.1 0.2 0.3', 'WGHT 0.05 0.2', 'HTAB', 'EQIV $1 -X, -Y, -Z', 'OMIT 1 0 0']
    extra = [rng.choice(restr) for _ in range(rng.randint(0, 6))]
    cell = rng.choice(['0.71073 10.0 11.0 12.0 90 95 90', '1.54178 8.0 8.0 15.5 90 90 120', '0.56086 6.5 9.25 13.0 80 85 75'])
    # every instruction is optional: the usual four with other values or absent, any of the groups of OPTIONAL present
    std = [x for x in (f'TEMP {rng.choice([-100, -173.15, 0, 25])}', f'L.S. {rng.randint(1, 20)}', f'PLAN {rng.randint(5, 40)}',
                       f'LIST {rng.choice([4, 6])}') if rng.random() < 0.6]
    opt = {'head': [], 'tail': [], 'after': []}
    if rng.random() < 0.7:
        for key, sec, fn in OPTIONAL:
            if sec in opt and key not in ('QPEAK', 'blank') and rng.random() < 0.15:
                opt[sec] += fn(rng.randint(0, 1))
    extra += opt['head']
    rng.shuffle(extra)
    f = header(latt=latt, symm=symm, sfac=els, fvar=fv, extra=extra, cell=cell, z=rng.choice([1, 2, 4, 8]), std=std)
    atoms = []
    nat = rng.randint(2, 9)
    resi = 0
    part = 0
    in_afix = False
    for i in range(nat):
        r = rng.random()
        if r < 0.2:
            resi = rng.choice([0, 1, 2, 3])
            f.append(L(f'RESI {resi} CCC' if resi else 'RESI 0'))
        elif r < 0.35:
            part = rng.choice([0, 1, 2])
            f.append(L(f'PART {part}'))
        elif r < 0.45 and not in_afix:
            f.append(L('AFIX 43'))
            in_afix = True
        elif r < 0.55 and in_afix:
            f.append(L('AFIX 0'))
            in_afix = False
        elif r < 0.62:
            f.append(L(rng.choice(['REM note', 'SADI C1 C2', ''])))
        if atoms and rng.random() < 0.35:
            src = rng.choice(atoms)
            a = dict(src, xyz=list(src['xyz']), u=list(src['u']), resi=resi)          # a text twin
        else:
            s = rng.randint(1, len(els))
            el = els[s - 1]
            u = (round(rng.uniform(0.01, 0.09), 5),) if rng.random() < 0.7 else tuple(round(rng.uniform(0.011, 0.05), 5) for _ in range(6))
            if el == 'H':
                u = (rng.choice([-1.2, -1.5]),)   # mixed-case names ('Cl1', 'Br2') stay as written: look-ups upper-case them
            a = A(f'{el}{rng.randint(1, 5)}{rng.choice(["", "", "A"])}'[:4], s, tuple(round(rng.uniform(0.01, 0.99), 6) for _ in range(3)),
                  sof=rng.choice([11.0, 11.0, 10.5, 21.0 if len(fv) > 1 else 11.0, -21.0 if len(fv) > 1 else 10.25, 31.0 if len(fv) > 2 else 11.0]), u=u, resi=resi)
        atoms.append(a)
        f.append(a)
    if in_afix:
        f.append(L('AFIX 0'))
    if part:
        f.append(L('PART 0'))
    if resi:
        f.append(L('RESI 0'))
    f += [L('HKLF 4')] + opt['tail'] + [L('END')] + opt['after']
    for q in range(rng.randint(0, 3)):
        f.append(A(f'Q{q + 1}', 1, (round(rng.uniform(0, 1), 4), 0.5, 0.25), u=(0.05, round(1.5 - 0.1 * q, 2)), q=True))
    return f


# ------------------------------------------------------------------------------------------------
# fresh-process reference for the re-read stream

def canon(v, depth=0):
    from shelxfile.atoms.atom import Atom
    if v is None or isinstance(v, (bool, int, str)):
        return v
    if isinstance(v, float):
        return v
    if isinstance(v, Path):
        return 'path'
    if isinstance(v, (list, tuple)):
        return [canon(x, depth + 1) for x in v]
    if isinstance(v, (set, frozenset)):
        return sorted((canon(x, depth + 1) for x in v), key=repr)
    if isinstance(v, dict):
        return sorted(([canon(k, depth + 1), canon(x, depth + 1)] for k, x in v.items()), key=repr)
    if isinstance(v, Atom):
        return ['Atom', v.name, v.sfac_num, v.x, v.y, v.z, v.sof, list(v.uvals), v.part.n, (v.afix.mn if v.afix else None), v.resinum,
                v.resiclass, v.qpeak, v.peak_height, v.is_hydrogen, str(v)]
    tn = type(v).__name__
    if tn == 'Shelxfile':
        return 'shx'
    if tn == 'SymmetryElement':
        return [tn, [[float(v.matrix[i, j]) for j in range(3)] for i in range(3)], [float(t) for t in v.trans], bool(v.centric)]
    if tn == 'SymmCards':
        return [tn] + [canon(x, depth + 1) for x in v]
    if tn == 'Atoms':
        return [tn] + [canon(x, depth + 1) for x in v.all_atoms]
    if tn == 'LATT':
        return [tn, str(v), v.N, v.centric, [canon(x, depth + 1) for x in v.latt_ops]]
    if not hasattr(v, '__dict__'):
        return [tn] if (type(v).__str__ is object.__str__ and type(v).__repr__ is object.__repr__) else [tn, str(v)]
    if depth < 3 and ((type(v).__str__ is object.__str__ and type(v).__repr__ is object.__repr__) or tn in ('Residues', 'Restraints')):
        return [tn] + sorted(([k, canon(x, depth + 1)] for k, x in vars(v).items() if type(x).__name__ != 'Shelxfile'), key=repr)
    return [tn, str(v)]


def state_of(shx):
    """everything the object holds after a read, in a comparable form (public and private attributes alike:
    `resets all state`); file paths reduced to 'path'"""
    d = {k: canon(v) for k, v in vars(shx).items()}
    d.update(derived(shx))
    return d


def _try(f):
    try:
        return canon(f())
    except Exception as e:        # the same call raises the same way in a fresh process, or the difference is reported
        return f'raise {type(e).__name__}'


def derived(shx):
    """what the API *computes* from the stored state (elements, occupancies, formulae, views, symmetry, cell): a value
    remembered from an earlier read (memo, cache, default argument, closure) shows here and nowhere in `vars(shx)`"""
    at = shx.atoms
    per_atom = []
    for a in at.all_atoms:
        per_atom.append([_try(lambda: a.fullname), _try(lambda: a.element), _try(lambda: a.an), _try(lambda: a.radius),
                         _try(lambda: a.is_hydrogen), _try(lambda: a.fvar), _try(lambda: a.occupancy), _try(lambda: a.resiclass),
                         _try(lambda: a.resinum), _try(lambda: a.part.n), _try(lambda: a.afix.mn if a.afix else None),
                         _try(lambda: a.pivot.fullname if a.pivot else None), _try(lambda: a.qpeak), _try(lambda: a.is_isotropic),
                         _try(lambda: list(a.cart_coords)), _try(lambda: a.atomid), _try(lambda: a.ueq)])
    names = lambda l: [x.fullname for x in l]
    out = {
        '<atoms>': per_atom,
        '<hydrogen_atoms>': _try(lambda: names(at.hydrogen_atoms)),
        '<riding_atoms>': _try(lambda: names(at.riding_atoms)),
        '<q_peaks>': _try(lambda: names(at.q_peaks)),
        '<nameslist>': _try(lambda: list(at.nameslist)),
        '<atom counts>': _try(lambda: [at.number, at.n_hydrogen_atoms, at.n_anisotropic_atoms, at.n_isotropic_atoms,
                                       at.n_anisotropic_hydrogen_atoms, at.n_hydrogen_atoms_with_constr_u_val]),
        '<residues>': _try(lambda: sorted(at.residues)),
        '<coordinates>': _try(lambda: at.get_all_atomcoordinates()),
        '<sum_formula>': _try(lambda: shx.sum_formula),
        '<sum_formula_exact>': _try(lambda: shx.sum_formula_exact),
        '<sum_formula_exact_as_dict>': _try(lambda: shx.sum_formula_exact_as_dict()),
        '<formula_weight>': _try(lambda: shx.formula_weight),
        '<sfac>': _try(lambda: [list(shx.sfac_table), list(shx.sfac_table.elements_list),
                                [shx.elem2sfac(e) for e in shx.sfac_table.elements_list],
                                [shx.sfac2elem(i) for i in range(1, len(shx.sfac_table.elements_list) + 2)]]),
        '<unit>': _try(lambda: list(shx.unit.values)),
        '<fvars>': _try(lambda: [shx.fvars.as_stringlist, shx.fvars.fvars_used(), [shx.fvars[i] for i in range(1, len(shx.fvars) + 1)]]),
        '<cell>': _try(lambda: [list(shx.cell), shx.cell.volume, shx.wavelength, shx.Z]),
        '<symm>': _try(lambda: [[x.to_shelxl(), bool(x.centric)] for x in shx.symmcards]),
        '<latt>': _try(lambda: [shx.latt.N, shx.latt.centric, [x.to_shelxl() for x in shx.latt.latt_ops]]),
        '<restraints>': _try(lambda: [[str(r), list(r.atoms), r.residue_class, r.index] for r in shx.restraints]),
        '<restraint_errors>': _try(lambda: list(shx.restraint_errors)),
        '<positions>': _try(lambda: [getattr(shx, n).position for n in ('unit', 'cycles', 'plan', 'hklf', 'fvars') if getattr(shx, n, None) is not None]),
        '<text>': _try(lambda: repr(shx)),
    }
    return out


def fresh_process_state(text):
    with tempfile.NamedTemporaryFile('w', suffix='.res', delete=False) as f:
        f.write(text)
    try:
        env = dict(os.environ, PYTHONDONTWRITEBYTECODE='1')
        p = subprocess.run([sys.executable, '-m', 'harness.props.c08', '--state', f.name], cwd=str(core.VERIF), env=env,
                           stdout=subprocess.PIPE, stderr=subprocess.PIPE, text=True, timeout=120)
        if p.returncode != 0:
            raise RuntimeError('fresh process failed: ' + p.stderr[-1500:])
        return json.loads(p.stdout.splitlines()[-1])
    finally:
        os.unlink(f.name)


def class_state():
    """mutable containers that live on classes / at module level of the package: shared by all objects of the process.
    (Counters such as SymmetryElement.symm_id are deliberately not included: an id that is never read.)"""
    out = {}
    for mn, mod in list(sys.modules.items()):
        if not (mn == 'shelxfile' or mn.startswith('shelxfile.')) or mod is None:
            continue
        for cn, cls in list(vars(mod).items()):
            if isinstance(cls, type) and getattr(cls, '__module__', '') == mn:
                for k, v in vars(cls).items():
                    if isinstance(v, (list, dict, set)) and not k.startswith('__'):
                        out[f'{cn}.{k}'] = canon(v)
            elif isinstance(cls, (list, set, dict)) and not cn.startswith('__') and len(cls) <= 64:
                out[f'{mn}.{cn}'] = canon(cls)
    return out


def first_diff(a, b):
    for k in sorted(set(a) | set(b)):
        if a.get(k) != b.get(k):
            return k
    return None


# ------------------------------------------------------------------------------------------------
# one history on the real code

class ReadRaised(Exception):
    pass


class Player:
    def __init__(self, ctx, case, tmpdir):
        from shelxfile import Shelxfile
        self.ctx = ctx
        self.case = case
        self.files = case['files']
        self.tmp = tmpdir
        self.shx = Shelxfile()
        # the attributes that a new object has as `None`: whatever one of them holds later, a read put it there
        # (`afix`, like `part` and `resi`, is the parser's "current AFIX/PART/RESI" — a synthetic `AFIX 0` after HKLF/END — and
        # not an instruction of the file that the API hands out)
        self.none_attrs = sorted(n for n, v in vars(self.shx).items() if v is None and n not in ('afix', 'part', 'resi'))
        self.texts = {}          # interned texts
        self.uid = {}            # id(obj) -> uid
        self.obj = {}            # uid -> obj (keeps the objects alive)
        self.deleted = []        # [(uid, obj)] since the last read
        self.cur = None          # index of the file read last
        self.steps = []          # observations
        self.mops = []           # ops for the model
        self.mfile = None
        self.opkinds = []
        self.kind_mismatch = 0
        self.atoms_missed = 0

    def intern(self, key):
        return self.texts.setdefault(key, len(self.texts) + 1)

    def tid_raw(self, s):
        return self.intern(('text', s))

    def tid_obj(self, a):
        """text ids only name equality classes of printed lines (`Atom.__eq__` compares exactly these strings)"""
        try:
            return self.tid_raw(str(a))
        except Exception:
            return 0

    # -- reads ---------------------------------------------------------------------------------
    def after_read(self, k):
        """tag every object of the freshly parsed list with its line number (the model's uid) and describe the list to
        the model: which slots hold strings / atoms / other objects is the parser's business (C02, C03), not C08's"""
        from shelxfile.atoms.atom import Atom
        self.cur = k
        lines = self.files[k]
        self.uid, self.obj, self.deleted = {}, {}, []
        mfile = []
        self.kind_mismatch = 0
        self.atoms_missed = 0
        holder = {}              # id(object) -> the attribute that hands it out
        for n, x in self.attr_objects():
            holder.setdefault(id(x), n)
        for i, x in enumerate(self.shx._reslist):
            if isinstance(x, str):
                kind = 'r'
                mfile.append(['r', self.tid_raw(x)])
            else:
                self.uid[id(x)] = i
                self.obj[i] = x
                if isinstance(x, Atom):
                    kind = 'a'
                    mfile.append(['a', self.tid_obj(x), self.intern(('name', x.fullname.upper()))])
                else:
                    kind = 'c'
                    mfile.append(['c', self.tid_obj(x)] + ([self.intern(('attr', holder[id(x)]))] if id(x) in holder else []))
            if i >= len(lines) or lines[i]['k'] != kind:
                self.kind_mismatch += 1
                if kind == 'a' or (i < len(lines) and lines[i]['k'] == 'a'):
                    self.atoms_missed += 1
        return mfile

    def attr_objects(self):
        """[(attribute, object)] for the attributes that are `None` on a new Shelxfile and hold an object now"""
        out = []
        for n in self.none_attrs:
            x = getattr(self.shx, n, None)
            if x is not None and not isinstance(x, (bool, int, float, str, bytes, Path, list, tuple, dict, set)):
                out.append((n, x))
        return out

    def atom(self, i):
        al = self.shx.atoms.all_atoms
        return al[i % len(al)] if al else None

    # -- one op: returns (model ops, raised) ---------------------------------------------------------
    def apply(self, op):
        shx = self.shx
        kind = op[0]
        if kind in ('read_string', 'read_file', 'reload'):
            if kind == 'reload' and shx.resfile is None:
                return None
            k = self.cur if kind == 'reload' else op[1] % len(self.files)
            try:
                if kind == 'reload':
                    shx.reload()
                elif kind == 'read_string':
                    shx.read_string(render(self.files[k]))
                else:
                    p = Path(self.tmp) / f'f{k}.res'
                    p.write_text(render(self.files[k]))
                    shx.read_file(p)
            except Exception as e:       # a valid file, read into an object with a history, must read like into a new one
                raise ReadRaised(type(e).__name__)
            return [['read', self.after_read(k)]], False, ('read', k)
        if kind in ('del_id', 'delete', 'del_name', 'rename', 'element', 'to_iso'):
            a = self.atom(op[1])
            if a is None:
                return None
            u = self.uid.get(id(a), 10 ** 6)
            if kind == 'del_id':
                key = a.atomid
                before = list(shx.atoms.all_atoms)
                raised = self.call(lambda: shx.atoms.__delitem__(key))
                self.note_deleted(before)
                return [['delId', key]], raised, None
            if kind == 'delete':
                before = list(shx.atoms.all_atoms)
                raised = self.call(a.delete)
                self.note_deleted(before)
                return [['delete', u]], raised, None
            if kind == 'del_name':
                b = shx.atoms.get_atom_by_name(a.fullname)
                if b is None:
                    return [['lookup']], False, None
                before = list(shx.atoms.all_atoms)
                raised = self.call(b.delete)
                self.note_deleted(before)
                return [['lookup'], ['delete', self.uid.get(id(b), 10 ** 6)]], raised, None
            if kind == 'rename':
                a.name = op[2]
                return [['rename', u, self.intern(('name', f'{op[2]}_{a.resinum}'.upper())), self.tid_obj(a)]], False, None
            if kind == 'element':
                el = op[2].upper()
                a.element = op[2]
                return [['retext', u, self.tid_obj(a)]], False, None
            a.to_isotropic()
            return [['retext', u, self.tid_obj(a)]], False, None
        if kind == 'add_line':
            anchor, what = op[1], op[2]
            if anchor in ('unit', 'fvars', 'cycles'):
                if getattr(shx, anchor, None) is None:          # a file without L.S./CGLS has no `cycles`
                    return None
                pos = getattr(shx, anchor).position
            else:
                a = self.atom(anchor[1])
                if a is None:
                    return None
                try:
                    pos = a.index
                except (ValueError, RecursionError):
                    return None
            if what == 'rem':
                text = 'REM added by hand'
                t = self.tid_raw(text)
            elif what == 'sadi':
                text = 'SADI C1 C2'
                t = self.tid_raw(text)
            elif what == 'blank':
                text = ''
                t = self.tid_raw(text)
            else:   # a copy of an atom's line, as a user duplicating an atom would add it
                a = self.atom(what[1])
                if a is None:
                    return None
                text = str(a)
                t = self.tid_raw(text)
            shx.add_line(pos, text)
            return [['insert', pos, t]], False, None
        if kind == 'plan':
            if shx.plan is None:
                return None
            shx.plan.set(f'PLAN {op[1]}')
            return [['retext', self.uid.get(id(shx.plan), 10 ** 6), self.tid_raw(f'PLAN {op[1]}')]], False, None
        if kind == 'cycles':
            if shx.cycles is None:
                return None
            shx.cycles.number = op[1]
            return [['retext', self.uid.get(id(shx.cycles), 10 ** 6), self.tid_raw(f'L.S. {op[1]}')]], False, None
        raise ValueError(f'unknown op {op}')

    @staticmethod
    def call(f):
        try:
            f()
            return False
        except (ValueError, IndexError, AttributeError, KeyError, RecursionError):
            return True

    def note_deleted(self, before):
        now = {id(x) for x in self.shx.atoms.all_atoms}
        for x in before:
            if id(x) not in now and not any(x is g for _, g in self.deleted):
                self.deleted.append((self.uid.get(id(x), 10 ** 6), x))

    # -- the observation after a step ------------------------------------------------------------
    def position_of(self, x):
        try:
            t = type(x)
            if hasattr(t, 'index') and isinstance(getattr(t, 'index'), property):
                return x.index
            if hasattr(t, 'position') and isinstance(getattr(t, 'position'), property):
                return x.position
            return self.shx.index_of(x)
        except (ValueError, RecursionError):
            return None

    def api_objects(self):
        shx = self.shx
        out = []
        for name in ('cell', 'zerr', 'latt', 'unit', 'plan', 'cycles', 'hklf', 'wght', 'wght_suggested', 'acta', 'fmap', 'size', 'conf',
                     'htab', 'defs', 'sfac_table', 'fvars'):
            x = getattr(shx, name, None)
            if x is not None and not (name in ('sfac_table', 'fvars') and not len(list(x))):
                out.append(x)
        for name in ('restraints', 'rem', 'hfixes', 'bonds', 'disp', 'free', 'sump', 'bloc', 'rtab'):
            out += list(getattr(shx, name, []) or [])
        return out

    def observe(self, raised, write):
        from shelxfile.atoms.atom import Atom
        shx = self.shx
        rl = shx._reslist
        uid = self.uid
        res = []
        for x in rl:
            if isinstance(x, str):
                res.append(['r', self.tid_raw(x)])
            else:
                res.append(['a' if isinstance(x, Atom) else 'c', uid.get(id(x), 10 ** 6)])
        al = list(shx.atoms.all_atoms)
        atoms, ok_pos, ids = [], True, []
        for a in al:
            idx = self.position_of(a)
            try:
                aid = a.atomid
            except RecursionError:      # list.index() formats its ValueError with repr(atom), which asks for atomid again
                aid = -1
            ids.append(aid)
            atoms.append([uid.get(id(a), 10 ** 6), aid, idx])
            if idx is None or not (0 <= idx < len(rl)) or rl[idx] is not a:
                ok_pos = False
        cards, ok_cards = [], True
        tagged = [(u, x) for u, x in sorted(self.obj.items()) if not isinstance(x, Atom)]
        for u, x in tagged:
            idx = self.position_of(x)
            cards.append([u, idx])
            if idx is None or not (0 <= idx < len(rl)) or rl[idx] is not x:
                ok_cards = False
        for x in self.api_objects():
            if id(x) not in uid:          # handed out by the API but never placed in the file list
                ok_cards = False
                cards.append([10 ** 6, self.position_of(x)])
        slots, ok_attrs = [], True
        for n, x in self.attr_objects():
            idx = self.position_of(x)
            slots.append([self.intern(('attr', n)), uid.get(id(x), 10 ** 6)])
            if idx is None or not (0 <= idx < len(rl)) or rl[idx] is not x:
                ok_attrs = False
        ok_ids = len(set(ids)) == len(ids) and len({id(a) for a in al}) == len(al)
        ok_byid = all(aid >= 0 and shx.atoms.get_atom_by_id(aid) is a for a, aid in zip(al, ids))
        names = [a.fullname.upper() for a in al]
        byname, ok_byname = [], True
        for a, n in zip(al, names):
            b = shx.atoms.get_atom_by_name(a.fullname)
            byname.append([uid.get(id(a), 10 ** 6), None if b is None else uid.get(id(b), 10 ** 6)])
            if names.count(n) == 1 and b is not a:
                ok_byname = False
        ok_del, ok_written = True, True
        if self.deleted:
            views = [al, list(shx.atoms.atomsdict.values()), shx.atoms.hydrogen_atoms, shx.atoms.riding_atoms, shx.atoms.q_peaks,
                     [x for x in rl if not isinstance(x, str)]]
            for _, g in self.deleted:
                if any(any(x is g for x in v) for v in views):
                    ok_del = False
            if write:
                ok_written = self.written_ok(al)
        return dict(raised=raised, res=res, atoms=atoms, cards=cards, byname=byname, gone=sorted(u for u, _ in self.deleted),
                    slots=sorted(slots), clauses=[ok_pos, ok_cards, ok_ids, ok_byid, ok_byname, ok_del, ok_attrs], written=ok_written)

    def written_ok(self, al):
        """the line of a deleted atom occurs in the written file no more often than entries of the file list print it"""
        p = Path(self.tmp) / 'out.ins'
        self.shx.write_shelx_file(str(p))
        toks = [tuple(l.split()) for l in p.read_text().replace('=\n', ' ').splitlines()]
        live = [tuple(str(x).split()) for x in self.shx._reslist]
        for _, g in self.deleted:
            t = tuple(str(g).split())
            if toks.count(t) > live.count(t):
                return False
        return True


def has_twins(pl):
    """does an atom print the same line as another atom or as a plain line of the file?"""
    keys = [str(a) for a in pl.shx.atoms.all_atoms]
    return len(set(keys)) != len(keys) or any(isinstance(x, str) and x in keys for x in pl.shx._reslist)


# ------------------------------------------------------------------------------------------------

_fresh_cache = {}


def evaluate(ctx, cases, stream=None):
    for s in ('inv', 'table', 'reread'):
        ctx.stream(s)
    reqs, played = [], []
    prefetch(cases)
    with tempfile.TemporaryDirectory(prefix='c08_') as tmp:
        for case in cases:
            pl = play(ctx, case, tmp)
            played.append(pl)
            if pl.mfile is not None:
                reqs.append(dict(p='C08', op='replay', cfg='repaired', file=pl.mfile, ops=pl.mops))
    try:
        answers = ctx.driver.batch(reqs) if getattr(ctx, 'model_ok', True) else None
    except core.LeanError:
        if getattr(ctx, 'model_ok', True):
            raise
        answers = None
    ai = 0
    for pl in played:
        case = pl.case
        ans = None
        if pl.mfile is not None and answers is not None:
            ans = answers[ai]['steps']
            ai += 1
        elif pl.mfile is not None:
            ai += 1
        nontrivial = len(pl.opkinds) > 1
        ctx.count(['hist', case['files'], case['ops']], nontrivial=nontrivial,
                  sample=dict(ops=case['ops'][:6], atoms=len(pl.shx.atoms.all_atoms), steps=len(pl.steps)) if len(pl.steps) > 2 else None,
                  tags=['len=%d' % min(len(case['ops']), 41)] + sorted({'op=' + k for k in pl.opkinds}) + (['twins'] if pl.twins else []) +
                  (['line-kinds-differ-from-construction'] if getattr(pl, 'kind_mismatch', 0) else []) +
                  (['reread=' + case['tag'].split(':')[0]] if case.get('tag') else []))
        # implementation vs spec --------------------------------------------------------------
        reported = False
        for si, st in enumerate(pl.steps):
            bad = [CLAUSES[i] for i, ok in enumerate(st['clauses']) if not ok] + ([] if st['written'] else ['written'])
            if bad:
                cause = 'twin-text' if st['twins'] else 'after=' + st['opkind']
                small = dict(case, ops=case['ops'][:st['nops']])
                ctx.fail(f'C08|{bad[0]}|{cause}',
                         f'after {small["ops"]}: clause(s) {bad} of the consistency invariant fail on the real object graph '
                         f'(atoms [uid, atomid, index] = {st["atoms"]})',
                         dict(case=small, stream='inv', expected=dict(clauses=dict.fromkeys(CLAUSES + ['written'], True)),
                              actual=dict(failed=bad, atoms=st['atoms'], byname=st['byname'], gone=st['gone'], slots=self_slots(pl, st)),
                              model=None if ans is None or st['mi'] >= len(ans) else dict(atoms=ans[st['mi']]['atoms'], clauses=ans[st['mi']]['model'])))
                reported = True
                break
        for rr in pl.reread_fail:
            small = dict(case, ops=case['ops'][:rr['nops']])
            what = (f'the read raised {rr["field"]} on a valid file' if rr['against'] == 'raise' else
                    f'class-level data `{rr["field"]}` changed during the read (shared by every later read in the process)'
                    if rr['against'] == 'class-state' else
                    f'the re-read object differs from a {rr["against"]} reading the same text in `{rr["field"]}`')
            ctx.fail(f'C08|reread|{rr["against"]}|{rr["field"]}', f'after {small["ops"]}: {what}',
                     dict(case=small, stream='reread', expected=rr['expected'], actual=rr['actual']))
            reported = True
            break
        if getattr(pl, 'atoms_missed', 0):
            ctx.fail('C08|parse|atoms', f'{pl.atoms_missed} atom line(s) of a generated valid file were not parsed as atoms (or vice versa); '
                     'the history ran on a truncated model', dict(case=case, stream='table'), kind='correspondence')
        if pl.error:
            ctx.fail('C08|harness|' + pl.error.split(':')[0], f'history could not be played: {pl.error}', dict(case=case, stream='table'), kind='correspondence')
            continue
        # implementation vs model -------------------------------------------------------------
        if ans is None or reported:
            continue
        if len(ans) != len(pl.msteps):
            ctx.fail('C08|model|steps', f'model replay has {len(ans)} steps, implementation {len(pl.msteps)}', dict(case=case, stream='table'),
                     kind='correspondence')
            continue
        for st, m in zip(pl.msteps, ans):
            if st is None:
                continue
            if st['slots'] != sorted(m['specslots']):        # implementation vs spec (theorem attrs_history)
                small = dict(case, ops=case['ops'][:st['nops']])
                ctx.fail(f'C08|attrs|after={st["opkind"]}',
                         f'after {small["ops"]}: the instruction objects handed out by the attributes of the Shelxfile are not those of '
                         f'the file read last: {self_slots(pl, st)}',
                         dict(case=small, stream='inv', expected=dict(slots=named_slots(pl, sorted(m['specslots']))),
                              actual=dict(slots=self_slots(pl, st)), model=dict(slots=named_slots(pl, sorted(m['slots'])))))
                reported = True
                break
            diff = None
            for fld in ('res', 'atoms', 'cards', 'byname', 'gone', 'raised', 'slots'):
                mv = sorted(m[fld]) if fld in ('gone', 'slots') else m[fld]
                if st[fld] != mv:
                    diff = fld
                    break
            if diff is None and st['clauses'] != m['model']:
                diff = 'clauses'
            if diff:
                small = dict(case, ops=case['ops'][:st['nops']])
                ctx.fail(f'C08|model|{diff}', f'after {small["ops"]}: implementation and model differ in `{diff}`',
                         dict(case=small, stream='table', actual={diff: st.get(diff, st['clauses'])}, model={diff: m.get(diff, m['model'])}),
                         kind='correspondence')
                break


def named_slots(pl, slots):
    """[attribute number, uid] -> [attribute name, line number at parse time | 'not an object of this file']"""
    names = {v: k[1] for k, v in pl.texts.items() if k[0] == 'attr'}
    return [[names.get(k, k), 'not an object of the file read last' if u == 10 ** 6 else u] for k, u in slots]


def self_slots(pl, st):
    return named_slots(pl, st['slots'])


def play(ctx, case, tmp):
    pl = Player(ctx, case, tmp)
    pl.msteps, pl.reread_fail, pl.error, pl.twins = [], [], None, False
    ops = list(case['ops'])
    if not ops or ops[0][0] not in ('read_string', 'read_file'):
        ops = [['read_string', 0]] + ops
        case['ops'] = ops
    op = None
    try:
        for n, op in enumerate(ops, 1):
            r = pl.apply(op)
            if r is None:          # not applicable in this state (no atoms left, reload without a file ...)
                continue
            mops, raised, readinfo = r
            pl.opkinds.append(op[0])
            if readinfo and (len(pl.opkinds) > 1 or case.get('check_first_read')):
                check_reread(pl, readinfo[1], n)       # before the observation touches the name cache
            deleting = op[0] in ('del_id', 'delete', 'del_name')
            st = pl.observe(raised, write=deleting or n == len(ops))
            st['nops'] = n
            st['opkind'] = op[0]
            st['twins'] = has_twins(pl)
            pl.twins = pl.twins or st['twins']
            pl.steps.append(st)
            if readinfo and pl.mfile is None:
                pl.mfile = mops[0][1]
                pl.mops = []
            else:
                # a composite call (look-up, then delete) is several model steps; the observation belongs to the last
                for _ in mops[:-1]:
                    pl.msteps.append(None)
                pl.mops += mops
            st['mi'] = len(pl.msteps)
            pl.msteps.append(st)
    except ReadRaised as e:
        pl.reread_fail.append(dict(against='raise', field=str(e), nops=n, expected='no exception', actual=str(e)))
    except Exception as e:      # the history itself must be playable; anything else is reported, never swallowed
        pl.error = f'{type(e).__name__}: {e} at op {op}'
    return pl


def check_reread(pl, k, nops):
    """the long-lived object after this read against a fresh process that read the same text (cached per text); when
    they differ, a fresh object in this process tells object-level from process-level (class attribute) leakage"""
    global _class_base, _tainted
    cs = class_state()
    if _class_base is None:
        _class_base = _fresh_class_state()
    common = set(cs) & set(_class_base)          # modules imported lazily exist on one side only
    fld = first_diff({k2: cs[k2] for k2 in common}, {k2: _class_base[k2] for k2 in common})
    if fld is not None:
        pl.reread_fail.append(dict(against='class-state', field=fld, nops=nops, expected=_class_base.get(fld), actual=cs.get(fld)))
        _class_base = json.loads(json.dumps(cs, default=str))      # report the change once, at the read that made it
        _tainted = True
        return
    if _tainted:       # every later comparison with a pristine process would only repeat that finding
        return
    text = render(pl.files[k])
    mine = {k2: v for k2, v in state_of(pl.shx).items() if k2 != 'resfile'}
    ref = {k2: v for k2, v in _fresh(text).items() if k2 != 'resfile'}
    fld = first_diff(mine, ref)
    if fld is None:
        return
    from shelxfile import Shelxfile
    fresh = Shelxfile()
    fresh.read_string(text)
    here = json.loads(json.dumps(state_of(fresh), default=str))
    against = 'fresh-process' if here.get(fld) == json.loads(json.dumps(mine.get(fld), default=str)) else 'fresh-object'
    pl.reread_fail.append(dict(against=against, field=fld, nops=nops, expected=ref.get(fld), actual=mine.get(fld)))


_class_base = None
_tainted = False


def _fresh_class_state():
    env = dict(os.environ, PYTHONDONTWRITEBYTECODE='1')
    p = subprocess.run([sys.executable, '-m', 'harness.props.c08', '--class-state'], cwd=str(core.VERIF), env=env,
                       stdout=subprocess.PIPE, stderr=subprocess.PIPE, text=True, timeout=120)
    if p.returncode != 0:
        raise RuntimeError('fresh process failed: ' + p.stderr[-1500:])
    return json.loads(p.stdout.splitlines()[-1])


def prefetch(cases):
    """the fresh-process references that the histories will ask for, computed side by side (one process per text)"""
    from concurrent.futures import ThreadPoolExecutor
    want = []
    for case in cases:
        nread = 0
        for op in case['ops']:
            if op[0] in ('read_string', 'read_file'):
                nread += 1
                if nread > 1 or case.get('check_first_read'):
                    text = render(case['files'][op[1] % len(case['files'])])
                    if text not in _fresh_cache and text not in want:
                        want.append(text)
            elif op[0] == 'reload' and nread:
                prev = [o for o in case['ops'][:case['ops'].index(op)] if o[0] in ('read_string', 'read_file')]
                text = render(case['files'][prev[-1][1] % len(case['files'])])
                if text not in _fresh_cache and text not in want:
                    want.append(text)
    if len(want) > 1:
        with ThreadPoolExecutor(max_workers=min(8, os.cpu_count() or 2)) as ex:
            for text, st in zip(want, ex.map(fresh_process_state, want)):
                _fresh_cache[text] = st


def _fresh(text):
    if text not in _fresh_cache:
        _fresh_cache[text] = fresh_process_state(text)
    return _fresh_cache[text]


# ------------------------------------------------------------------------------------------------

def alphabet(files):
    """small alphabet for the bounded-exhaustive part, chosen on file 0 (twins): second twin = atom 2, O1 twins 6/7, C4 twins 8/9"""
    return [['del_id', 2], ['del_id', 0], ['delete', 2], ['delete', 9], ['del_name', 1], ['add_line', 'unit', 'rem'],
            ['add_line', ['atom', 0], ['copy', 1]], ['add_line', 'cycles', 'sadi'], ['rename', 1, 'C9'], ['rename', 2, 'C2'],
            ['element', 3, 'N'], ['to_iso', 4], ['plan', 7], ['cycles', 3], ['read_string', 0], ['read_string', 1], ['read_file', 0], ['read_file', 1], ['reload']]


def random_walk(rng, nfiles, length):
    ops = [[rng.choice(['read_string', 'read_file']), rng.randrange(nfiles)]]
    for _ in range(length):
        r = rng.random()
        i = rng.randrange(12)
        if r < 0.10:
            ops.append([rng.choice(['read_string', 'read_file']), rng.randrange(nfiles)])
        elif r < 0.13:
            ops.append(['reload'])
        elif r < 0.23:
            ops.append(['del_id', i])
        elif r < 0.33:
            ops.append(['delete', i])
        elif r < 0.40:
            ops.append(['del_name', i])
        elif r < 0.58:
            ops.append(['add_line', rng.choice(['unit', 'fvars', 'cycles', ['atom', i], ['atom', rng.randrange(12)]]),
                        rng.choice(['rem', 'sadi', 'blank', ['copy', rng.randrange(12)], ['copy', i]])])
        elif r < 0.72:
            ops.append(['rename', i, rng.choice(['C9', 'C1', 'C2', 'N7', 'X1', 'H3'])])
        elif r < 0.80:
            ops.append(['element', i, rng.choice(['N', 'C', 'O', 'F', 'Se'])])
        elif r < 0.87:
            ops.append(['to_iso', i])
        elif r < 0.94:
            ops.append(['plan', rng.randint(1, 60)])
        else:
            ops.append(['cycles', rng.randint(1, 30)])
    return ops


def run(ctx):
    ctx.rule = ('histories of API calls on one long-lived Shelxfile object: bounded-exhaustive over a 19-letter alphabet (quick: length <= 2, and length 3 over 11 core letters; thorough: length 3, and length 4 over the edit letters) '
                '(deletes by id/handle/name, add_line incl. a copy of an atom line, renames, element, to_isotropic, PLAN/L.S. setters, '
                'read_string/read_file/reload of two files) on a file with text-identical atoms and instructions; read histories '
                'file-with-one-optional-instruction -> file-without (every instruction that puts something into the object, two value '
                'sets, six combinations of entry points), bare/rich/other profiles in every order; plus random walks on random files '
                '(every instruction optional); distinct by (files, ops); non-trivial = at least two applicable calls; the object graph is examined after '
                'every call')
    ctx.assumptions = ['object identity is carried to the model as the line number at parse time',
                       'histories use the op alphabet of the model (no replace_line/add_atom/insert_frag_fend_entry, no change of atom.resi)',
                       'SymmetryElement.ID (process-wide counter, never read by the library) is not part of the compared state']
    f0, f1 = file_twins(), file_other()
    files = [f0, f1]
    alpha = alphabet(files)
    depth = ctx.budget(3, 4)
    cases = []
    edit = [a for a in alpha if a[0] not in ('read_file', 'reload', 'plan', 'cycles', 'to_iso')]
    core3 = [a for a in alpha if a in (['del_id', 2], ['delete', 2], ['delete', 9], ['del_name', 1], ['add_line', ['atom', 0], ['copy', 1]],
                                       ['rename', 1, 'C9'], ['rename', 2, 'C2'], ['element', 3, 'N'], ['read_string', 0], ['read_string', 1],
                                       ['read_file', 1])]
    if depth >= 4:
        # depth 4 over the full alphabet is 105k histories; take all of depth 3 and every depth-4 history over the edit letters
        for seq in itertools.product(alpha, repeat=3):
            cases.append(dict(files=files, ops=[['read_string', 0]] + [list(x) for x in seq]))
        for seq in itertools.product(edit, repeat=4):
            cases.append(dict(files=files, ops=[['read_string', 0]] + [list(x) for x in seq]))
    else:
        # quick: every history of length <= 2 over the full alphabet, every history of length 3 over the core letters
        for d in (1, 2):
            for seq in itertools.product(alpha, repeat=d):
                cases.append(dict(files=files, ops=[['read_string', 0]] + [list(x) for x in seq]))
        for seq in itertools.product(core3, repeat=3):
            cases.append(dict(files=files, ops=[['read_string', 0]] + [list(x) for x in seq]))
    ctx.exhaustive = True
    ctx.extra['enumeration'] = (f'all histories of length 3 over {len(alpha)} letters and all of length 4 over the {len(edit)} edit/read_string letters, '
                                f'after read_string(file 0): {len(cases)}' if depth >= 4 else
                                f'all histories of length <= 2 over {len(alpha)} letters and all of length 3 over {len(core3)} core letters, '
                                f'after read_string(file 0): {len(cases)}')
    # witnesses of the Lean development, replayed on the implementation in every run
    cases.insert(0, dict(files=files, ops=[['read_string', 0], ['delete', 2]]))
    cases.insert(1, dict(files=files, ops=[['read_string', 0], ['rename', 1, 'C9']]))
    cases.insert(2, dict(files=files, ops=[['read_string', 0], ['add_line', 'unit', ['copy', 1]]]))
    rr = reread_cases(ctx)
    ctx.extra['reread_enumeration'] = (f'{len(rr)} read histories: each of the {len(OPT_KEYS)} optional groups (two value sets) followed by a file '
                                       f'without it, 5 profiles in every order, through 6 pairs of entry points; rich file minus one group')
    cases[3:3] = rr
    nwalk = ctx.budget(60, 1500)
    for _ in range(nwalk):
        rf = [random_file(ctx.rng) for _ in range(ctx.rng.randint(1, 3))]
        if ctx.rng.random() < 0.3:
            rf.append(f0)
        cases.append(dict(files=rf, ops=random_walk(ctx.rng, len(rf), ctx.rng.randint(3, ctx.budget(20, 40))), check_first_read=True))
    for i in range(0, len(cases), 400):
        evaluate(ctx, cases[i:i + 400])


if __name__ == '__main__':
    if len(sys.argv) == 2 and sys.argv[1] == '--class-state':
        core.import_repo()
        from shelxfile import Shelxfile as _S
        print(json.dumps(class_state(), default=str))
    if len(sys.argv) == 3 and sys.argv[1] == '--state':
        core.import_repo()
        from shelxfile import Shelxfile as _S
        _s = _S()
        _s.read_string(Path(sys.argv[2]).read_text())
        print(json.dumps(state_of(_s), default=str))

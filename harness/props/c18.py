"""
C18 — the CIF export states the same structure as the model.

A case is a by-construction description of a SHELXL file (space-group setting, header instructions present or
not, atoms with their context). The file is rendered, read by the real code (`Shelxfile.read_string`) and
exported with `Shelxfile.to_cif(path)` into a temporary directory outside every work tree. The CIF text is
read by the harness's OWN minimal reader (`read_cif`: data items and loops) and compared with the description.

Streams (DESIGN 3.2):
  total   to_cif() produces a file for every valid model            (theorem cif_total)
  values  cell, Z, wavelength, temperature, sum formula             (theorems cif_values_eq_model, temp_spec)
          vs spec `specItems` (kind property) and vs model `cifItems` (kind correspondence)
  ops     every string of the _space_group_symop loop, parsed by the reference parser `parse_xyz` (exact
          rationals), as a SET against the library's own operator list `shx.symmcards` (translations snapped
          to the exact k/48 they stand for) and element-wise against the driver's `toCif` / `denoteCif`
          (theorem cif_ops_denote); the SYMM operators as written in the file must be among them
  atoms   atom loop / ADP loop vs the non-Q-peak atoms of the description (theorems cif_atoms_nonq,
          cif_adp_aniso, adp_labels_are_the_uani_rows) and vs the model's loops
Histories (theorem hist_export_reflects_current): besides "read one file, export once" a case can be a history on
ONE Shelxfile object - read (string / file / reload), export, then rounds of {read another file with the same
object | edits through the API: add_atom (iso / six Uij, PART, free-variable sof), atom.element (old or new SFAC
element), atom.sof, set_uvals, to_isotropic, delete, shx.Z, shx.unit.values | nothing | a second object reading and exporting in between}, each followed by an
export. EVERY export goes through all four streams against the description of the state the object is in at that
moment; signatures of failures in later exports end in |after=<reread|edit|export|other-object>.
Only what the property states is observed: R1/wR2/GooF, space-group name, formula weight, volume, the creation
date and the textual form of numbers and operators are not compared.
"""
import copy
import os
import re
import shutil
import tempfile
from fractions import Fraction

from .. import core, gen

F = Fraction

# ------------------------------------------------------------------------------------------------
# space-group settings (LATT, SYMM as SHELXL files carry them); translations 1/2, 1/3, 2/3, 1/4, 3/4, 1/6, 5/6

SETTINGS = [
    ('P1', -1, []),
    ('P-1', 1, []),
    ('P2(1)', -1, ['-X, 1/2+Y, -Z']),
    ('P2(1)/c', 1, ['-X, 1/2+Y, 1/2-Z']),
    ('P2(1)/n', 1, ['1/2-X, 1/2+Y, 1/2-Z']),
    ('C2/c', 7, ['-X, Y, 1/2-Z']),
    ('A2/a', 5, ['1/2-X, Y, -Z']),
    ('B2/b', 6, ['-X, 1/2-Y, Z']),
    ('P2(1)2(1)2(1)', -1, ['1/2-X, -Y, 1/2+Z', '-X, 1/2+Y, 1/2-Z', '1/2+X, 1/2-Y, -Z']),
    ('Pna2(1)', -1, ['-X, -Y, 1/2+Z', '1/2+X, 1/2-Y, Z', '1/2-X, 1/2+Y, 1/2+Z']),
    ('Pbca', 1, ['1/2-X, -Y, 1/2+Z', '-X, 1/2+Y, 1/2-Z', '1/2+X, 1/2-Y, -Z']),
    ('Fdd2', -4, ['-X, -Y, Z', '1/4+X, 1/4-Y, 1/4+Z', '1/4-X, 1/4+Y, 1/4+Z']),
    ('Fddd', 4, ['3/4-X, 3/4-Y, Z', '3/4-X, Y, 3/4-Z', 'X, 3/4-Y, 3/4-Z']),
    ('Ibca', 2, ['1/2-X, -Y, 1/2+Z', '-X, 1/2+Y, 1/2-Z', '1/2+X, 1/2-Y, -Z']),
    ('I4(1)/a', 2, ['-X, 1/2-Y, Z', '3/4-Y, 1/4+X, 1/4+Z', '3/4+Y, 3/4-X, 3/4+Z']),
    ('P4(1)', -1, ['-X, -Y, 1/2+Z', '-Y, X, 1/4+Z', 'Y, -X, 3/4+Z']),
    ('P4(3)2(1)2', -1, ['-X, -Y, 1/2+Z', '1/2-Y, 1/2+X, 3/4+Z', '1/2+Y, 1/2-X, 1/4+Z', '1/2-X, 1/2+Y, 3/4-Z',
                        '1/2+X, 1/2-Y, 1/4-Z', 'Y, X, -Z', '-Y, -X, 1/2-Z']),
    ('P3(1)', -1, ['-Y, X-Y, 1/3+Z', '-X+Y, -X, 2/3+Z']),
    ('P3(2)', -1, ['-Y, X-Y, 2/3+Z', '-X+Y, -X, 1/3+Z']),
    ('P3(1)21', -1, ['-Y, X-Y, 1/3+Z', '-X+Y, -X, 2/3+Z', 'Y, X, -Z', 'X-Y, -Y, 2/3-Z', '-X, -X+Y, 1/3-Z']),
    ('P3(2)12', -1, ['-Y, X-Y, 2/3+Z', '-X+Y, -X, 1/3+Z', '-Y, -X, 1/3-Z', '-X+Y, Y, 2/3-Z', 'X, X-Y, -Z']),
    ('P-31c', 1, ['-Y, X-Y, Z', '-X+Y, -X, Z', '-Y, -X, 1/2-Z', '-X+Y, Y, 1/2-Z', 'X, X-Y, 1/2-Z']),
    ('P6(1)', -1, ['-Y, X-Y, 1/3+Z', '-X+Y, -X, 2/3+Z', '-X, -Y, 1/2+Z', 'Y, -X+Y, 5/6+Z', 'X-Y, X, 1/6+Z']),
    ('P6(5)', -1, ['-Y, X-Y, 2/3+Z', '-X+Y, -X, 1/3+Z', '-X, -Y, 1/2+Z', 'Y, -X+Y, 1/6+Z', 'X-Y, X, 5/6+Z']),
    ('P6(2)', -1, ['-Y, X-Y, 2/3+Z', '-X+Y, -X, 1/3+Z', '-X, -Y, Z', 'Y, -X+Y, 2/3+Z', 'X-Y, X, 1/3+Z']),
    ('P6(1)22', -1, ['-Y, X-Y, 1/3+Z', '-X+Y, -X, 2/3+Z', '-X, -Y, 1/2+Z', 'Y, -X+Y, 5/6+Z', 'X-Y, X, 1/6+Z',
                     'Y, X, 1/3-Z', 'X-Y, -Y, -Z', '-X, -X+Y, 2/3-Z', '-Y, -X, 5/6-Z', '-X+Y, Y, 1/2-Z', 'X, X-Y, 1/6-Z']),
    ('P6(3)/m', 1, ['-Y, X-Y, Z', '-X+Y, -X, Z', '-X, -Y, 1/2+Z', 'Y, -X+Y, 1/2+Z', 'X-Y, X, 1/2+Z']),
    ('R3', -3, ['-Y, X-Y, Z', '-X+Y, -X, Z']),
    ('R-3', 3, ['-Y, X-Y, Z', '-X+Y, -X, Z']),
    ('R-3c', 3, ['-Y, X-Y, Z', '-X+Y, -X, Z', 'Y, X, 1/2-Z', 'X-Y, -Y, 1/2-Z', '-X, -X+Y, 1/2-Z']),
    ('P2(1)3', -1, ['1/2-X, -Y, 1/2+Z', '-X, 1/2+Y, 1/2-Z', '1/2+X, 1/2-Y, -Z', 'Z, X, Y', '1/2+Z, 1/2-X, -Y',
                    '1/2-Z, -X, 1/2+Y', '-Z, 1/2+X, 1/2-Y', 'Y, Z, X', '-Y, 1/2+Z, 1/2-X', '1/2+Y, 1/2-Z, -X',
                    '1/2-Y, -Z, 1/2+X']),
    ('P4(1)32', -1, ['1/2-X, -Y, 1/2+Z', '-X, 1/2+Y, 1/2-Z', '1/2+X, 1/2-Y, -Z', 'Z, X, Y', '3/4+Y, 1/4+X, 1/4-Z',
                     '3/4-Y, 3/4-X, 3/4-Z', '1/4+Y, 1/4-X, 3/4+Z', '1/4-Y, 3/4+X, 1/4+Z']),
    ('I-43d', -2, ['-X, 1/2-Y, Z', '1/2-X, Y, -Z', 'X, -Y, 1/2-Z', 'Z, X, Y', '1/4+Y, 1/4+X, 1/4+Z', '1/4-Y, 3/4+X, 3/4-Z',
                   '3/4+Y, 1/4-X, 3/4-Z', '3/4-Y, 3/4-X, 1/4+Z']),
    ('Fd-3m', 4, ['3/4-X, 1/4-Y, 1/2+Z', '1/4-X, 1/2+Y, 3/4-Z', '1/2+X, 3/4-Y, 1/4-Z', 'Z, X, Y', '3/4+Y, 1/4+X, 1/2-Z',
                  '1/4+Z, 1/2+Y, 3/4-X']),
]

# U22 U33 U23 U13 U12 whose float sum is exactly 0.0
CANCELLING = [(0.01, 0.01, -0.01, -0.005, -0.005), (0.01, 0.01, -0.01, -0.02, 0.01), (0.03, 0.05, -0.04, -0.02, -0.02),
              (0.025, 0.025, -0.0125, -0.0125, -0.025)]

TRANSLATIONS = [F(0), F(1, 2), F(1, 3), F(2, 3), F(1, 4), F(3, 4), F(1, 6), F(5, 6)]
ROWS = [(1, 0, 0), (-1, 0, 0), (0, 1, 0), (0, -1, 0), (0, 0, 1), (0, 0, -1), (1, -1, 0), (-1, 1, 0)]


def row_text(rng, row, t):
    """one component as SHELXL files spell it: translation before or after, fraction (or decimal when dyadic)"""
    terms = ''
    for c, ax in zip(row, 'XYZ'):
        if c:
            terms += ('-' if c < 0 else ('+' if terms else '')) + ax
    if t == 0:
        return terms
    if t.denominator in (2, 4) and rng.random() < 0.3:
        ts = str(float(t))
    else:
        ts = f'{t.numerator}/{t.denominator}'
    if rng.random() < 0.7:
        return ts + (terms if terms.startswith('-') else '+' + terms)
    return terms + '+' + ts


def random_symm(rng):
    comps = []
    for _ in range(3):
        comps.append(row_text(rng, rng.choice(ROWS), rng.choice(TRANSLATIONS)))
    s = ', '.join(comps)
    return s.lower() if rng.random() < 0.2 else s


# ------------------------------------------------------------------------------------------------
# reference reader of symmetry-operator strings (exact rationals); independent of library and driver

def parse_xyz(s: str):
    """'-x+1/2, y, z+1/3' -> ((cx, cy, cz, t), ...) or None"""
    parts = s.split(',')
    if len(parts) != 3:
        return None
    out = []
    for p in parts:
        p = p.replace(' ', '').lower()
        if not p:
            return None
        terms = re.findall(r'([+-]?)([^+-]+)', p)
        if ''.join(a + b for a, b in terms) != p:
            return None
        c = [0, 0, 0]
        t = F(0)
        for i, (sg, body) in enumerate(terms):
            if not sg and i > 0:
                return None
            sign = -1 if sg == '-' else 1
            if body in ('x', 'y', 'z'):
                c['xyz'.index(body)] += sign
            elif re.fullmatch(r'\d+/\d+', body):
                n, d = body.split('/')
                if int(d) == 0:
                    return None
                t += sign * F(int(n), int(d))
            elif re.fullmatch(r'\d+|\d*\.\d+|\d+\.', body):
                t += sign * F(body)
            else:
                return None
        out.append((c[0], c[1], c[2], t))
    return tuple(out)


def snap(t):
    """the exact fraction a double translation stands for (k/48), or None if it is not within 1e-9 of one"""
    fr = F(t).limit_denominator(48)
    return fr if abs(float(fr) - float(t)) < 1e-9 else None


# ------------------------------------------------------------------------------------------------
# the harness's own minimal CIF reader: data items and loops

_TOK = re.compile(r"'([^']*)'(?=\s|$)|\"([^\"]*)\"(?=\s|$)|(\S+)")


def _tokens(line):
    return [m.group(1) if m.group(1) is not None else (m.group(2) if m.group(2) is not None else m.group(3))
            for m in _TOK.finditer(line)]


def read_cif(text):
    """-> dict(name=..., items={tag: token}, loops=[(tags, rows)]) ; raises ValueError on a malformed file"""
    name = None
    items = {}
    loops = []
    lines = text.splitlines()
    i = 0
    while i < len(lines):
        s = lines[i].strip()
        if not s or s.startswith('#'):
            i += 1
        elif s.lower().startswith('data_'):
            name = s[5:]
            i += 1
        elif s.lower() == 'loop_':
            i += 1
            tags = []
            while i < len(lines) and lines[i].strip().startswith('_'):
                tags.append(lines[i].strip())
                i += 1
            rows = []
            while i < len(lines):
                r = lines[i].strip()
                if not r or r.startswith('_') or r.lower() == 'loop_' or r.lower().startswith('data_'):
                    break
                toks = _tokens(r)
                if len(toks) != len(tags):
                    raise ValueError(f'loop {tags[0] if tags else "?"}: row with {len(toks)} values for {len(tags)} names: {r!r}')
                rows.append(toks)
                i += 1
            if not tags:
                raise ValueError('loop_ without data names')
            loops.append((tags, rows))
        elif s.startswith('_'):
            toks = _tokens(s)
            if len(toks) != 2:
                raise ValueError(f'data item with {len(toks) - 1} values: {s!r}')
            items[toks[0]] = toks[1]
            i += 1
        else:
            raise ValueError(f'stray text: {s!r}')
    return dict(name=name, items=items, loops=loops)


def cif_number(tok):
    """CIF numeric token -> Fraction, '?'/'.' -> None; raises ValueError otherwise"""
    if tok in ('?', '.'):
        return None
    m = re.fullmatch(r'([-+]?(?:\d+\.?\d*|\.\d+)(?:[eE][-+]?\d+)?)(?:\(\d+\))?', tok)
    if not m:
        raise ValueError(f'not a number: {tok!r}')
    return F(m.group(1))


def find_loop(cif, first_tag):
    for tags, rows in cif['loops']:
        if first_tag in tags:
            return tags, rows
    return None


# ------------------------------------------------------------------------------------------------
# case generation (by construction)

def occ_by_rule(code, fvars):
    """SHELXL free-variable rule on the occupation code 10m+p (exact)"""
    c = F(str(code))
    m = (c + 5) / 10
    m = m.numerator // m.denominator
    p = c - 10 * m
    if m in (0, 1):
        return p
    if abs(m) > len(fvars):
        return None
    v = F(str(fvars[abs(m) - 1]))
    return p * v if m > 1 else p * (v - 1)


def fixed(v):
    """a parameter written as 10+p is fixed at p"""
    return v - 10 if v > 4 else v


def make_case(rng, setting=None, flags=None):
    if setting is None:
        setting = rng.choice(SETTINGS)
    name, latt, symm = setting
    symm = list(symm)
    if rng.random() < 0.35:
        # operators outside the tabulated settings: any row, any translation of the quantifier, any LATT
        latt = rng.choice([1, 2, 3, 4, 5, 6, 7]) * rng.choice([1, -1])
        symm = [random_symm(rng) for _ in range(rng.randint(1, 4))]
        name = 'random'
    elif rng.random() < 0.3:
        symm = [s.lower() if rng.random() < 0.5 else s.replace('1/2', '0.5').replace('1/4', '0.25').replace('3/4', '0.75') for s in symm]
    present = dict(zerr=True, temp=True, size=True, acta=True, wght=True, rems=True, titl=True)
    if flags is not None:
        present.update(flags)
    else:
        for k in present:
            if rng.random() < 0.3:
                present[k] = False
    nel = rng.randint(1, 5)
    sfac = rng.sample(gen.ELEMENTS, nel)
    z = rng.choice([1, 2, 3, 4, 6, 8, 12, 16, 18])
    unit = [rng.choice([1, 2, 3, 4, 6, 8, 12, 16, 24, 36, 48, 96, 10, 7, 0.5, 2.5]) * rng.choice([1, 1, z]) for _ in sfac]
    fvars = [round(rng.uniform(0.05, 1.5), 5)] + [round(rng.uniform(0.05, 0.95), 5) for _ in range(rng.randint(0, 4))]
    cell = gen.rand_cell(rng)
    atoms = []
    used = set()
    used_labels = set()
    resi_form = rng.choice(['num class', 'class num', 'num'])
    for i in range(rng.randint(0 if rng.random() < 0.05 else 1, 10)):
        s = rng.randrange(nel) + 1
        xyz = [round(rng.uniform(-0.5, 1.5), rng.choice([4, 5, 6])) for _ in range(3)]
        # (coordinates fixed as 10+p are not generated: such lines are not accepted as atoms by the reader at all,
        #  `_coordinates_are_unrealistic`, which is C02/C03's subject, not the CIF writer's)
        r = rng.random()
        if r < 0.4:
            code = 11.0
        elif r < 0.55:
            code = 10 + rng.choice([0.5, 0.25, 0.33333, 0.16667, 0.125])
        elif r < 0.65:
            code = rng.choice([1.0, 0.5, 0.75])
        else:
            m = rng.randint(2, len(fvars)) if len(fvars) > 1 else 1
            code = 10 * m * rng.choice([1, -1]) + rng.choice([1.0, 0.5, 0.25, 1.0]) * rng.choice([1, 1, -1])
            if m == 1:
                code = 11.0
        r = rng.random()
        if r < 0.04:
            # U22 .. U12 that add up to exactly 0.0 in doubles: still an anisotropic atom
            u = [round(rng.uniform(0.02, 0.09), 5)] + list(rng.choice(CANCELLING))
        elif r < 0.45:
            u = [round(rng.uniform(0.01, 0.09), 5)] + [round(rng.uniform(0.01, 0.09), 5) for _ in range(2)] + \
                [round(rng.uniform(-0.02, 0.02), 5) or 0.00123 for _ in range(3)]
        elif r < 0.6:
            u = [rng.choice([-1.2, -1.5])]
        else:
            u = [round(rng.uniform(0.01, 0.09), 5)]
        part = rng.choice([0, 0, 0, 1, 2, -1, 3])
        part_sof = None
        if part and rng.random() < 0.4 and len(fvars) > 1:
            m = rng.randint(2, len(fvars))
            part_sof = float(10 * m * rng.choice([1, -1]) + 1)
        resi = rng.choice([0, 0, 0, 0, 1, 2, 17, -1, -3, -999, 9999, 104])
        name = None
        if atoms and rng.random() < 0.3:
            # the same atom name again in another residue: only the residue suffix tells the labels apart
            other = rng.choice(atoms)
            if (other['name'], resi) not in used_labels:
                name, s = other['name'], other['sfac']
        if name is None:
            name = gen.atom_name(rng, sfac[s - 1], used)
        used_labels.add((name, resi))
        atoms.append(dict(name=name, sfac=s, xyz=xyz, code=code, u=u, part=part,
                          part_sof=part_sof, resi=resi, afix=(len(u) == 1 and u[0] < 0 and rng.random() < 0.5)))
    nq = rng.choice([0, 0, 1, 2, 4])
    qpeaks = [dict(name=f'Q{k + 1}', xyz=[round(rng.uniform(0, 1), 4) for _ in range(3)], height=round(rng.uniform(0.1, 2.5), 2))
              for k in range(nq)]
    return dict(setting=name, latt=latt, symm=symm, present=present, cell=list(cell), z=z, sfac=sfac, unit=unit, fvars=fvars,
                temp=rng.choice([-173.15, -100.0, 20.0, -173.18, 22.5, -123.456, 0.0]), size=[round(rng.uniform(0.02, 0.6), 3) for _ in range(3)],
                r1=round(rng.uniform(0.02, 0.12), 4), wr2=round(rng.uniform(0.05, 0.3), 4), goof=round(rng.uniform(0.8, 1.3), 3),
                titl=rng.choice(['verif', 'Mo_k7 test', 'p21c in P2(1)/c', 'x']), atoms=atoms, qpeaks=qpeaks, resi_form=resi_form)


def random_edit(rng, state):
    """one API edit that is valid for the described state"""
    kinds = ['Z', 'unit', 'add', 'add']
    if state['atoms']:
        kinds += ['element', 'element', 'sof', 'uvals', 'to_iso', 'delete']
    kind = rng.choice(kinds)
    if kind == 'Z':
        return dict(op='edit', kind='Z', z=rng.choice([z for z in [1, 2, 3, 4, 6, 8, 12] if z != z_now(state)]))
    if kind == 'add':
        el = rng.choice(state['sfac'])
        names = {a['name'] for a in state['atoms']} | {q['name'] for q in state['qpeaks']}
        name = next(n for n in (f'{el.upper()}{k}'[:4] for k in rng.sample(range(100, 999), 50)) if n not in names)
        if rng.random() < 0.6:
            u = [round(rng.uniform(0.01, 0.09), 5) for _ in range(3)] + [round(rng.uniform(-0.02, 0.02), 5) or 0.00123 for _ in range(3)]
        else:
            u = [round(rng.uniform(0.01, 0.09), 5)]
        nfv = len(state['fvars'])
        code = rng.choice([11.0, 10.5] + ([10.0 * m * sg + 1 for m in range(2, nfv + 1) for sg in (1, -1)] if nfv > 1 else []))
        return dict(op='edit', kind='add', name=name, el=el, xyz=[round(rng.uniform(-0.5, 1.5), 5) for _ in range(3)], u=u,
                    part=rng.choice([0, 0, 1, 2, -1]), code=float(code))
    if kind == 'unit':
        return dict(op='edit', kind='unit', j=rng.randrange(len(state['unit'])), v=float(rng.choice([3, 5, 9, 14, 20, 28, 1100])))
    i = rng.randrange(len(state['atoms']))
    if kind == 'delete' and state['atoms'][i].get('added'):
        # (deleting an atom that add_atom() created raises 'object is not in the file': an API matter of C04/C08, not of the export)
        kind = 'to_iso'
    if kind == 'element':
        up = [e.upper() for e in state['sfac']]
        if rng.random() < 0.5 and len(up) > 1:
            el = rng.choice([e for k, e in enumerate(state['sfac']) if k + 1 != state['atoms'][i]['sfac']])
        else:
            el = rng.choice([e for e in gen.ELEMENTS if e.upper() not in up])
        return dict(op='edit', kind='element', i=i, el=el)
    if kind == 'sof':
        nfv = len(state['fvars'])
        code = rng.choice([11.0, 10.5, 10.25] + ([10.0 * m * sg + 1 for m in range(2, nfv + 1) for sg in (1, -1)] if nfv > 1 else []))
        return dict(op='edit', kind='sof', i=i, code=float(code))
    if kind == 'uvals':
        if rng.random() < 0.6:
            u = [round(rng.uniform(0.01, 0.09), 5) for _ in range(3)] + [round(rng.uniform(-0.02, 0.02), 5) or 0.00123 for _ in range(3)]
        else:
            u = [round(rng.uniform(0.01, 0.09), 5)]
        return dict(op='edit', kind='uvals', i=i, u=u)
    return dict(op='edit', kind=kind, i=i)


def make_history(rng, rounds=None, flags=None):
    """a history on one Shelxfile object (sometimes with a second object in between): read, export, then rounds of
    {read another file with the same object | edits through the API | nothing | activity of another object}, each
    followed by an export; every export is compared with the description of the state the object is in then"""
    first = make_case(rng, flags=flags)
    steps = [dict(op='read', case=first, via=rng.choice(['string', 'file']))]
    if not (rounds and rounds[0] == 'noexport') and not (rounds is None and rng.random() < 0.3):
        steps.append(dict(op='export'))       # otherwise the first export comes after the first round
    rounds = [r for r in rounds if r != 'noexport'] if rounds else rounds
    state = copy.deepcopy(first)
    if rounds is None:
        rounds = [rng.choices(['reread', 'edit', 'again', 'other'], [4, 4, 1, 2])[0] for _ in range(rng.randint(1, 3))]
    for r in rounds:
        if r == 'reread':
            nxt = make_case(rng, flags=flags)
            steps.append(dict(op='read', case=nxt, via=rng.choice(['string', 'file', 'reload'])))
            state = copy.deepcopy(nxt)
        elif r == 'edit' or r.startswith('edit:'):
            for _ in range(1 if ':' in r else rng.randint(1, 3)):
                ed = random_edit(rng, state)
                if ':' in r:
                    for _try in range(50):
                        if ed['kind'] == r.split(':')[1]:
                            break
                        ed = random_edit(rng, state)
                steps.append(ed)
                state = edit_state(state, ed)
        elif r == 'other':
            steps.append(dict(op='read', case=make_case(rng, flags=flags), via='string', obj=1))
            if rng.random() < 0.7:
                steps.append(dict(op='export', obj=1))
        steps.append(dict(op='export'))
    return dict(history=steps)


def atom_lines(a, force_sof=None):
    sof = 11.0 if a.get('part_sof') is not None else a['code']
    head = f'{a["name"]:<5}{a["sfac"]:>2} {a["xyz"][0]:>11.6f} {a["xyz"][1]:>11.6f} {a["xyz"][2]:>11.6f} {sof:>11.5f}'
    u = a['u']
    if len(u) == 1:
        return [f'{head} {u[0]:>10.5f}']
    return [f'{head} {u[0]:>10.5f} {u[1]:>10.5f} =', '    ' + ' '.join(f'{v:>10.5f}' for v in u[2:])]


def render(case):
    p = case['present']
    L = ['TITL ' + case['titl'] if p['titl'] else 'TITL']
    L.append('CELL ' + ' '.join(str(v) for v in case['cell']))
    if p['zerr']:
        L.append(f'ZERR {case["z"]} 0.001 0.002 0.003 0.01 0.02 0.03')
    L.append(f'LATT {case["latt"]}')
    L += ['SYMM ' + s for s in case['symm']]
    L.append('SFAC ' + ' '.join(case['sfac']))
    L.append('UNIT ' + ' '.join(f'{v:g}' for v in case['unit']))
    L.append('L.S. 10')
    if p['temp']:
        L.append(f'TEMP {case["temp"]}')
    if p['acta']:
        L.append('ACTA')
    if p['size']:
        L.append('SIZE ' + ' '.join(str(v) for v in case['size']))
    L += ['BOND $H', 'FMAP 2', 'PLAN 20']
    if p['wght']:
        L.append('WGHT 0.0491 0.1234')
    fv = [f'{v:.5f}' for v in case['fvars']]
    L.append('FVAR ' + ' '.join(fv))
    cur_resi = 0
    cur_part = 0
    for a in case['atoms']:
        if a.get('added'):
            continue
        if a['resi'] != cur_resi:
            form = case.get('resi_form', 'num class')
            cls = 'RES' if a['resi'] % 2 else 'B4X'
            L.append('RESI 0' if not a['resi'] else f'RESI {a["resi"]} {cls}' if form == 'num class' else
                     f'RESI {cls} {a["resi"]}' if form == 'class num' else f'RESI {a["resi"]}')
            cur_resi = a['resi']
        if a['part'] != cur_part or a.get('part_sof') is not None:
            L.append(f'PART {a["part"]}' + (f' {a["part_sof"]:.5f}' if a.get('part_sof') is not None else ''))
            cur_part = a['part']
        if a.get('afix'):
            L.append('AFIX 43')
        L += atom_lines(a)
        if a.get('afix'):
            L.append('AFIX 0')
        if a.get('part_sof') is not None:
            L.append('PART 0')
            cur_part = 0
    if cur_part:
        L.append('PART 0')
    if cur_resi:
        L.append('RESI 0')
    L.append('HKLF 4')
    if p['rems']:
        L += ['', f'REM {case["titl"].split()[0] if case["titl"].split() else "x"} in {case["setting"]}',
              f'REM wR2 = {case["wr2"]:.4f}, GooF = S = {case["goof"]:.3f}, Restrained GooF = {case["goof"]:.3f} for all data',
              f'REM R1 = {case["r1"]:.4f} for 7085 Fo > 4sig(Fo) and 0.0794 for all 10786 data',
              'REM 945 parameters refined using 1842 restraints', '']
    L.append('END')
    if case['qpeaks']:
        L += ['', 'WGHT      0.0491      0.0000', '', 'REM Highest difference peak  0.407,  deepest hole -0.691,  1-sigma level  0.073']
        for q in case['qpeaks']:
            L.append(f'{q["name"]:<5} 1 {q["xyz"][0]:>9.4f} {q["xyz"][1]:>9.4f} {q["xyz"][2]:>9.4f}   11.00000  0.05 {q["height"]:>9.2f}')
    return '\n'.join(L) + '\n'


def expected_atoms(case):
    out = []
    for a in case['atoms']:
        code = a['part_sof'] if a.get('part_sof') is not None else a['code']
        u = a['u']
        out.append(dict(label=a['name'] + (f'_{a["resi"]}' if a['resi'] else ''), el=case['sfac'][a['sfac'] - 1],
                        xyz=[fixed(v) for v in a['xyz']], occ=occ_by_rule(code, case['fvars']), part=a['part'],
                        u=(list(u) if len(u) == 6 else None)))
    return out


# ------------------------------------------------------------------------------------------------
# the implementation side

_TMP = None


def tmpdir():
    global _TMP
    if _TMP is None or not os.path.isdir(_TMP):
        _TMP = tempfile.mkdtemp(prefix='verif_c18_')
    return _TMP


def observe(shx, k=0):
    """what the property talks about, for the CURRENT state of the object: its operator list and the CIF it writes"""
    obs = dict()
    try:
        obs['names'] = [a.name for a in shx.atoms]
        ops = []
        for s in shx.symmcards:
            rows = [[int(s.matrix[i, j]) for j in range(3)] for i in range(3)]
            ops.append((rows, [s.trans[i] for i in range(3)]))
        obs['symmcards'] = ops
    except Exception as e:
        return dict(error=f'model not readable: {type(e).__name__}: {e}')
    path = os.path.join(tmpdir(), f'out{k}.cif')
    if os.path.exists(path):
        os.unlink(path)
    try:
        shx.to_cif(path)
    except Exception as e:
        obs['raise'] = type(e).__name__
        obs['raise_msg'] = str(e)[:200]
        return obs
    try:
        with open(path) as f:
            obs['text'] = f.read()
    except OSError as e:
        obs['raise'] = 'NoFile'
        obs['raise_msg'] = str(e)
    return obs


def atom_label(a):
    return a['name'] + (f'_{a["resi"]}' if a['resi'] else '')


def edit_state(state, ed, shx=None):
    """the description after an API edit (by construction; only the UNIT number the library invents for a new
    SFAC element is read from the object, what that number is belongs to C04)"""
    st = copy.deepcopy(state)
    kind = ed['kind']
    if kind == 'element':
        up = [e.upper() for e in st['sfac']]
        if ed['el'].upper() in up:
            st['atoms'][ed['i']]['sfac'] = up.index(ed['el'].upper()) + 1
        else:
            st['sfac'].append(ed['el'])
            st['unit'].append(float(shx.unit.values[-1]) if shx is not None else 1.0)
            st['atoms'][ed['i']]['sfac'] = len(st['sfac'])
    elif kind == 'sof':
        st['atoms'][ed['i']]['code'] = ed['code']
        st['atoms'][ed['i']]['part_sof'] = None
    elif kind == 'uvals':
        st['atoms'][ed['i']]['u'] = list(ed['u'])
    elif kind == 'to_iso':
        st['atoms'][ed['i']]['u'] = [0.04]
    elif kind == 'delete':
        del st['atoms'][ed['i']]
    elif kind == 'add':
        st['atoms'].append(dict(name=ed['name'], sfac=[e.upper() for e in st['sfac']].index(ed['el'].upper()) + 1, xyz=list(ed['xyz']),
                                code=ed['code'], u=list(ed['u']), part=ed['part'], part_sof=None, resi=0, afix=False, added=True))
    elif kind == 'Z':
        st['z_now'] = ed['z']
    elif kind == 'unit':
        st['unit'][ed['j']] = ed['v']
    else:
        raise ValueError(kind)
    return st


def edit_impl(shx, state, ed):
    """the same edit through the library's API"""
    kind = ed['kind']
    if kind in ('element', 'sof', 'uvals', 'to_iso', 'delete'):
        atom = shx.atoms.get_atom_by_name(atom_label(state['atoms'][ed['i']]))
        if atom is None:
            raise LookupError(f'atom {atom_label(state["atoms"][ed["i"]])} not found')
        if kind == 'element':
            atom.element = ed['el']
        elif kind == 'sof':
            atom.sof = ed['code']
        elif kind == 'uvals':
            u = list(ed['u'])
            atom.set_uvals(u if len(u) == 6 else [u[0], 0.0, 0.0, 0.0, 0.0, 0.0])
        elif kind == 'to_iso':
            atom.to_isotropic()
        else:
            atom.delete()
    elif kind == 'add':
        # the second entry point for atoms: Shelxfile.add_atom()
        u = list(ed['u'])
        shx.add_atom(name=ed['name'], coordinates=list(ed['xyz']), element=ed['el'],
                     uvals=(u if len(u) == 6 else [u[0], 0.0, 0.0, 0.0, 0.0, 0.0]), part=ed['part'], sof=ed['code'])
    elif kind == 'Z':
        shx.Z = ed['z']
    elif kind == 'unit':
        shx.unit.values[ed['j']] = ed['v']
    else:
        raise ValueError(kind)


def steps_of(top):
    if 'history' in top:
        return top['history']
    return [dict(op='read', case=top, via='string'), dict(op='export')]


def run_history(top):
    """-> frames, one per export: dict(top=<replayable prefix>, case=<description of the CURRENT state>, obs, after)"""
    from shelxfile import Shelxfile
    steps = steps_of(top)
    objs, states, paths, since, exported = {}, {}, {}, {}, {}
    frames = []
    for k, st in enumerate(steps):
        o = st.get('obj', 0)
        prefix = top if 'history' not in top else dict(history=steps[:k + 1])
        try:
            if st['op'] == 'read':
                shx = objs.setdefault(o, Shelxfile())
                text = render(st['case'])
                via = st.get('via', 'string')
                if via == 'reload' and o not in paths:
                    via = 'file'
                if via == 'string':
                    shx.read_string(text)
                    paths.pop(o, None)
                else:
                    path = paths.get(o) if via == 'reload' else os.path.join(tmpdir(), f'obj{o}_{k}.res')
                    with open(path, 'w') as f:
                        f.write(text)
                    if via == 'reload':
                        shx.reload()
                    else:
                        shx.read_file(path)
                    paths[o] = path
                if o not in since and exported:
                    since[o] = ['other-object']      # another object of the process has exported before this one is first used
                since.setdefault(o, []).append('reread' if o in states else 'read')
                states[o] = copy.deepcopy(st['case'])
                for other in since:
                    if other != o:
                        since[other].append('other-object')
            elif st['op'] == 'edit':
                edit_impl(objs[o], states[o], st)
                states[o] = edit_state(states[o], st, objs[o])
                since[o].append('edit:' + st['kind'])
            elif st['op'] == 'export':
                ev = [e for e in since.get(o, []) if e != 'read']
                after = '+'.join(sorted(set(ev))) if ev else ('export' if o in exported else '')
                frames.append(dict(top=prefix, case=copy.deepcopy(states[o]), obs=observe(objs[o], k), after=after, pos=k))
                exported[o] = True
                since[o] = []
                for other in since:
                    if other != o:
                        since[other].append('other-object')
            else:
                raise ValueError(st['op'])
        except Exception as e:
            frames.append(dict(top=prefix, case=copy.deepcopy(states.get(o) or st.get('case')), after='', pos=k,
                               obs=dict(error=f'step {k} ({st["op"]} {st.get("kind", st.get("via", ""))}) raised {type(e).__name__}: {e}',
                                        errsig=('C18|parse' if st['op'] == 'read' else f'C18|history|{st["op"]}-{st.get("kind", "")}-raised|{type(e).__name__}'))))
            break
    return frames


def observe_impl(case):
    return run_history(case)[-1]['obs']


def cleanup():
    global _TMP
    if _TMP and os.path.isdir(_TMP):
        shutil.rmtree(_TMP, ignore_errors=True)
    _TMP = None


# ------------------------------------------------------------------------------------------------

def shrink_absent(case, exc):
    """restore the optional instructions one by one while to_cif() keeps raising the same exception"""
    cur = case
    for k in absent(case):
        trial = dict(cur, present=dict(cur['present'], **{k: True}))
        if observe_impl(trial).get('raise') == exc:
            cur = trial
    return cur


def z_now(case):
    """Z of the current state: set through the API, else from ZERR, else none"""
    if 'z_now' in case:
        return case['z_now']
    return case['z'] if case['present']['zerr'] else None


def absent(case):
    return [k for k, v in sorted(case['present'].items()) if not v]


def frac_pair(t):
    fr = F(t)
    return [str(fr.numerator), str(fr.denominator)]


def num_eq(tok, want, tol=1e-9, rel=1e-9):
    try:
        v = cif_number(tok)
    except ValueError:
        return False
    if v is None or want is None:
        return v is None and want is None
    return core.close(v, want, tol, rel)


def parse_formula(s):
    out = {}
    for tok in s.split():
        m = re.fullmatch(r'([A-Za-z]+)([-+0-9.eE]+)', tok)
        if not m:
            return None
        try:
            out[m.group(1).upper()] = out.get(m.group(1).upper(), 0) + F(m.group(2))
        except ValueError:
            return None
    return out


def op_key(op):
    return tuple((r[0], r[1], r[2], r[3]) for r in op)


def dec_op(j):
    """driver Op -> tuple of (cx, cy, cz, t)"""
    if j is None:
        return None
    return tuple((c['c'][0], c['c'][1], c['c'][2], c['t']) for c in j)


def evaluate(ctx, cases, stream=None):
    n0 = len(ctx.failures)
    try:
        try:
            _evaluate(ctx, cases)
        finally:
            # also when core stops the exploration (EnoughFailures): what is reported must reproduce
            isolate(ctx, cases, n0)
    finally:
        cleanup()


def signatures_in_fresh_process(case):
    """evaluate one case in a fresh interpreter (no earlier export in the process) -> set of failure signatures, or None"""
    import json
    import subprocess
    import sys
    p = subprocess.run([sys.executable, '-m', 'harness.props.c18'], input=json.dumps(case), cwd=str(core.VERIF), text=True,
                       stdout=subprocess.PIPE, stderr=subprocess.PIPE, env=dict(os.environ, PYTHONDONTWRITEBYTECODE='1'))
    for line in p.stdout.splitlines():
        if line.startswith('SIGNATURES '):
            return set(json.loads(line[len('SIGNATURES '):]))
    return None


def isolate(ctx, cases, n0):
    """A reported input must reproduce from its replay, i.e. in a fresh process. The first failure of every
    signature is re-evaluated in a fresh interpreter. If it does not fail there, it depends on what the process
    exported before (state kept in a class or module): the payload becomes 'another object reads and exports an
    earlier case, then this input' (found by trying the plain cases evaluated before it), and the signature gets
    the suffix of that history class."""
    verdict = ctx.extra.setdefault('isolation_verdicts', {})       # signature -> suffix for later failures of the same signature
    plain = [c for c in cases if 'history' not in c]
    for f in ctx.failures[n0:]:
        sig = f['signature']
        case = f['payload'].get('case')
        if not isinstance(case, dict) or sig in ctx.known:
            continue
        if sig not in verdict:
            sigs = signatures_in_fresh_process(case)
            if sigs is None or sig in sigs:
                verdict[sig] = ''
            else:
                verdict[sig] = '|only-after-earlier-exports-in-the-process'
                steps = steps_of(case)
                for pred in reversed(plain[-8:]):
                    hist = dict(history=[dict(op='read', case=pred, via='string', obj=1), dict(op='export', obj=1)] + list(steps))
                    hs = signatures_in_fresh_process(hist) or set()
                    hit = [h for h in hs if h.split('|after=')[0] == sig.split('|after=')[0] and 'other-object' in h]
                    if hit:
                        verdict[sig] = '|after=other-object'
                        f['payload'] = dict(f['payload'], case=hist)
                        f['what'] += ' [not in a fresh process: only after another object of the process exported an earlier model]'
                        f['signature'] = hit[0]
                        break
                else:
                    f['what'] += ' [does not reproduce in a fresh process: depends on earlier exports of this run]'
                    f['signature'] = sig + verdict[sig]
                continue
        if verdict[sig]:
            # a later failure of a signature that is known to need earlier exports: same class, the first one carries the replay
            f['signature'] = (sig.split('|after=')[0] + '|after=other-object') if verdict[sig] == '|after=other-object' else sig + verdict[sig]
            if verdict[sig] == '|after=other-object':
                f['signature'] = next((g['signature'] for g in ctx.failures if g is not f and g['signature'].startswith(sig.split('|after=')[0])
                                       and 'other-object' in g['signature'] and 'history' in (g['payload'].get('case') or {})), f['signature'])


def _evaluate(ctx, cases):
    for s in ('total', 'values', 'ops', 'atoms'):
        ctx.stream(s)
    # --- implementation --------------------------------------------------------------------------
    frames = []
    for c in cases:
        frames += run_history(c)
    cases = [fr['case'] for fr in frames]
    obs_all = [fr['obs'] for fr in frames]
    reqs = []
    where = []
    parsed = []
    for ci, (case, obs) in enumerate(zip(cases, obs_all)):
        cif = None
        if case is None:
            parsed.append(None)
            continue
        if 'text' in obs:
            try:
                cif = read_cif(obs['text'])
            except ValueError as e:
                obs['malformed'] = str(e)
        parsed.append(cif)
        p = case['present']
        exp_atoms = expected_atoms(case)
        reqs.append(dict(p='C18', op='values', titl=(case['titl'].split() if p['titl'] else []),
                         sum_formula='', cell=case['cell'], zerr=z_now(case),
                         temp=(case['temp'] if p['temp'] else None), size=(case['size'] if p['size'] else None),
                         r1=(case['r1'] if p['rems'] else None), wr2=(case['wr2'] if p['rems'] else None),
                         goof=(case['goof'] if p['rems'] else None)))
        where.append((ci, 'values', None))
        atoms = [dict(name=a['name'], resi=a['resi'], el=case['sfac'][a['sfac'] - 1].capitalize(), xyz=e['xyz'],
                      u=(list(a['u']) if len(a['u']) == 6 else [a['u'][0], 0, 0, 0, 0, 0]),
                      occ=(float(e['occ']) if e['occ'] is not None else 1.0), part=a['part'], q=False)
                 for a, e in zip(case['atoms'], exp_atoms)]
        atoms += [dict(name=q['name'], resi=0, el=case['sfac'][0].capitalize(), xyz=q['xyz'], u=[0.05, q['height'], 0, 0, 0, 0],
                       occ=1.0, part=0, q=True) for q in case['qpeaks']]
        reqs.append(dict(p='C18', op='loops', atoms=atoms))
        where.append((ci, 'loops', None))
        if cif is not None and 'symmcards' in obs:
            lp = find_loop(cif, '_space_group_symop_operation_xyz')
            strs = [r[0] for r in lp[1]] if lp else []
            if len(strs) == len(obs['symmcards']):
                for k, ((rows, trans), s) in enumerate(zip(obs['symmcards'], strs)):
                    reqs.append(dict(p='C18', op='symop', rows=rows, trans=[frac_pair(t) for t in trans],
                                     tstr=[str(t) for t in trans], impl=s))
                    where.append((ci, 'symop', k))
    ans = ctx.driver.batch(reqs)
    by_case = {}
    for (ci, kind, k), r in zip(where, ans):
        by_case.setdefault(ci, {}).setdefault(kind, []).append((k, r))

    # --- comparison ------------------------------------------------------------------------------
    for ci, (case, obs, cif) in enumerate(zip(cases, obs_all, parsed)):
        fr = frames[ci]
        hist = 'history' in fr['top']
        sfx = ('|after=' + '+'.join(sorted({e.split(':')[0] for e in fr['after'].split('+')}))) if fr['after'] else ''
        note = f' [export at step {fr["pos"]} of a history on one object, after: {fr["after"]}]' if fr['after'] else ''

        def fail(sig, what, payload, kind='property', _sfx=sfx, _note=note):
            ctx.fail(sig + _sfx, what + _note, payload, kind)
        if case is None:
            fail('C18|history|step-raised', obs['error'], dict(case=fr['top'], stream='total', actual=obs['error']), kind='correspondence')
            continue
        p = case['present']
        ab = absent(case)
        abs_tag = 'absent=' + ('+'.join(ab) if ab else 'none')
        key = [fr['after'], fr['pos'], case.get('z_now'), case['setting'], case['latt'], case['symm'], p, case['cell'], case['z'], case['unit'], case['fvars'],
               [(a['name'], a['xyz'], a['code'], a['u'], a['part'], a['part_sof'], a['resi']) for a in case['atoms']], len(case['qpeaks'])]
        thirds = any(re.search(r'[1245]/[36]', s) for s in case['symm']) or abs(case['latt']) == 3
        ctx.count(key, nontrivial=bool(case['symm'] or ab or case['atoms']),
                  tags=['setting=' + case['setting'], 'latt=' + str(case['latt']), 'thirds/sixths' if thirds else 'halves/quarters only']
                  + ['no-' + k for k in ab] + (['qpeaks'] if case['qpeaks'] else []) + (['after=' + fr['after']] if fr['after'] else []) + [f'natoms={min(len(case["atoms"]), 5)}{"+" if len(case["atoms"]) > 5 else ""}'],
                  sample=dict(setting=case['setting'], latt=case['latt'], symm=case['symm'][:2], absent=ab, natoms=len(case['atoms'])))
        base = dict(case=fr['top'])
        if 'error' in obs:
            fail(obs.get('errsig', 'C18|parse'), f'generated valid file / history not processed as expected: {obs["error"]}',
                 dict(base, stream='total', actual=obs['error']), kind='correspondence')
            continue
        want_names = [a['name'] for a in case['atoms'] if not a.get('added')] + [q['name'] for q in case['qpeaks']] + \
                     [a['name'] for a in case['atoms'] if a.get('added')]
        if obs['names'] != want_names:
            fail('C18|parse|atoms', f'generated valid file: atoms {obs["names"]} read, {want_names} written',
                     dict(base, stream='total', actual=obs['names'], expected=want_names), kind='correspondence')
            continue
        # ---- total ------------------------------------------------------------------------------
        vals = by_case[ci]['values'][0][1]
        if 'raise' in obs:
            small = fr['top'] if hist else shrink_absent(case, obs['raise'])
            sab = absent(case if hist else small)
            names = dict(titl='title text')
            fail(f'C18|total|absent={"+".join(sab) if sab else "none"}|{obs["raise"]}',
                     f'to_cif() raised {obs["raise"]} ({obs["raise_msg"]}) for a valid file ' +
                     ('without ' + ', '.join(names.get(k, k.upper()) for k in sab) if sab else 'with every optional instruction present'),
                     dict(case=small, stream='total', expected='a CIF file', actual=obs['raise'], model=vals['model']))
            continue
        if isinstance(vals['model'], dict) and 'raise' in vals['model']:
            fail('C18|total|model-raises', f'implementation writes a file, the model raises {vals["model"]["raise"]}',
                     dict(base, stream='total', actual='file', model=vals['model']), kind='correspondence')
        if cif is None:
            fail('C18|cif|malformed', f'the written file is not a readable CIF: {obs.get("malformed")}',
                     dict(base, stream='total', expected='data items and loops', actual=obs.get('malformed')))
            continue
        it = cif['items']
        # ---- values -----------------------------------------------------------------------------
        spec, model = vals['spec'], vals['model']
        for tag in ['_cell_length_a', '_cell_length_b', '_cell_length_c', '_cell_angle_alpha', '_cell_angle_beta', '_cell_angle_gamma',
                    '_cell_formula_units_Z', '_diffrn_radiation_wavelength']:
            got = it.get(tag)
            pay = dict(base, stream='values', tag=tag, expected=str(spec[tag]), actual=got, model=str(model.get(tag)))
            if got is None or not num_eq(got, spec[tag]):
                extra = '|no-zerr' if tag == '_cell_formula_units_Z' and not p['zerr'] else ''
                fail(f'C18|values|{tag}{extra}', f'{tag} is {got!r}, the model has {float(spec[tag])}', pay)
            elif not num_eq(got, model.get(tag)):
                fail(f'C18|values|{tag}|model', f'{tag} is {got!r}, the Lean model gives {model.get(tag)}', pay, kind='correspondence')
        got = it.get('_cell_measurement_temperature')
        want_t = (F(str(case['temp'])) + F('273.15')) if p['temp'] else None
        pay = dict(base, stream='values', tag='_cell_measurement_temperature', expected=str(want_t), actual=got,
                   model=str(model.get('_cell_measurement_temperature')))
        ok = got is not None and (num_eq(got, want_t, 5.1e-4, 0) if want_t is not None else got in ('?', '.'))
        if not ok:
            fail('C18|values|temperature|' + ('TEMP' if p['temp'] else 'no-TEMP'),
                     f'_cell_measurement_temperature is {got!r}; TEMP {"is " + str(case["temp"]) + " C" if p["temp"] else "is absent"}', pay)
        elif not num_eq(got, model.get('_cell_measurement_temperature'), 1e-9):
            fail('C18|values|temperature|model', f'temperature {got!r}, Lean model {model.get("_cell_measurement_temperature")}', pay,
                     kind='correspondence')
        # sum formula: UNIT / Z per SFAC element
        zz = z_now(case) or 1
        want_f = {}
        for el, n in zip(case['sfac'], case['unit']):
            want_f[el.upper()] = want_f.get(el.upper(), 0) + F(str(n)) / zz
        got = it.get('_chemical_formula_sum')
        gf = parse_formula(got) if got is not None else None
        if gf is None or set(gf) != set(want_f) or any(not core.close(gf[k], want_f[k], 1e-12, 2e-5) for k in want_f):
            fail('C18|values|sum_formula', f'_chemical_formula_sum is {got!r}, UNIT/Z is { {k: float(v) for k, v in want_f.items()} }',
                     dict(base, stream='values', tag='_chemical_formula_sum', expected={k: str(v) for k, v in want_f.items()}, actual=got))
        # ---- operators --------------------------------------------------------------------------
        lp = find_loop(cif, '_space_group_symop_operation_xyz')
        strs = [r[0] for r in lp[1]] if lp else []
        exp_ops = []
        bad_model = None
        for rows, trans in obs['symmcards']:
            sn = [snap(t) for t in trans]
            if any(s is None for s in sn):
                bad_model = (rows, trans)
                break
            exp_ops.append(tuple((rows[i][0], rows[i][1], rows[i][2], sn[i]) for i in range(3)))
        if bad_model is not None:
            fail('C18|parse|symmcards', f'operator of the model with a translation that is no k/48: {bad_model}',
                     dict(base, stream='ops', actual=str(bad_model)), kind='correspondence')
        else:
            got_ops = [parse_xyz(s) for s in strs]
            opay = dict(base, stream='ops', expected=sorted({fmt_op(o) for o in exp_ops}), actual=strs)
            written = [parse_xyz(s) for s in ['X, Y, Z'] + case['symm']]
            missing_written = [s for s, o in zip(['X, Y, Z'] + case['symm'], written) if o not in set(exp_ops)]
            if missing_written:
                fail('C18|parse|symm', f'SYMM operators of the file not in the model\'s list: {missing_written}', opay, kind='correspondence')
            unparsable = [s for s, o in zip(strs, got_ops) if o is None]
            if unparsable:
                fail('C18|ops|unparsable', f'operator strings that are no CIF xyz strings: {unparsable[:3]}', opay)
            else:
                wrong = [s for s, o in zip(strs, got_ops) if o not in set(exp_ops)]
                lost = [fmt_op(o) for o in set(exp_ops) - set(got_ops)]
                if wrong or lost:
                    cls = classify_ops(wrong, lost, exp_ops)
                    fail(f'C18|ops|{cls}', f'operator strings {wrong[:4]} denote none of the model\'s operators; '
                             f'model operators without a string: {lost[:4]}', opay)
            # element-wise against the driver
            for k, r in by_case[ci].get('symop', []):
                s = strs[k]
                ref = got_ops[k]
                spec_d = dec_op(r['impl_denotes'])
                mod_d = dec_op(r['model_denotes'])
                pay = dict(base, stream='ops', op_index=k, expected=fmt_op(exp_ops[k]), actual=s, model=r['model'])
                if (ref is None) != (spec_d is None) or (ref is not None and op_key(ref) != op_key(spec_d)):
                    fail('C18|ops|reference-parsers-disagree', f'{s!r}: harness reference {ref}, Lean denoteCif {spec_d}', pay, kind='correspondence')
                if spec_d is not None and op_key(spec_d) != op_key(exp_ops[k]):
                    # property failure, reported above through the set comparison; classify only
                    pass
                if mod_d is None or spec_d is None or op_key(mod_d) != op_key(spec_d):
                    if not (spec_d is not None and op_key(spec_d) != op_key(exp_ops[k]) and r['mode'] == 1):
                        fail('C18|ops|model', f'operator {k}: implementation wrote {s!r}, the Lean model {r["model"]!r}', pay, kind='correspondence')
                ctx.dist['ops-text-identical' if r['model'] == s else 'ops-text-differs'] += 1
        # ---- atoms ------------------------------------------------------------------------------
        exp = expected_atoms(case)
        loops = by_case[ci]['loops'][0][1]
        alp = find_loop(cif, '_atom_site_label')
        dlp = find_loop(cif, '_atom_site_aniso_label')
        apay = dict(base, stream='atoms', expected=[e['label'] for e in exp])
        if alp is None:
            fail('C18|atoms|no-loop', 'no _atom_site loop in the CIF', apay)
            continue
        tags, rows = alp
        col = {t: i for i, t in enumerate(tags)}
        need = ['_atom_site_label', '_atom_site_type_symbol', '_atom_site_fract_x', '_atom_site_fract_y', '_atom_site_fract_z',
                '_atom_site_occupancy', '_atom_site_disorder_group']
        if any(t not in col for t in need):
            fail('C18|atoms|columns', f'_atom_site loop lacks {[t for t in need if t not in col]}', apay)
            continue
        got_labels = [r[col['_atom_site_label']] for r in rows]
        apay['actual'] = got_labels
        if sorted(got_labels) != sorted(e['label'] for e in exp):
            extra = [g for g in got_labels if g not in [e['label'] for e in exp]]
            cls = 'qpeak-listed' if any(g.upper().startswith('Q') for g in extra) else 'labels'
            fail(f'C18|atoms|{cls}', f'atom loop lists {got_labels}, the non-Q-peak atoms are {[e["label"] for e in exp]}', apay)
            continue
        if got_labels != [r['label'] for r in loops['model_atoms']]:
            fail('C18|atoms|order|model', 'atom loop order differs from the model', dict(apay, model=[r['label'] for r in loops['model_atoms']]),
                     kind='correspondence')
        by_label = {r[col['_atom_site_label']]: r for r in rows}
        adp = {}
        if dlp is not None:
            dt, drows = dlp
            dcol = {t: i for i, t in enumerate(dt)}
            for r in drows:
                adp[r[dcol['_atom_site_aniso_label']]] = [r[dcol.get(f'_atom_site_aniso_U_{ij}', 0)] for ij in ('11', '22', '33', '23', '13', '12')]
        mrows = {r['label']: r for r in loops['model_atoms']}
        madp = {r['label']: r for r in loops['model_adp']}
        srows = {r['label']: r for r in loops['spec_atoms']}
        sadp = {r['label']: r for r in loops['spec_adp']}
        for e, a in zip(exp, case['atoms']):
            r = by_label[e['label']]
            sr = srows.get(e['label'])
            mr = mrows.get(e['label'])
            pay = dict(base, stream='atoms', atom=e['label'], expected={k: (str(v) if not isinstance(v, (str, int, type(None))) else v) for k, v in e.items()},
                       actual=r, model=str(mr))
            kindtag = ('aniso' if e['u'] else 'iso') + ('|part' if e['part'] else '') + ('|resi' if a['resi'] else '')
            ctx.dist['atom:' + kindtag] += 1
            if sr is None or mr is None:
                fail('C18|atoms|model-row', f'no model/spec row for {e["label"]}', pay, kind='correspondence')
                continue
            if r[col['_atom_site_type_symbol']].upper() != e['el'].upper():
                fail('C18|atoms|element', f'{e["label"]}: element {r[col["_atom_site_type_symbol"]]!r}, SFAC says {e["el"]}', pay)
            for ax, c in zip('xyz', ('_atom_site_fract_x', '_atom_site_fract_y', '_atom_site_fract_z')):
                i = 'xyz'.index(ax)
                if not num_eq(r[col[c]], F(str(e['xyz'][i])) if not isinstance(e['xyz'][i], F) else e['xyz'][i], 1e-9):
                    fail(f'C18|atoms|coord{"|fixed" if a["xyz"][i] > 4 else ""}', f'{e["label"]}: {ax} = {r[col[c]]!r}, the file has {a["xyz"][i]}', pay)
                elif not num_eq(r[col[c]], mr['xyz'][i], 1e-9):
                    fail('C18|atoms|coord|model', f'{e["label"]}: {ax} = {r[col[c]]!r}, Lean model {mr["xyz"][i]}', pay, kind='correspondence')
            if e['occ'] is not None and not num_eq(r[col['_atom_site_occupancy']], e['occ'], 1e-7, 1e-9):
                fail('C18|atoms|occupancy', f'{e["label"]}: occupancy {r[col["_atom_site_occupancy"]]!r}, the free-variable rule gives {float(e["occ"])}', pay)
            try:
                dg = int(r[col['_atom_site_disorder_group']])
            except ValueError:
                dg = None
            if dg != e['part']:
                fail('C18|atoms|disorder_group', f'{e["label"]}: disorder group {r[col["_atom_site_disorder_group"]]!r}, PART is {e["part"]}', pay)
            elif dg != mr['part']:
                fail('C18|atoms|disorder_group|model', f'{e["label"]}: disorder group {dg}, Lean model {mr["part"]}', pay, kind='correspondence')
            cancels = bool(e['u']) and sum(e['u'][1:]) == 0
            if cancels:
                ctx.dist['atom:Uij-cancel'] += 1
            if '_atom_site_adp_type' in col:
                t = r[col['_atom_site_adp_type']]
                if (t == 'Uani') != bool(e['u']):
                    fail('C18|atoms|adp_type' + ('|Uij-cancel' if cancels else ''), f'{e["label"]}: adp type {t!r}, the atom has {"six" if e["u"] else "one"} U value(s)', pay)
                elif (t == 'Uani') != mr['aniso']:
                    fail('C18|atoms|adp_type|model', f'{e["label"]}: adp type {t!r}, Lean model aniso={mr["aniso"]}', pay, kind='correspondence')
            if e['u']:
                gu = adp.get(e['label'])
                pay['actual_adp'] = gu
                if gu is None:
                    fail('C18|adp|missing' + ('|Uij-cancel' if cancels else ''), f'{e["label"]} is anisotropic but has no row in the ADP loop', pay)
                else:
                    if any(not num_eq(g, F(str(w)), 1e-9) for g, w in zip(gu, e['u'])):
                        fail('C18|adp|values', f'{e["label"]}: Uij {gu}, the file has {e["u"]}', pay)
                    elif e['label'] not in madp or any(not num_eq(g, w, 1e-9) for g, w in zip(gu, madp[e['label']]['u'])):
                        fail('C18|adp|values|model', f'{e["label"]}: Uij {gu}, Lean model {madp.get(e["label"])}', pay, kind='correspondence')
                    if e['label'] not in sadp:
                        fail('C18|adp|spec', f'{e["label"]}: spec has no ADP row', pay, kind='correspondence')
            elif e['label'] in adp:
                fail('C18|adp|extra', f'{e["label"]} is isotropic but listed in the ADP loop', pay)
        extra = [l for l in adp if l not in by_label]
        if extra:
            fail('C18|adp|unknown-label', f'ADP loop rows for labels that are not in the atom loop: {extra}', apay)


def fmt_op(o):
    def comp(r):
        s = ''
        if r[3]:
            s += str(r[3])
        for c, ax in zip(r[:3], 'xyz'):
            if c:
                s += ('-' if c < 0 else '+') + (str(abs(c)) if abs(c) != 1 else '') + ax
        return s or '0'
    return ', '.join(comp(r) for r in o)


def classify_ops(wrong, lost, exp_ops):
    """signature class of an operator failure: which translations are affected and how they were written"""
    how = 'decimal' if any(re.search(r'\d\.\d', s) for s in wrong) else 'fraction'
    if any(re.search(r'1/3{3,}|/\d{4,}', s) for s in wrong):
        how = 'mangled-fraction'
    if not wrong:
        how = 'missing'
    return f'written-as={how}'


def check_repr_table(ctx):
    """the `reprTable` of the Lean model (Python's str(k/12)) against CPython"""
    tab = ctx.driver.one(dict(p='C18', op='repr'))
    bad = [(k, s, repr(k / 12)) for k, s in tab if repr(k / 12) != s]
    if len(tab) != 49 or bad:
        ctx.fail('C18|repr-table', f'reprTable of the Lean model differs from CPython: {bad[:3]}', dict(stream='ops', actual=bad),
                 kind='correspondence')


def check_double_table(ctx):
    """the `doubleTable` of the Lean model ((k/12).as_integer_ratio()) against CPython"""
    tab = ctx.driver.one(dict(p='C18', op='doubles'))
    bad = [(k, n, d) for k, n, d in tab if (int(n), int(d)) != (k / 12).as_integer_ratio()]
    if len(tab) != 49 or bad:
        ctx.fail('C18|double-table', f'doubleTable of the Lean model differs from CPython: {bad[:3]}', dict(stream='ops', actual=bad),
                 kind='correspondence')


def run(ctx):
    ctx.rule = ('generated files: 35 tabulated space-group settings (P/A/B/C/I/F/R, translations 1/2 1/3 2/3 1/4 3/4 1/6 5/6, fractions and '
                'dyadic decimals, upper/lower case) plus random operators (8 row types x 8 translations, before/after, any LATT); each of '
                'ZERR, TEMP, SIZE, ACTA, WGHT, REM residuals, title text present or absent; 0..10 atoms iso/aniso/riding, PART (with sof), '
                'RESI, AFIX, free-variable occupancies, Q-peaks; single read+export and histories on one object (re-read by string/file/'
                'reload, API edits of element/sof/Uij/Z/UNIT/delete, repeated export, a second object in between), every export compared. '
                'distinct by full description and position in the history; non-trivial = has SYMM operators, an absent optional instruction or atoms')
    ctx.assumptions = ['translations of the model are within 1e-9 of a multiple of 1/48 (checked per case)',
                       'SYMM translations are written as fractions (decimals only for halves and quarters)',
                       'atom labels unique',
                       'temperature: TEMP + 273.15 > 0.0005 K (hypothesis AboveZeroK of temp_spec)']
    check_repr_table(ctx)
    check_double_table(ctx)
    cases = []
    # every tabulated setting with everything present, and with each optional instruction absent in turn
    for st in SETTINGS:
        cases.append(make_case(ctx.rng, setting=st, flags={}))
    for k in ['zerr', 'temp', 'size', 'acta', 'wght', 'rems', 'titl']:
        cases.append(make_case(ctx.rng, setting=ctx.rng.choice(SETTINGS), flags={k: False}))
    cases.append(make_case(ctx.rng, flags=dict(zerr=True, temp=False, size=False, acta=False, wght=False, rems=False, titl=True)))
    # the inputs of the repaired defects C18_5 (element count >= 1000) and C18_6 (U22..U12 cancel), always present
    c = make_case(ctx.rng, setting=SETTINGS[0], flags={})
    c.update(z=1, sfac=['C', 'H', 'Al'], unit=[1536, 2048.5, 12])
    for a in c['atoms']:
        a['sfac'] = min(a['sfac'], 3)
    cases.append(c)
    c = make_case(ctx.rng, setting=SETTINGS[3], flags={})
    c['atoms'] = [dict(name='C1', sfac=1, xyz=[0.1, 0.2, 0.3], code=11.0, u=[0.02] + list(CANCELLING[0]), part=0, part_sof=None, resi=0, afix=False)]
    cases.append(c)
    # histories on one object: a fixed set of shapes first, then random ones
    for rounds in (['noexport', 'edit:add'], ['edit:add'], ['noexport', 'edit:uvals'], ['noexport', 'edit:element'], ['reread'], ['edit:element'], ['edit:Z'], ['edit:unit'], ['edit:sof'], ['edit:uvals'], ['edit:delete'], ['edit:to_iso'],
                   ['again'], ['other'], ['reread', 'edit', 'reread'], ['edit', 'again', 'edit']):
        for _ in range(2):
            cases.append(make_history(ctx.rng, rounds=list(rounds), flags={} if ctx.rng.random() < 0.5 else None))
    thorough = ctx.tier == 'thorough'
    n = 25000 if thorough else (4000 if ctx.escalated else 1200)
    nh = 5000 if thorough else (1000 if ctx.escalated else 300)
    for _ in range(n):
        cases.append(make_case(ctx.rng))
    for _ in range(nh):
        cases.append(make_history(ctx.rng))
    if ctx.tier == 'thorough':
        # every row type x every translation of the quantifier x before/after, under every LATT
        for latt in [1, -1, 2, -2, 3, -3, 4, -4, 5, 6, 7, -7]:
            for t in TRANSLATIONS:
                symm = []
                for row in ROWS:
                    comps = [row_text(ctx.rng, row, t), row_text(ctx.rng, ctx.rng.choice(ROWS), ctx.rng.choice(TRANSLATIONS)),
                             row_text(ctx.rng, ctx.rng.choice(ROWS), t)]
                    ctx.rng.shuffle(comps)
                    symm.append(', '.join(comps))
                c = make_case(ctx.rng, flags={})
                c.update(setting='grid', latt=latt, symm=symm)
                cases.append(c)
        ctx.extra['grid'] = 'every row type x every translation of the quantifier under LATT +-1..7'
    for i in range(0, len(cases), 300):
        evaluate(ctx, cases[i:i + 300])


if __name__ == '__main__':
    # one case from stdin, evaluated in this fresh interpreter; prints the failure signatures (used by `isolate`)
    import json
    import sys
    _case = json.loads(sys.stdin.read())
    core.import_repo()
    _ctx = core.Ctx('C18', 'quick', 0)
    try:
        _evaluate(_ctx, [_case])
    finally:
        cleanup()
    print('SIGNATURES ' + json.dumps(sorted({f['signature'] for f in _ctx.failures})))

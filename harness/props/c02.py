"""
C02 — valid input is parsed to the end; no valid instruction truncates the model.

What is generated (all of it derived from the specification's syntax table, which the driver exports with
op `table`, so that generator and theorems share one table):

  valid   every keyword x every legal parameter list (optional parameters omitted from the right, alternative
          syntaxes, atom-name tails of several lengths, reals written as `2.5`, `2`, `.5`) x residue suffix
          (`_2`, `_TOL`, `_*`) x position in the file (before SFAC / between UNIT and FVAR / inside the atom
          list / after HKLF; header keywords in their own slot, with and without SYMM lines) x atom-line shapes
          (5, 6, 7, 8, 12 columns, free-variable coded coordinates) x FRAG...FEND blocks, each in quiet, verbose
          and debug mode through `Shelxfile(verbose=, debug=).read_string`.
          Every file carries sentinel atoms, a sentinel restraint, HKLF, END, a suggested WGHT and a Q-peak AFTER
          the instruction under test.
  header  HISTORIES of header lines: every path through the header grammar of the specification (`Slot.next`, exported
          by the driver: TITL CELL ZERR LATT SYMM* NEUT? SFAC+ DISP* UNIT) with every repeatable slot taken 0/1/2/3 times,
          the forms of each keyword rotated over the repetitions, body instructions interspersed in front of SFAC.
  layout  the PHYSICAL layout of a valid line: wrapped with `=` behind the keyword / in the middle / before the last
          token / twice, blanks and tabs behind the `=`, a `!` comment (also one containing or ending with `=`) behind
          the `=` or at the end of an unwrapped line, trailing blanks/tabs, wide continuation indent, CRLF line ends —
          for every keyword (longest form) and every atom shape, on the line under test or on every line of the file,
          plus random layouts of random valid lines.  The expectation is unchanged: layout is not content.
  near    each valid line with one token dropped / one token of another lexical class (quiet mode): these
          are not valid input; only the model correspondence and "quiet never raises" are judged.
  mutant  byte / token / line mutations of valid files, quiet mode: `read_string` must never raise.

Observation (exactly `observe_at` of properties.jsonl): names of the atoms recognised, whether the sentinel
restraint / HKLF / END / WGHT after the line were recognised, `error_line_num == last line index`, the class of
the exception that left `_parse_cards` (captured by wrapping the bound method from here, no source hook), whether
`read_string` itself raised.

Streams: `valid` (impl vs spec = by-construction expectation: property failures; impl vs model `parseAll`:
correspondence), `near` (impl vs model), `mutant` (impl vs spec "quiet never raises").
"""
import contextlib
import io
import os
import re
import shutil
import tempfile

from .. import core

MODES = ['quiet', 'verbose', 'debug']
FAMILY = {'IndexError', 'ValueError', 'NameError', 'AttributeError', 'KeyError'}

# ----------------------------------------------------------------------------------------------------------------
# tokens


def classify(tok):
    """lexical class of a token = `Kind` of the Lean model"""
    if re.fullmatch(r'[+-]?\d+', tok):
        return 'int'
    try:
        v = float(tok)
        isnum = True
    except ValueError:
        v = 0.0
        isnum = False
    if isnum and tok[0] == '.':
        return 'dnum'
    if isnum and (tok[0].isdigit() or tok[0] in '+-'):
        if '.' not in tok:
            return 'enum'       # exponent notation without a decimal point (`5E-1`): not an int, but no '.' either
        return 'big' if v > 4.0 else 'num'       # the code's test is float(y) > 4.0: a negative code is not 'big'
    if tok[0].isdigit() or tok[0] in '+-':
        return 'sym'
    return 'word'


POOL = dict(
    num=['2.5', '0.75', '0.35', '0.15', '0.05', '0.45', '0.65', '0.85', '0.95', '1.25', '1.75', '0.55', '0.25', '1.5', '1.1'],
    int=['3', '2', '1', '1', '1', '1', '1', '1', '1', '1', '2', '1', '0', '1', '1'],
    dnum=['.9', '.7', '.5', '.3', '.2', '.1', '.15', '.25', '.35', '.45', '.55', '.65', '.75', '.85', '.95'],
    big=['21.5', '10.25', '31.0', '20.5', '10.5', '10.75'],
    word=['C1', 'C2', 'O1', 'C3', 'C4', 'C5', 'C6', 'C7'],
    sym=['-x,', '-y,', '-z', '1/2+x,', '1/2-y'],
)

# concrete tokens where the generic pools would not give a meaningful instruction (values, not shapes)
SPECIAL = {
    'TITL': {(): [], ('word',): ['structure'], ('word', 'word', 'int', 'sym'): ['c02', 'in', '14', '2(1)/c']},
    'CELL': {'*': lambda ks: [dict(int='1', dnum='.71073', num='0.71073')[ks[0]], '10.1', '11.2', '12.3', '90.0', '95.5', '90.0']},
    'LATT': {('int',): ['-1']},
    'SYMM': {('sym', 'sym', 'sym'): ['-x,', '1/2+y,', '-z'], ('sym',): ['-x,1/2+y,-z'], ('sym', 'word', 'sym'): ['-x,', 'y+1/2,', '-z'],
             ('word', 'sym', 'word'): ['x,', '1/2-y,', 'z+1/2']},
    'EQIV': {('word', 'sym', 'sym', 'sym'): ['$1', '-x,', '1-y,', '-z'], ('word', 'sym'): ['$2', '1-x,-y,-z'],
             ('word', 'sym', 'word', 'sym'): ['$3', '-x,', 'y+1/2,', '-z'], ('word', 'word', 'sym', 'word'): ['$4', 'x,', '1/2-y,', 'z']},
    'LAUE': {('word',): ['Mo']},
    'ACTA': {'word': ['NOHKL']},
    'DISP': {'word': ['C']},
    'SFAC': {'word': ['C', 'H', 'O', 'N']},
    'RESI': {'word': ['TOL'], 'int': ['4', '5'], 'sym': ['1PE']},
    'RTAB': {'word': ['Omeg', 'C1', 'C2', 'O1', 'C3']},
    'HKLF': {'int': ['4', '1', '0', '0', '0', '1', '0', '0', '0', '1', '2']},
    'TWIN': {'int': ['0', '1', '0', '1', '0', '0', '0', '0', '-1', '2'], 'num': ['0.0', '1.0', '0.0', '1.0', '0.0', '0.0', '0.0', '0.0', '-1.0']},
    'AFIX': {'int': ['43']}, 'HFIX': {'int': ['43']}, 'PART': {'int': ['2']}, 'LIST': {'int': ['4', '1']},
    'L.S.': {'int': ['10', '2', '3']}, 'CGLS': {'int': ['10', '2', '3']}, 'FMAP': {'int': ['2', '1', '53']},
    'PLAN': {'int': ['-20']}, 'MERG': {'int': ['2']}, 'SUMP': {'int': ['2', '3', '4']}, 'CONN': {'word': ['Fe', 'O1']},
    'BIND': {'int': ['1', '2']}, 'OMIT': {'int': ['-2', '3', '4']}, 'TEMP': {'num': ['-123.5'], 'int': ['-100'], 'dnum': ['.5']},
    'SOCC': {'word': ['C1']}, 'BEDE': {'word': ['C1', 'C2', 'C3']}, 'LONE': {'word': ['C1']}, 'NCSY': {'int': ['2']},
    'MPLA': {'int': ['3', '4']}, 'BLOC': {'int': ['1', '2']}, 'ANIS': {'int': ['2']}, 'ZERR': {'int': ['4']},
}


def instantiate(kw, kinds):
    """concrete tokens of the given lexical classes, distinct per slot"""
    sp = SPECIAL.get(kw, {})
    key = tuple(kinds)
    if key in sp:
        return list(sp[key])
    if '*' in sp:
        return list(sp['*'](kinds))
    cnt = {}
    out = []
    for k in kinds:
        i = cnt.get(k, 0)
        cnt[k] = i + 1
        pool = sp.get(k, None)
        if pool is None or i >= len(pool):
            pool = POOL[k]
        out.append(pool[i % len(pool)])
    return out


def form_desc(kinds):
    """`bare`, `i`, `n2,w3` ... (run-length encoded lexical classes)"""
    if not kinds:
        return 'bare'
    ab = dict(int='i', num='n', big='N', dnum='d', word='w', sym='s', enum='e')
    out = []
    for k in kinds:
        if out and out[-1][0] == ab[k]:
            out[-1][1] += 1
        else:
            out.append([ab[k], 1])
    return ','.join(a + (str(n) if n > 1 else '') for a, n in out)


# ----------------------------------------------------------------------------------------------------------------
# files, by construction

SENT_RESTRAINT = ['DFIX', '1.5123', 'C1', 'C2']
SENT_RESTRAINT2 = ['DFIX', '1.6123', 'C2', 'O1']      # sentinel inside an include file
INC_A, INC_B = 'c02_inc_a.ins', 'c02_inc_b.ins'
# what a previous call may leave behind on the same object: open RESI / PART / AFIX / FRAG, END seen, parse aborted
DIRTY = ('TITL dirty\nCELL 0.71073 7 8 9 90 90 90\nZERR 2 0.001 0.001 0.001 0 0 0\nLATT 2\nSYMM -x, -y, z\nSFAC C N\nUNIT 4 4\n'
         'DEFS 0.5 0.5 0.5 0.5\nFVAR 0.3 0.4 0.5 0.6\nRESI 3 TOL\nPART 2 21\nAFIX 43\nFRAG 17\nC1 1 0.5 0.5 0.5 11 0.05\nSADI C1 N1 C1 N2\n'
         'HKLF 5\nEND\nWGHT 0.2\nTEMP abc\nQ9 1 0.1 0.1 0.1 11 0.05 0.5\n')


def atom_line(name, sfac=1, k=1):
    return [name, str(sfac), f'{0.1 + 0.01 * k:.5f}', f'{0.2 + 0.01 * k:.5f}', f'{0.3 + 0.01 * k:.5f}', '11.00000', f'{0.04 + 0.001 * k:.5f}']


def build(case):
    return build2(case)[0]


def build2(case):
    """case -> (list of logical lines [(tokens, role)], parallel list of the file each line is written to);
    role in {'', 'test', 'inc', 'atom:<name>', 'sent:<what>'}.  The list is in the order the parser sees the lines, i.e. with
    the include files (case['via'] = 'include' | 'nested') already spliced in after their '+filename' line.
    A logical line may be rendered on two physical lines (case['wrap'])."""
    kw, toks, pos = case['kw'], case['toks'], case['pos']
    line = [case.get('kwtext', kw)] + list(toks)
    nsf = case.get('nsfac', 3)
    els = ['C', 'H', 'O', 'N'][:nsf]
    L = []
    F = []
    cur = ['main']

    def add(tokens, role=''):
        L.append((list(tokens), role))
        F.append(cur[0])

    def place(tokens, role):
        """the line under test: in the main file, in an include file, or in an include file of an include file"""
        via = case.get('via')
        if via not in ('include', 'nested'):
            add(tokens, role)
            return
        add(['+' + INC_A], 'inc')
        cur[0] = INC_A
        if via == 'nested':
            add(['+' + INC_B], 'inc')
            cur[0] = INC_B
        add(tokens, role)
        add(atom_line('C5', 1, 5), 'atom:C5')          # sentinels INSIDE the include file, after the line
        add(SENT_RESTRAINT2, 'sent:restraint2')
        if via == 'nested':
            cur[0] = INC_A
            add(atom_line('C6', 1, 6), 'atom:C6')      # and after the nested include, in the outer include file
        cur[0] = 'main'

    def slot(name, default_lines):
        if pos == name:
            add(line, 'test')
        else:
            for d in default_lines:
                add(d)

    if pos == 'header':        # a whole header history (TITL ... UNIT), every line of it under test
        for hl in case['header']:
            add(hl, 'test')
    else:
        slot('titl', [['TITL', 'c02', kw, 'in', 'P2(1)']])
        slot('cell', [['CELL', '0.71073', '10.1', '11.2', '12.3', '90', '95.5', '90']])
        slot('zerr', [['ZERR', '4', '0.001', '0.002', '0.003', '0', '0.01', '0']])
        slot('latt', [['LATT', '-1']])
        if pos == 'symm':
            add(line, 'test')
        elif case.get('symm', True):
            add(['SYMM', '-x,', '1/2+y,', '-z'])
        if pos == 'neut':
            add(line, 'test')
        if pos == 'pre':
            add(line, 'test')
        if pos == 'sfac':
            add(line, 'test')
        else:
            add(['SFAC'] + els)
        if pos == 'disp':
            add(line, 'test')
        if pos == 'unit':
            add(line, 'test')
        else:
            add(['UNIT'] + ['8', '16', '4', '2'][:nsf])
    add(['REM', 'c02', 'by-construction', 'file'])
    add(['REM', 'sentinels', 'follow', 'the', 'line', 'under', 'test'])
    if pos == 'instr':
        for b in case.get('before', []):      # an earlier valid instruction whose object the handler of the line under test reads (DEFS)
            add(b)
        for _ in range(case.get('repeat', 1)):      # the same instruction several times in a row (what its handler leaves behind)
            place(line, 'test')
    add(['L.S.', '10'])
    add(['PLAN', '5'])
    if pos == 'fvar':
        for _ in range(case.get('repeat', 1)):
            add(line, 'test')
    else:
        add(['FVAR', '0.51234', '0.61234', '0.71234'])
    add(atom_line('C1', 1, 1), 'atom:C1')
    if pos == 'atoms':
        place(line, 'test')
    if pos == 'atomline':
        place(line, 'atom:' + line[0].upper()[:4])      # (names are compared without regard to case)
    if pos == 'frag':
        for l in case['block']:
            add(l, 'test')
    add(atom_line('C2', 1, 2), 'atom:C2')
    add(SENT_RESTRAINT, 'sent:restraint')
    add(atom_line('O1', 1, 3), 'atom:O1')
    if kw == 'AFIX' and pos in ('pre', 'instr', 'atoms'):
        add(['AFIX', '0'])      # an AFIX group is closed before HKLF (what an open one does to HKLF is C03's business)
    if pos == 'hklf':
        add(line, 'test')
    else:
        add(['HKLF', '4'], 'sent:hklf')
    if pos == 'post':
        add(line, 'test')
        if kw == 'AFIX':
            add(['AFIX', '0'])
    if pos == 'end':
        add(line, 'test')
    else:
        add(['END'], 'sent:end')
    add(['WGHT', '0.0512', '0.3456'], 'sent:wght')
    if pos == 'tail':
        add(line, 'test')
    add(['Q1', '1', '0.12340', '0.23450', '0.34560', '11.00000', '0.05', '1.23'], 'atom:Q1')
    return L, F


def layout_line(toks, lay):
    """one logical line in the physical layout `lay`: wraps = token indices in front of which the line is broken with `=`,
    tails = what follows each `=` on its physical line, trail = what follows the last token, indent = what the
    continuation lines begin with (at least one blank), ctrail = what follows the tokens of a continuation line that is
    not the last one ... (all of it layout: SHELXL and the property see the same instruction)"""
    n = len(toks)
    cuts = []
    for w in lay.get('wraps', []):
        k = dict(first=1, mid=(n + 1) // 2, last=n - 1, third=max(1, n // 3), twothirds=max(2, (2 * n) // 3)).get(w, w)
        if isinstance(k, int) and 1 <= k < n and k not in cuts:
            cuts.append(k)
    cuts.sort()
    tails = lay.get('tails', ['']) or ['']
    segs = []
    prev = 0
    for k in cuts + [n]:
        segs.append(toks[prev:k])
        prev = k
    out = []
    sep = lay.get('sep', '  ')
    for i, seg in enumerate(segs):
        if i == 0:
            txt = seg[0].ljust(4) + (' ' + sep.join(seg[1:]) if len(seg) > 1 else '')
        else:
            txt = lay.get('indent', '    ') + sep.join(seg)
        if i < len(segs) - 1:
            txt += ' =' + tails[i % len(tails)]
        else:
            txt += lay.get('trail', '')
        out.append(txt)
    return out


def no_layout(toks):
    """lines whose text is free text or a file name: `=` is not a continuation mark there"""
    return not toks or toks[0].upper()[:4] in ('TITL', 'REM') or toks[0].startswith('+')


def render(lines, wrap=False, files=None, layout=None, ambient=False, target=None):
    """-> (text of the spliced line list, first physical line index per logical line, number of physical lines)
    and, with `files` (parallel list of file names), additionally {file name: its text}.
    `layout`: physical layout (see layout_line) of the lines whose role is in `target` — of every line with `ambient`."""
    phys = []
    first = []
    per = {}
    for n, (toks, role) in enumerate(lines):
        first.append(len(phys))
        if layout is not None and not no_layout(toks) and (ambient or role in (target or ('test',))):
            new = layout_line(toks, layout)
        elif wrap and role.startswith('atom:') and len(toks) >= 12:
            new = [' '.join(toks[:8]) + ' =', '    ' + ' '.join(toks[8:])]
        elif toks and toks[0] == 'TITL':
            new = [' '.join(toks)]
        else:
            new = [toks[0].ljust(4) + (' ' + '  '.join(toks[1:]) if len(toks) > 1 else '')]
        phys += new
        if files is not None:
            per.setdefault(files[n], []).extend(new)
    nl = '\r\n' if layout is not None and layout.get('crlf') else '\n'
    text = nl.join(phys) + nl
    if files is not None:
        return text, first, len(phys), {k: nl.join(v) + nl for k, v in per.items()}
    return text, first, len(phys)


def render_case(case, lines, fl=None):
    target = ('test', 'atom:' + case['kw'].upper()[:4]) if case['pos'] == 'atomline' else ('test',)
    return render(lines, wrap=case.get('wrap', False), files=fl, layout=case.get('layout'), ambient=case.get('ambient', False), target=target)


def kw_of_line(toks):
    k = toks[0].upper()
    return k.split('_')[0] if not k.startswith('+') else '+'


def forms_of(lines):
    return [dict(kw=kw_of_line(t), toks=[classify(x) for x in t[1:]]) for t, _ in lines]


# ----------------------------------------------------------------------------------------------------------------
# implementation

def observe(text, mode, files=None, prelude=None, workdir=None):
    """parse `text` (or, with `files` = {name: text or bytes} and the main file under the key 'main', read it with read_file
    from `workdir`) and report the property's observables; `prelude`: a text the same object has to read first"""
    from shelxfile import Shelxfile
    shx = Shelxfile(verbose=(mode == 'verbose'), debug=(mode == 'debug'))
    inner = []
    orig = shx._parse_cards

    def wrapped():
        try:
            return orig()
        except Exception as e:
            inner.append(type(e).__name__)
            raise

    shx._parse_cards = wrapped
    outer = None
    with contextlib.redirect_stdout(io.StringIO()):
        if prelude is not None:
            try:
                shx.read_string(prelude)
            except BaseException:
                pass
            del inner[:]
        try:
            if files is None:
                shx.read_string(text)
            else:
                for name, content in files.items():
                    fn = os.path.join(workdir, 'c02_main.res' if name == 'main' else name)
                    with open(fn, 'wb') as f:
                        f.write(content if isinstance(content, bytes) else content.encode())
                shx.read_file(os.path.join(workdir, 'c02_main.res'))
        except Exception as e:
            outer = type(e).__name__
        except SystemExit:
            outer = 'SystemExit'
    try:
        names = [a.name for a in shx.atoms]
    except Exception as e:
        names = ['<' + type(e).__name__ + '>']
    try:
        restr = [str(r).split() for r in shx.restraints]
    except Exception as e:
        restr = [['<' + type(e).__name__ + '>']]
    return dict(atoms=names, restraint=SENT_RESTRAINT in restr, restraint2=SENT_RESTRAINT2 in restr, hklf=shx.hklf is not None, end=bool(shx.end),
                wght=shx.wght_suggested is not None, errline=shx.error_line_num, inner=inner[0] if inner else None, outer=outer)


def family(name):
    if name is None:
        return None
    if name in FAMILY:
        return name
    if name.startswith('Parse'):
        return 'ParseError'
    return 'Other'


# ----------------------------------------------------------------------------------------------------------------
# evaluation

def evaluate(ctx, cases, stream=None):
    workdir = tempfile.mkdtemp(prefix='c02_')
    try:
        _evaluate(ctx, cases, workdir)
    finally:
        shutil.rmtree(workdir, ignore_errors=True)


def _evaluate(ctx, cases, workdir):
    reqs = []
    built = []
    for case in cases:
        if case['stream'] == 'mutant':      # the text itself is the case
            built.append(([], case.get('text'), [], 0, None))
            continue
        lines, fl = build2(case)
        text, first, nphys, per = render_case(case, lines, fl)
        built.append((lines, text, first, nphys, per if case.get('via') in ('file', 'include', 'nested') else None))
        if case['stream'] != 'mutant':
            fs = forms_of(lines)
            for m in (MODES if case['stream'] == 'valid' else ['quiet']):
                reqs.append(dict(p='C02', op='file', mode=m, lines=fs))
            reqs.append(dict(p='C02', op='accepts', mode='quiet', kw=kw_of_line([case.get('kwtext', case['kw'])]),
                             toks=[classify(x) for x in case['toks']], last='UNIT', flags=['cell', 'latt', 'sfac']))
    ans = iter(ctx.driver.batch(reqs)) if reqs else iter([])
    for case, (lines, text, first, nphys, per) in zip(cases, built):
        st = case['stream']
        ctx.stream(st)
        if st == 'mutant':
            if case.get('files') is not None:     # malformed include set-up, read with read_file
                ob = observe(None, 'quiet', files={k: (bytes(v) if isinstance(v, list) else v) for k, v in case['files'].items()}, workdir=workdir)
                entry = 'read_file'
            else:
                ob = observe(text, 'quiet')
                entry = 'read_string'
            ctx.count(['mutant', text, case.get('files')], nontrivial=True,
                      tags=['mutant', 'mutant:' + case.get('mut', '?'), 'mutant-inner:' + str(family(ob['inner']))])
            if ob['outer'] is not None:
                sig = f'C02|malformed|quiet-raises|{ob["outer"]}' + (f'|include={case["mut"]}' if entry == 'read_file' else '')
                ctx.fail(sig, f'quiet mode raised {ob["outer"]} on malformed input ({case.get("mut")}, {entry})',
                         dict(case=case, stream=st, expected=f'no exception leaves {entry} in quiet mode', actual=ob))
            continue
        kinds = [classify(x) for x in case['toks']]
        kw = case['kw'] if case['pos'] != 'atomline' else 'ATOM'
        fd = form_desc(kinds)
        if case['pos'] == 'atomline':      # signature classes of atom lines: number of columns, coded coordinate or not
            fd = f'cols={len(kinds) + 1}' + ('|coded-coordinate' if 'big' in kinds[1:4] else '')
        if case['pos'] == 'header':
            kw, fd = 'HEADER', case['hist']
        if case['pos'] == 'frag':
            far = any(abs(float(x)) > 4 for l in case['block'][1:-1] for x in l[2:5])
            fd = ('short' if len(kinds) <= 1 else 'cell') + ('|coordinate-beyond-4' if far else '')
        modes = MODES if st == 'valid' else ['quiet']
        obs = {m: observe(text, m, files=per, workdir=workdir, prelude=DIRTY if case.get('via') == 'second-call' else None) for m in modes}
        models = {m: next(ans) for m in modes}
        acc = next(ans)
        want_atoms = [r.split(':', 1)[1] for _, r in lines if r.startswith('atom:')]
        sent = set(want_atoms)
        last = nphys - 1
        ctx.count([st, case.get('kwtext', case['kw']), case['toks'], case['pos'], case.get('symm', True), case.get('wrap', False), case.get('via'),
                   case.get('header'), case.get('layout'), case.get('ambient'), case.get('repeat'), case.get('before')],
                  nontrivial=acc['branch'] not in ('none', 'else') or case['pos'] == 'frag',
                  tags=[st, 'kw:' + kw, 'pos:' + case['pos'], 'spelling:' + case.get('spell', 'plain'), 'via:' + case.get('via', 'read_string'), 'layout:' + case.get('lname', 'plain'), 'branch:' + acc['branch'][:24], 'nparams:%d' % len(kinds)] +
                       ['impl-inner:%s' % family(obs['quiet']['inner'])],
                  sample=dict(stream=st, line=' '.join([case.get('kwtext', case['kw'])] + case['toks']), pos=case['pos'], impl=obs['quiet'],
                              model=models['quiet']) if len(kinds) > 2 else None)
        payload = dict(case=case, stream=st, text=text, actual=obs, model=models)
        base = f'C02|kw={kw}|form={fd}' + (f'|{case["spell"]}' if case.get('spell') else '') + (f'|via={case["via"]}' if case.get('via') else '') \
            + (f'|layout={case["lname"]}' + ('|every-line' if case.get('ambient') else '') if case.get('layout') is not None else '')
        # ---- correspondence: implementation vs model (parseAll), every mode that ran --------------------------
        for m in modes:
            o, mo = obs[m], models[m]
            impl_idx = None
            if o['inner'] is not None:       # logical line on which the exception happened
                impl_idx = max(i for i, f in enumerate(first) if f <= o['errline'])
            m_idx = mo['consumed'] if mo['innerErr'] is not None else None
            if st == 'near':
                # damaged lines: only the direction the theorems rest on is judged — where the model accepts, the
                # implementation must not die of a missing token / failed conversion / undefined name.  (Deliberate
                # Parse* raises depend on values the model abstracts from; where the model is over-cautious nothing is claimed.)
                differs = mo['innerErr'] is None and o['inner'] is not None and family(o['inner']) != 'ParseError'
            else:
                differs = (o['inner'] is None) != (mo['innerErr'] is None) or impl_idx != m_idx or family(o['inner']) != mo['innerErr'] \
                    or (o['outer'] is None) != (mo['raised'] is None)
            if differs:
                what = (f'`{" ".join(lines[impl_idx if impl_idx is not None else (m_idx or 0)][0])}` ({case["pos"]}, {m}): implementation '
                        f'{"raises " + o["inner"] + " at line " + str(impl_idx) if o["inner"] else "parses to the end"}'
                        f'{" (read_string raises)" if o["outer"] else ""}, model '
                        f'{"raises " + str(mo["innerErr"]) + " at line " + str(m_idx) if mo["innerErr"] else "parses to the end"}'
                        f'{" (raises)" if mo["raised"] else ""}')
                ctx.fail(f'{base}|model-differs', what, payload, kind='correspondence')
                break
        if st != 'valid':
            if obs['quiet']['outer'] is not None:
                ctx.fail(f'{base}|near|quiet-raises|{obs["quiet"]["outer"]}', f'quiet mode raised {obs["quiet"]["outer"]} on the damaged line `{" ".join([case.get("kwtext", case["kw"])] + case["toks"])}`', payload)
            continue
        if not acc.get('valid', True):
            raise RuntimeError(f'generator left the specification: {case}')
        # ---- property: implementation vs specification (by-construction expectation) ------------------------
        exp = dict(atoms=want_atoms, restraint=True, hklf=True, end=True, wght=True, errline=last, inner=None, outer=None)
        payload['expected'] = exp
        bad_modes = {}
        for m in MODES:
            o = obs[m]
            got_atoms = [a.upper() for a in o['atoms'] if a.upper() in sent]
            if o['inner'] is not None:
                kind = 'raise=' + o['inner']
            elif o['outer'] is not None:
                kind = 'outer=' + o['outer']
            elif got_atoms != want_atoms:
                kind = 'atom-lost'
            elif not (o['restraint'] and o['hklf'] and o['end'] and o['wght'] and (o['restraint2'] or not any(r == 'sent:restraint2' for _, r in lines))):
                kind = 'instruction-lost'
            elif o['errline'] != last:
                kind = 'stopped-early'
            else:
                continue
            bad_modes.setdefault(kind, []).append(m)
        for kind, ms in bad_modes.items():
            o = obs[ms[0]]
            msel = 'all' if len(ms) == 3 else '+'.join(ms)
            lost = [a for a in want_atoms if a not in [x.upper() for x in o['atoms']]]
            shown = " ".join([case.get("kwtext", case["kw"])] + case["toks"])
            if case['pos'] == 'header':     # name the header line the parse stopped on, and what stood before it
                at = max(i for i, f in enumerate(first) if f <= min(o['errline'], first[-1]))
                shown = ' / '.join(' '.join(t) for t, _ in lines[max(0, at - 2):at + 1])
            ctx.fail(f'{base}|{kind}|modes={msel}',
                     f'valid `{shown}` ({case["pos"]}' + (f', layout {case["lname"]}' if case.get('layout') is not None else '') + f') in {msel} mode(s): {kind}; '
                     f'parse stopped at line {o["errline"] + 1} of {nphys}; atoms not recognised: {lost}', payload)
        if not bad_modes:
            a = [(obs[m]['atoms'], obs[m]['restraint'], obs[m]['restraint2'], obs[m]['hklf'], obs[m]['end'], obs[m]['wght'], obs[m]['errline']) for m in MODES]
            if a[0] != a[1] or a[0] != a[2]:
                ctx.fail(f'{base}|modes-disagree', f'quiet/verbose/debug give different models for `{" ".join([case.get("kwtext", case["kw"])] + case["toks"])}`', payload)


# ----------------------------------------------------------------------------------------------------------------
# generation

BODY_POS = ['pre', 'instr', 'atoms', 'post']
SLOT_POS = dict(titl=['titl'], cell=['cell'], zerr=['zerr'], latt=['latt'], symm=['symm'], neut=['neut'], sfac=['sfac'], disp=['disp'],
                unit=['unit'], fvar=['fvar'], hklf=['hklf'], end=['end'], tail=['tail'], body=BODY_POS, frag=[], fend=[])


def valid_cases(tab, suffixes=('',)):
    out = []
    for row in tab['syntax']:
        for kinds in row['forms']:
            toks = instantiate(row['kw'], kinds)
            got = [classify(t) for t in toks]
            # (`big` = a real above 4.0 matters for atom coordinates only; on keyword lines it is a `num`)
            if [('num' if g == 'big' else g) for g in got] != [('num' if g == 'big' else g) for g in kinds]:
                raise RuntimeError(f'harness: tokens {toks} of {row["kw"]} have classes {got}, wanted {kinds}')
            for pos in SLOT_POS[row['slot']]:
                variants = [dict()]
                if pos in ('neut', 'sfac', 'symm', 'pre'):
                    variants = [dict(symm=True), dict(symm=False)]
                for v in variants:
                    for sfx in (suffixes if row['suffix'] else ('',)):
                        c = dict(stream='valid', kw=row['kw'], toks=toks, pos=pos, **v)
                        if sfx:
                            c['kwtext'] = row['kw'] + sfx
                        if row['kw'] == 'SFAC':
                            c['nsfac'] = len(toks) if all(k == 'word' for k in kinds) else 1
                        if row['kw'] == 'UNIT':
                            c['nsfac'] = len(toks)
                        out.append(c)
                        # spelling variants: once per (keyword, form), at the keyword's own slot / in the instruction section
                        if pos in ('instr',) + tuple(p for p in SLOT_POS if p != 'body') and not sfx and v.get('symm', True):
                            names = row['suffix'] and row['kw'] not in ('OMIT',)
                            for sv in spellings(c, kinds, names):
                                if [classify(t) for t in sv['toks']] != [classify(t) for t in c['toks']]:
                                    raise RuntimeError(f'harness: spelling changed the lexical classes: {sv}')
                                out.append(sv)
    # second entry point and include files: the same lines read with read_file, inside an include file, inside an include
    # file of an include file; and read_string on an object that has parsed something else before
    extra = []
    for c in out:
        if c.get('spell') or c.get('kwtext') or not c.get('symm', True):
            continue
        if c['pos'] == 'atoms':
            extra += [dict(c, via='include'), dict(c, via='nested')]
        if c['pos'] == 'instr' or (c['pos'] not in BODY_POS):
            extra += [dict(c, via='file'), dict(c, via='second-call')]
    out += extra
    # WGHT also after END (the weighting scheme SHELXL suggests)
    for row in tab['syntax']:
        if row['kw'] in ('WGHT', 'REM'):
            for kinds in row['forms']:
                out.append(dict(stream='valid', kw=row['kw'], toks=instantiate(row['kw'], kinds), pos='tail'))
    # atom lines
    for kinds in tab['atoms']:
        toks = atom_tokens(kinds)
        for wrap in ([False, True] if len(kinds) >= 11 else [False]):
            out.append(dict(stream='valid', kw='C9', toks=toks, pos='atomline', wrap=wrap))
        if 'big' in kinds[1:4]:
            continue        # (coded coordinates are the open finding: its spelling variants add nothing)
        for via in ('file', 'include', 'nested', 'second-call'):
            out.append(dict(stream='valid', kw='C9', toks=toks, pos='atomline', via=via))
        out.append(dict(stream='valid', kw='C9', kwtext='c9', toks=toks, pos='atomline', spell='case=lower'))
        for how in NUMSTYLES:
            t2 = toks[:1] + [respell_number(t, how) for t in toks[1:]]
            if [classify(t) for t in t2] == [classify(t) for t in toks]:
                out.append(dict(stream='valid', kw='C9', toks=t2, pos='atomline', spell='numbers=' + how))
    # a coordinate fixed at a negative value through a free variable (`-10.25`, `-30.25`: m = -1 … -3, the by-construction
    # file defines three): the handler books the usage of free variable |m|, also of the last one defined
    for kinds in tab['atoms']:
        if len(kinds) in (6, 11) and 'big' not in kinds[1:4]:
            toks = atom_tokens(kinds)
            for j in (1, 2, 3):
                for m in (1, 2, 3):
                    t2 = list(toks)
                    t2[j] = '-%d0.25000' % m
                    out.append(dict(stream='valid', kw='C9', toks=t2, pos='atomline', spell='coordinate=negative-code'))
    # FRAG ... FEND blocks
    for head in (['FRAG'], ['FRAG', '17'], ['FRAG', '17', '1', '1', '1', '90', '90', '90'], ['FRAG', '17', '7.5', '8.5', '9.5', '90', '95.5', '90']):
        for coords in (['0.1', '0.2', '0.3'], ['1.25', '-2.5', '0.75'], ['5.25', '-6.5', '0.75']):
            blk = [head, ['C7', '1'] + coords, ['C8', '1'] + [coords[1], coords[2], coords[0]], ['FEND']]
            out.append(dict(stream='valid', kw='FRAG', toks=head[1:], pos='frag', block=blk))
    return out


# SHELXL is case-insensitive and free-format: the same instruction may be spelled in several ways.  A *spelling*
# changes neither keyword nor lexical classes of the tokens (so the model's abstract line is the same).
KWCASES = ('lower', 'title', 'mixed')
NUMSTYLES = ('exp', 'plus')
WORDSTYLES = ('lower', 'special')


def recase(text, how):
    if how == 'lower':
        return text.lower()
    if how == 'title':
        return text[:1].upper() + text[1:].lower()
    if how == 'mixed':
        return ''.join(ch.lower() if i % 2 else ch.upper() for i, ch in enumerate(text))
    return text


def respell_number(tok, how):
    """the same real in exponent notation / with an explicit plus sign (kind and value unchanged)"""
    k = classify(tok)
    if k not in ('num', 'big') or tok[0] in '+-' and how == 'plus':
        return tok
    if how == 'exp':
        sign, body = (tok[0], tok[1:]) if tok[0] in '+-' else ('', tok)
        ip, _, fp = body.partition('.')
        return f'{sign}0.{ip}{fp}E+{len(ip)}'        # 2.5 -> 0.25E+1 (keeps the decimal point: same lexical class)
    return '+' + tok


def respell_words(toks, how):
    words = [i for i, t in enumerate(toks) if classify(t) == 'word']
    out = list(toks)
    if how == 'lower':
        return [t.lower() if i in words else t for i, t in enumerate(toks)]
    # atom-list notations: range operators, residue / symmetry suffixes, element wildcards (all lexical class `word`)
    if len(words) >= 3:
        out[words[1]] = '>' if len(words) % 2 else '<'
    for n, i in enumerate(words[:1] + words[2:]):
        if re.fullmatch(r'[A-Z][A-Za-z]?\d+', out[i]):
            out[i] = out[i] + ('_2', '_$1')[n % 2] if n % 4 != 3 else '$' + out[i][0]
    return out


def spellings(c, kinds, has_atom_names):
    """the spelling variants of one valid case (keyword case, number notation, word notation)"""
    out = []
    for how in KWCASES:
        v = dict(c, kwtext=recase(c.get('kwtext', c['kw']), how), spell='case=' + how)
        out.append(v)
    if any(k in ('num', 'big') for k in kinds):
        for how in NUMSTYLES:
            toks = [respell_number(t, how) for t in c['toks']]
            if toks != c['toks']:
                out.append(dict(c, toks=toks, spell='numbers=' + how))
    if 'word' in kinds:
        low = respell_words(c['toks'], 'lower')
        if low != c['toks']:
            out.append(dict(c, toks=low, spell='words=lower'))
        if has_atom_names:
            sp = respell_words(c['toks'], 'special')
            if sp != c['toks']:
                out.append(dict(c, toks=sp, spell='words=special'))
    return out


def atom_tokens(kinds):
    pool = dict(int=['1', '0', '1', '0'], num=['0.12345', '0.23456', '0.34567', '0.04321', '0.05432', '0.03219', '0.00123', '-0.00234', '0.00345', '0.0456'],
                big=['11.00000', '10.25000', '10.50000', '10.75000', '21.00000', '20.05'], dnum=['.5'], word=['X'], sym=['-'])
    cnt = {}
    out = []
    for k in kinds:
        i = cnt.get(k, 0)
        cnt[k] = i + 1
        out.append(pool[k][i % len(pool[k])])
    # the occupancy column (6th token of the line) of a plain atom is 11.0
    return out


# ----------------------------------------------------------------------------------------------------------------
# histories of header lines (the parser remembers the header: `lastcard`, truthy attributes)

ELEMENTS = ['C', 'H', 'O', 'N', 'S', 'P', 'F', 'B']
PRE_INSTR = [['MORE', '3'], ['REM', 'between', 'header', 'lines'], ['TEMP', '-100'], ['SIZE', '0.1', '0.2', '0.3'], ['MORE']]
HEADER_REP = 3      # every repeatable slot is taken up to this many times


def header_paths(gram):
    """every path TITL ... UNIT through the grammar of the specification with each slot visited at most HEADER_REP times"""
    nxt = {g['slot']: g['next'] for g in gram}
    out = []

    def walk(path):
        if path[-1] == 'unit':
            out.append(list(path))
            return
        for n in nxt.get(path[-1], []):
            if path.count(n) < HEADER_REP:
                walk(path + [n])
    walk(['titl'])
    return out


def header_cases(tab):
    rows = {}
    for r in tab['syntax']:
        rows.setdefault(r['slot'], r)
    pre_ok = {g['slot'] for g in tab['grammar'] if g['pre']}
    rot = {}

    def form(slot):
        """the forms of the slot's keyword in rotation, so that over all paths every form stands in every repetition"""
        fs = rows[slot]['forms']
        i = rot.get(slot, 0)
        rot[slot] = i + 1
        return fs[i % len(fs)]
    out = []
    for pn, path in enumerate(header_paths(tab['grammar'])):
        hdr = []
        nel = 0
        for i, slot in enumerate(path):
            kw = rows[slot]['kw']
            if slot == 'unit':
                hdr.append(['UNIT'] + [str(4 * (k + 1)) for k in range(nel)])
            elif slot == 'sfac':
                kinds = form(slot)
                if all(k == 'word' for k in kinds):
                    k = min(len(kinds), len(ELEMENTS) - nel - 2) or 1
                    hdr.append(['SFAC'] + ELEMENTS[nel:nel + k])
                    nel += k
                else:
                    hdr.append(['SFAC', ELEMENTS[nel]] + instantiate('SFAC', kinds)[1:])
                    nel += 1
            elif slot == 'disp':
                ndisp = sum(1 for h in hdr if h[0] == 'DISP')
                hdr.append(['DISP', ELEMENTS[ndisp % max(nel, 1)]] + instantiate('DISP', form(slot))[1:])
            elif slot == 'titl':
                hdr.append(['TITL', 'c02', 'header', 'history', str(pn)])
            else:
                hdr.append([kw] + instantiate(kw, form(slot)))
            # body instructions in front of SFAC, on every third path, behind every slot that allows it
            if slot in pre_ok and (pn + i) % 3 == 0:
                hdr.append(list(PRE_INSTR[(pn + i) % len(PRE_INSTR)]))
        cnt = {}
        for sl in path:
            cnt[sl] = cnt.get(sl, 0) + 1
        hist = ','.join(f'{sl}{cnt[sl]}' for sl in ('symm', 'neut', 'sfac', 'disp') if sl in cnt) + \
            (',pre' if any(h[0] in ('MORE', 'REM', 'TEMP', 'SIZE') for h in hdr) else '')
        unit = hdr[-1]
        c = dict(stream='valid', kw='UNIT', toks=unit[1:], pos='header', header=hdr, hist=hist, nsfac=nel)
        if pn % 4 == 1:
            c['via'] = 'file'           # second entry point
        if pn % 4 == 3:
            c['via'] = 'second-call'    # on an object that has parsed another header before
        out.append(c)
    return out


def repeat_cases(valid):
    """every body instruction (bare and longest form) and FVAR two and three times in a row: the second meets whatever the
    handler of the first left behind"""
    pick = {}
    for c in valid:
        if c.get('spell') or c.get('kwtext') or c.get('via') or c.get('layout') is not None or c['pos'] not in ('instr', 'fvar'):
            continue
        lo, hi = pick.get(c['kw'], (c, c))
        pick[c['kw']] = (c if len(c['toks']) < len(lo['toks']) else lo, c if len(c['toks']) > len(hi['toks']) else hi)
    out = []
    for kw, (lo, hi) in pick.items():
        for c in ([lo] if lo is hi else [lo, hi]):
            for n in (2, 3):
                out.append(dict(c, repeat=n, spell=f'repeated={n}'))
    return out


def context_cases(valid):
    """every body instruction (bare and longest form) behind every form of DEFS: its handler meets the DEFS object an
    earlier valid line left in force (restraints read their default esds from it), whichever parameters that line omitted"""
    plain = [c for c in valid if not (c.get('spell') or c.get('kwtext') or c.get('via') or c.get('layout') is not None) and c['pos'] == 'instr']
    defs = {}
    for c in plain:
        if c['kw'] == 'DEFS':
            defs[len(c['toks'])] = c
    pick = {}
    for c in plain:
        lo, hi = pick.get(c['kw'], (c, c))
        pick[c['kw']] = (c if len(c['toks']) < len(lo['toks']) else lo, c if len(c['toks']) > len(hi['toks']) else hi)
    out = []
    for kw, (lo, hi) in pick.items():
        for c in ([lo] if lo is hi else [lo, hi]):
            for n, d in sorted(defs.items()):
                out.append(dict(c, before=[['DEFS'] + list(d['toks'])], spell=f'behind-DEFS/{n}'))
    return out


# ----------------------------------------------------------------------------------------------------------------
# physical layout of valid lines

LAYOUTS = [
    ('wrap-mid', dict(wraps=['mid'])),
    ('wrap-mid|blank-behind-eq', dict(wraps=['mid'], tails=[' '])),
    ('wrap-mid|tab-behind-eq', dict(wraps=['mid'], tails=['\t'])),
    ('wrap-last|blanks-behind-eq', dict(wraps=['last'], tails=['   '])),
    ('wrap-first|blank-tab-behind-eq', dict(wraps=['first'], tails=[' \t '])),
    ('wrap-mid|comment-behind-eq', dict(wraps=['mid'], tails=['  ! comment'])),
    ('wrap-mid|eq-in-comment-behind-eq', dict(wraps=['mid'], tails=[' ! a=b ='])),
    ('wrap-twice|blank-behind-2nd-eq', dict(wraps=['third', 'twothirds'], tails=['', ' '])),
    ('wrap-twice|tab-behind-1st-eq', dict(wraps=['third', 'twothirds'], tails=['\t', ''], indent=' ')),
    ('wrap-mid|wide-indent|trailing-blanks', dict(wraps=['mid'], indent=' ' * 12, trail='  ')),
    ('trailing-blanks', dict(trail='  ')),
    ('trailing-tab', dict(trail='\t')),
    ('trailing-comment-ending-in-eq', dict(trail=' ! comment =')),
    ('single-blank-separators', dict(sep=' ')),
    ('crlf', dict(crlf=True)),
    ('crlf|wrap-mid|blank-behind-eq', dict(crlf=True, wraps=['mid'], tails=[' '])),
]
TAILS = ['', ' ', '  ', '\t', ' \t', '\t ', '   ', ' !', ' ! c', ' !=', ' ! = =', '!x']
TRAILS = ['', ' ', '\t', '  \t', ' ! c', ' ! c =', ' !=']


def layout_cases(tab, valid, rng, nrandom):
    out = []
    # systematic: the longest form of every keyword at its own place, every atom shape — in every layout
    by_kw = {}
    for c in valid:
        if c.get('spell') or c.get('kwtext') or c.get('via') or not c.get('symm', True) or c.get('wrap') or c['pos'] in ('frag', 'header'):
            continue
        if c['pos'] not in ('instr', 'atomline') and c['pos'] in BODY_POS:
            continue
        if c['pos'] == 'atomline':
            if 'big' in [classify(t) for t in c['toks'][1:4]]:
                continue        # (the open finding)
            by_kw.setdefault(('ATOM', len(c['toks'])), c)
            continue
        if c['pos'] == 'tail':
            continue
        old = by_kw.get(c['kw'])
        if old is None or len(c['toks']) > len(old['toks']):
            by_kw[c['kw']] = c
    base = [c for c in by_kw.values() if not no_layout([c['kw']])]
    for c in base:
        for name, lay in LAYOUTS:
            if lay.get('wraps') and len(c['toks']) + 1 < (3 if len(lay['wraps']) > 1 else 2):
                continue        # nothing to wrap
            out.append(dict(c, layout=lay, lname=name))
    # the same layouts on EVERY line of the file (sentinel atoms, restraint, HKLF, END, WGHT, Q-peak included)
    amb = [c for c in base if c['kw'] in ('SADI', 'HKLF', 'SFAC', 'FVAR') or c['pos'] == 'atomline' and len(c['toks']) in (6, 11)]
    for c in amb:
        for name, lay in LAYOUTS:
            out.append(dict(c, layout=lay, lname=name, ambient=True))
    # random: any valid line, any cut points, any decoration
    plain = [c for c in valid if not c.get('via') and not c.get('wrap') and c['pos'] not in ('frag', 'tail') and not no_layout([c['kw']])
             and not (c['pos'] == 'atomline' and 'big' in [classify(t) for t in c['toks'][1:4]])]
    for _ in range(nrandom):
        c = rng.choice(plain)
        n = len(c['toks']) + 1
        nw = rng.choice([0, 1, 1, 1, 2, 3])
        wraps = sorted(set(rng.randrange(1, n) for _ in range(nw))) if n > 1 else []
        lay = dict(wraps=wraps, tails=[rng.choice(TAILS) for _ in wraps], trail=rng.choice(TRAILS), indent=rng.choice([' ', '  ', '    ', ' ' * 9]),
                   sep=rng.choice([' ', '  ', '   ']), crlf=rng.random() < 0.15)
        out.append(dict(c, layout=lay, lname='random', ambient=rng.random() < 0.3, **(dict(via='file') if rng.random() < 0.2 else {})))
    return out


def near_cases(rng, valid, n):
    """one-token damage of valid lines: not valid input any more"""
    out = []
    cand = [c for c in valid if c['pos'] in ('instr', 'atoms', 'atomline') and not c.get('kwtext') and not c.get('via') and c.get('layout') is None]
    repl = dict(int=['2.5', 'C1', '5E-1'], num=['C1', '-x,', '7', '25E-1'], dnum=['C1'], big=['C1', '0.5', '1e1'], word=['2.5', '3', '1e0'], sym=['C1', '1.5'], enum=['C1', '2'])
    for _ in range(n):
        c = dict(rng.choice(cand))
        toks = list(c['toks'])
        c['stream'] = 'near'
        r = rng.random()
        if toks and r < 0.45:
            toks.pop(rng.randrange(len(toks)) if rng.random() < 0.4 else -1)
            c['mut'] = 'drop'
        elif toks and r < 0.9:
            i = rng.randrange(len(toks))
            toks[i] = rng.choice(repl[classify(toks[i])])
            c['mut'] = 'class'
        else:
            toks.append(rng.choice(['2.5', 'C1', '3']))
            c['mut'] = 'extra'
        c['toks'] = toks
        out.append(c)
    return out


def mutants(rng, valid, n):
    out = []
    alphabet = ' =!_$.,+-0123456789ABCEFHILMNOPRSTUXYZabcxyz\t()/:*<>'
    plain = [c for c in valid if not c.get('via') and c.get('layout') is None]
    for _ in range(n):
        base = rng.choice(plain)
        lines = build(base)
        if rng.random() < 0.5:       # a few more valid instructions to damage
            extra = [rng.choice(valid) for _ in range(rng.randint(1, 4))]
            at = rng.randrange(8, len(lines) - 4)
            lines[at:at] = [([e.get('kwtext', e['kw'])] + e['toks'], '') for e in extra if e['pos'] in BODY_POS]
        text, _, _ = render(lines, wrap=True)
        how = rng.choice(['byte', 'byte', 'bytes', 'token', 'line-del', 'line-dup', 'line-swap', 'truncate', 'join', 'case', 'equals'])
        if how in ('byte', 'bytes'):
            t = list(text)
            for _ in range(1 if how == 'byte' else rng.randint(2, 12)):
                i = rng.randrange(len(t))
                r = rng.random()
                if r < 0.4:
                    t[i] = rng.choice(alphabet)
                elif r < 0.7:
                    del t[i]
                else:
                    t.insert(i, rng.choice(alphabet))
            text = ''.join(t)
        else:
            ls = text.split('\n')
            i = rng.randrange(len(ls) - 1)
            if how == 'token':
                tk = ls[i].split()
                if tk:
                    j = rng.randrange(len(tk))
                    tk[j] = rng.choice(['', 'C1', '-1.2', '1e400', 'nan', '_', '$1', '=', '!', '12345678901234567890', '1.2.3', '+', '-', 'END', '10.5', tk[j] * 2])
                    ls[i] = ' '.join(tk)
            elif how == 'line-del':
                del ls[i]
            elif how == 'line-dup':
                ls.insert(i, ls[i])
            elif how == 'line-swap':
                j = rng.randrange(len(ls) - 1)
                ls[i], ls[j] = ls[j], ls[i]
            elif how == 'truncate':
                ls[i] = ls[i][:rng.randrange(len(ls[i]) + 1)]
            elif how == 'join':
                ls[i] = ls[i] + ' ' + ls.pop(i + 1) if i + 1 < len(ls) else ls[i]
            elif how == 'case':
                ls[i] = ls[i].lower()
            elif how == 'equals':
                ls[i] = ls[i] + ' ='
            text = '\n'.join(ls)
        out.append(dict(stream='mutant', kw=base['kw'], toks=base['toks'], pos=base['pos'], text=text, mut=how))
    return out


HOSTILE = ['0', '-0', '0.0', '1e999', '-1e999', 'nan', 'inf', '99999999999999999999', '1e-320', '-7', '8', '1_0']


def hostile_cases(valid):
    """deterministic part of the malformed stream: every valid instruction with one numeric parameter replaced by an
    extreme / degenerate value (zero, overflow, nan, inf, huge, denormal, out-of-range small integers) — the damage that
    makes a parser fail with *unusual* exception types (KeyError, ZeroDivisionError, OverflowError ...)"""
    out = []
    n = 0
    for c in valid:
        if c.get('spell') or c.get('kwtext') or c.get('via') or c['pos'] in ('pre', 'atoms', 'post', 'frag', 'tail', 'header') or not c.get('symm', True) \
                or c.get('layout') is not None:
            continue
        nums = [i for i, t in enumerate(c['toks']) if classify(t) in ('int', 'num', 'big', 'dnum')]
        if not nums:
            continue
        for h in HOSTILE:
            i = nums[n % len(nums)]
            n += 1
            toks = list(c['toks'])
            toks[i] = h
            lines = build(dict(c, toks=toks))
            text, _, _ = render(lines)
            out.append(dict(stream='mutant', kw=c['kw'], toks=toks, pos=c['pos'], text=text, mut='hostile-value'))
    return out


def include_mutants(valid):
    """malformed include set-ups, read with read_file in quiet mode: nothing may raise"""
    base = next(c for c in valid if c['kw'] == 'SADI' and c['pos'] == 'atoms' and not c.get('via'))
    lines, fl = build2(dict(base, via='nested'))
    _, _, _, per = render(lines, files=fl)
    main, a, b = per['main'], per[INC_A], per[INC_B]
    sets = {
        'missing-file': {'main': main.replace('+' + INC_A, '+c02_does_not_exist.ins')},
        'missing-nested-file': {'main': main, INC_A: a},
        'includes-itself': {'main': main.replace('+' + INC_A, '+c02_main.res')},
        'mutual-recursion': {'main': main, INC_A: a, INC_B: b + '+' + INC_A + '\n'},
        'same-file-twice': {'main': main.replace('+' + INC_A + '\n', '+' + INC_A + '\n+' + INC_A + '\n'), INC_A: a, INC_B: b},
        'empty-file': {'main': main, INC_A: ''},
        'plus-alone': {'main': main.replace('+' + INC_A, '+')},
        'plus-plus': {'main': main.replace('+' + INC_A, '++' + INC_A), INC_A: a, INC_B: b},
        'blank-after-plus': {'main': main.replace('+' + INC_A, '+ ' + INC_A), INC_A: a, INC_B: b},
        'missing-directory': {'main': main.replace('+' + INC_A, '+no_such_dir/' + INC_A)},
        'not-text': {'main': main, INC_A: list(b'\xff\xfe\x00C1 \x80\n')},
        'include-is-directory': {'main': main.replace('+' + INC_A, '+.')},
        'truncated-include': {'main': main, INC_A: a, INC_B: 'SADI C1 C2 =\n'},
    }
    return [dict(stream='mutant', kw='+', toks=[], pos='atoms', mut=k, files=v) for k, v in sets.items()]


def run(ctx):
    ctx.rule = ('one case = one instruction line (keyword, concrete tokens, residue suffix) at one position of a by-construction file, '
                'parsed in quiet, verbose and debug mode (or one header history / one physical layout of such a line / the line repeated / the line behind each form of DEFS); '
                'distinct by (keyword text, tokens, position, header variant, header history, layout, repetition); non-trivial = the '
                'line is dispatched to a branch of _parse_cards other than the final else (it reaches a handler that indexes / converts '
                'tokens or constructs a card) or is a FRAG block; near/mutant cases: distinct by text')
    ctx.assumptions = ['UNIT carries one number per SFAC element', 'residue numbers within -999..9999', 'DFIX/DANG/SADI carry atom pairs, '
                       'd > s, d and NCSY DN non-zero', 'no `=` inside TITL/REM text; `=` as continuation mark (with blanks, tabs or a `!` comment behind it) is '
                       'generated for every other keyword and for atoms: layout is not content, the expectation is the same',
                       'continuation lines begin with at least one blank (not a tab)',
                       'header = a path through the grammar of the specification (Slot.next): TITL CELL ZERR LATT SYMM* NEUT? SFAC+ DISP* UNIT, '
                       'body instructions allowed in front of SFAC',
                       'REM lines that imitate the residual summary of a .res file are not generated']
    tab = ctx.driver.one(dict(p='C02', op='table'))
    ctx.extra['syntax_table'] = dict(keywords=len(tab['syntax']), forms=sum(len(r['forms']) for r in tab['syntax']), atom_forms=len(tab['atoms']),
                                     dispatch_branches=tab['branches'], card_classes=tab['cards'])
    thorough = ctx.tier == 'thorough' or ctx.escalated
    valid = valid_cases(tab, suffixes=('', '_2', '_TOL', '_*') if thorough else ('', '_2'))
    ctx.exhaustive = True
    ctx.extra['product'] = ('every keyword x every form of the syntax table x every position x 3 modes; every path through the header grammar with '
                            'each slot <= %d times; every keyword (longest form) and atom shape x %d physical layouts (exhaustive in both tiers)' % (HEADER_REP, len(LAYOUTS)))
    valid += repeat_cases(valid)
    valid += context_cases(valid)
    valid += header_cases(tab)
    valid += layout_cases(tab, valid, ctx.rng, ctx.budget(300, 6000))
    near = near_cases(ctx.rng, valid, ctx.budget(600, 6000))
    mut = mutants(ctx.rng, valid, ctx.budget(1500, 50000))
    cases = valid + near + hostile_cases(valid) + include_mutants(valid) + mut
    for i in range(0, len(cases), 1000):
        evaluate(ctx, cases[i:i + 1000])

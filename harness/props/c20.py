"""
C20 — the quaternion fit returns the optimal proper rotation and places fragments.

Streams (DESIGN 3.2):
  fit    qtrfit() + rotmol() + rmsd()/centroid() on centred point sets
           vs spec: returned matrix proper (theorem q2mat_proper), exact copy -> RMSD 0 (exact_copy_zero_rmsd),
              optimality certificate on the model's 4x4 form N for the implementation's quaternion q:
              |Nq - (qNq)q| small, Sylvester pivots of (qNq + delta) - N positive, uNu <= qNq for sampled unit u
              (top_eigvec_optimal), Horn's identity n*rmsd^2 = Sx + Sy - 2 qNq (horn_identity), and directly:
              RMSD(impl rotation) <= RMSD(200 random proper rotations and perturbations of the optimum)
           vs model: `qtrfit` (Jacobi with fuel) quaternion up to sign / matrix, `rotmol`, `centroid`, `rmsd`
  frag   fit_fragment() on a fragment at an arbitrary position, fitted by a subset of its atoms
           vs spec: exact rigid copy -> every atom of the fragment lands on its rigidly transformed position
              (fit_fragment_places), reported RMSD = deviation of the fitted subset from the targets
              (fit_fragment_rmsd), output rigid and proper, subset centroid on target centroid, not improvable
           vs model: `fitFragment`
The property is scale invariant, so both streams draw the size of the point sets from 1e-10 .. 1e+6 (Angstrom
in metres .. huge) and every deviation is judged RELATIVE to the size of the point set (no absolute floors).
The rigid motions of the frag stream cover: rotation about the subset centroid + translation, rotation about the
subset centroid with NO net shift (noise-free and noisy), rotation about the origin, about an arbitrary point,
pure translation, identity.
Histories: the result of a fit must not depend on earlier fits. Every case is evaluated from a freshly reloaded
`shelxfile.fit.quatfit` (so a replay of one case sees exactly the state the run saw) and carries its own `prelude`:
0..3 earlier calls of qtrfit()/fit_fragment() with fewer / more / equally many points, whose results are discarded.
  seq    the module stays loaded over a whole history of 2..8 calls (a replay carries the whole history) and the CALLER'S
         LIST OBJECTS live through it (`World`): one list object per fragment / source list / target list, and in mode
         `aliased` the source list holds the fragment's own row objects (`source_atoms = [fragment_atoms[0], ...]`, the
         library's own example). Steps: the same call again; the same fragment + subset onto a new target list / onto the
         same target list with new numbers written into it; the fragment's coordinates CHANGED IN PLACE (translated,
         rotated, one fitted / one other atom moved, another unit of length, two fitted atoms exchanged) and fitted again
         with the source list kept or built again; another selection of atoms in a new list / put into the source list
         the caller holds; other fragments; qtrfit() on the same lists, repeated, and after their numbers were changed in
         place. Every step is judged like a frag / fit case on the numbers the lists hold at that moment (its result must
         not depend on what was fitted before nor on which objects carry the numbers), fit_fragment()/qtrfit() must leave
         the caller's lists as they were, and the whole history is run through the heap model `runH` (fit_fragment
         statement by statement on rows shared and written in place; theorems fitFragmentH_eq / _frame,
         history_reads_current: = fitFragment of the current numbers) and compared step by step.
  The frag stream builds its arguments the same three ways (`alias`: copies / source rows = fragment rows / in addition
  the target list IS the source list where both hold the same numbers).
Systematic part (first, identical in both tiers — the quick tier reaches every class by construction):
  (1) 7 idealised polyhedra x the 24 rotations of the cube as exact signed permutations (zero / exactly equal diagonal
      elements and exactly vanishing off-diagonal elements of the form: q == 0, equal eigenvalues, all-zero diagonal),
      some in other units;  (2) the unit of length decade by decade 1e-10 .. 1e+6, fit and frag, exact and noisy
      (theorems qtrfit_scale_invariant, fit_fragment_unit_free);  (3) rotation angles 1e-1 .. 1e-18 and noise 1e-16 .. 1e-6;
  (3b) idealised polyhedra with targets off by 1e-17 .. 1e-13 (negligible non-zero off-diagonal elements in the first
      sweep);  (4) fit -> change in place -> fit for every kind of change x source list kept / rebuilt x aliased / pooled
      rows, target / selection / qtrfit arguments changed in place, plain repetitions in all three object modes.
Only what the property states is observed (coordinates, matrix, RMSD; the sweep counter is not).
"""
import copy
import math
import random

from .. import core

TOL = 1e-9


# ------------------------------------------------------------------------------------------------
# the harness's own small linear algebra (independent of the code under test)

def unit_quat(rng):
    while True:
        q = [rng.gauss(0, 1) for _ in range(4)]
        n = math.sqrt(sum(x * x for x in q))
        if n > 1e-3:
            return [x / n for x in q]


def quat_to_R(q):
    """textbook rotation matrix of a unit quaternion (w, x, y, z), applied as R @ p"""
    w, x, y, z = q
    return [[w * w + x * x - y * y - z * z, 2 * (x * y - w * z), 2 * (x * z + w * y)],
            [2 * (x * y + w * z), w * w - x * x + y * y - z * z, 2 * (y * z - w * x)],
            [2 * (x * z - w * y), 2 * (y * z + w * x), w * w - x * x - y * y + z * z]]


def qmul(a, b):
    return [a[0] * b[0] - a[1] * b[1] - a[2] * b[2] - a[3] * b[3],
            a[0] * b[1] + a[1] * b[0] + a[2] * b[3] - a[3] * b[2],
            a[0] * b[2] - a[1] * b[3] + a[2] * b[0] + a[3] * b[1],
            a[0] * b[3] + a[1] * b[2] - a[2] * b[1] + a[3] * b[0]]


def apply(R, pts):
    return [[R[0][0] * p[0] + R[0][1] * p[1] + R[0][2] * p[2],
             R[1][0] * p[0] + R[1][1] * p[1] + R[1][2] * p[2],
             R[2][0] * p[0] + R[2][1] * p[1] + R[2][2] * p[2]] for p in pts]


def cen(pts):
    n = len(pts)
    return [math.fsum(p[i] for p in pts) / n for i in range(3)]


def shift(pts, v, sign=1.0):
    return [[p[0] + sign * v[0], p[1] + sign * v[1], p[2] + sign * v[2]] for p in pts]


def ssd(a, b):
    return math.fsum((p[i] - q[i]) ** 2 for p, q in zip(a, b) for i in range(3))


def rms(a, b):
    return math.sqrt(ssd(a, b) / len(a))


def det3(m):
    return (m[0][0] * (m[1][1] * m[2][2] - m[1][2] * m[2][1]) - m[0][1] * (m[1][0] * m[2][2] - m[1][2] * m[2][0])
            + m[0][2] * (m[1][0] * m[2][1] - m[1][1] * m[2][0]))


def ortho_defect(m):
    """max |(MtM - 1)_ij|, |(MMt - 1)_ij|"""
    d = 0.0
    for i in range(3):
        for j in range(3):
            e = 1.0 if i == j else 0.0
            d = max(d, abs(sum(m[k][i] * m[k][j] for k in range(3)) - e), abs(sum(m[i][k] * m[j][k] for k in range(3)) - e))
    return d


def small_quat(rng, angle):
    ax = unit_quat(rng)[1:]
    n = math.sqrt(sum(x * x for x in ax)) or 1.0
    s = math.sin(angle / 2) / n
    return [math.cos(angle / 2), ax[0] * s, ax[1] * s, ax[2] * s]


# ------------------------------------------------------------------------------------------------
# generators

SPECIAL_QUATS = [
    [1.0, 0.0, 0.0, 0.0],                                     # identity: the form is already diagonal
    [0.0, 1.0, 0.0, 0.0], [0.0, 0.0, 1.0, 0.0], [0.0, 0.0, 0.0, 1.0],      # 180 degrees about an axis (q0 = 0)
    [math.sqrt(0.5), math.sqrt(0.5), 0.0, 0.0], [math.sqrt(0.5), 0.0, 0.0, -math.sqrt(0.5)],   # 90 degrees
    [0.5, 0.5, 0.5, 0.5], [0.0, math.sqrt(0.5), math.sqrt(0.5), 0.0],
]


def rand_points(rng, n, shape):
    size = rng.choice([1.0, 2.5, 6.0, 12.0])
    if shape == 'planar':
        a, b = unit_quat(rng)[:3], unit_quat(rng)[:3]
        return [[size * (u * a[i] + v * b[i]) for i in range(3)] for u, v in
                ((rng.uniform(-1, 1), rng.uniform(-1, 1)) for _ in range(n))]
    if shape == 'ideal':
        # idealised polyhedra of a fragment library, axis-aligned and exactly representable: octahedron (arms of equal
        # or different lengths), cube, tetrahedron, square — with the special rotations the correlation sums cancel
        # exactly (zero diagonal, equal diagonal elements, zero off-diagonal elements of the 4x4 form)
        a, b, c = (rng.choice([1.0, 1.5, 2.0, 3.0]) for _ in range(3))
        if rng.random() < 0.5:
            b = c = a
        kind = rng.choice(['octa', 'cube', 'tetra', 'square+1'])
        if kind == 'octa':
            pts = [[a, 0.0, 0.0], [-a, 0.0, 0.0], [0.0, b, 0.0], [0.0, -b, 0.0], [0.0, 0.0, c], [0.0, 0.0, -c]]
        elif kind == 'cube':
            pts = [[sx * a, sy * b, sz * c] for sx in (1.0, -1.0) for sy in (1.0, -1.0) for sz in (1.0, -1.0)]
        elif kind == 'tetra':
            pts = [[a, a, a], [a, -a, -a], [-a, a, -a], [-a, -a, a]]
        else:
            pts = [[a, 0.0, 0.0], [-a, 0.0, 0.0], [0.0, b, 0.0], [0.0, -b, 0.0], [0.0, 0.0, c], [0.0, 0.0, 0.0]]
        if rng.random() < 0.3:
            pts.append([0.0, 0.0, 0.0])
        return pts
    if shape == 'grid':  # coordinates like a fragment library: few decimals, repeated values
        return [[round(rng.uniform(-size, size), 1) for _ in range(3)] for _ in range(n)]
    return [[rng.uniform(-size, size) for _ in range(3)] for _ in range(n)]


def make_rotation(rng):
    r = rng.random()
    if r < 0.25:
        return list(rng.choice(SPECIAL_QUATS)), 'special'
    if r < 0.35:
        return small_quat(rng, rng.choice([1e-6, 1e-3, 0.05, 10.0 ** rng.uniform(-8.0, -1.0)])), 'small'
    return unit_quat(rng), 'random'


def rand_scale(rng):
    """size of the point set in the unit it is expressed in: half of the cases ordinary (1), the rest log-uniform
    over 1e-10 .. 1e+6"""
    r = rng.random()
    if r < 0.5:
        return 1.0
    if r < 0.6:
        return rng.choice([1e-10, 1e-8, 1e-6, 1e-5, 1e-4, 1e-3, 1e-2, 0.1, 10.0, 1e3, 1e6])
    return 10.0 ** rng.uniform(-10.0, 6.0)


def scaled(pts, k):
    return [[c * k for c in p] for p in pts]


def scale_tag(k):
    return 'scale=1' if k == 1.0 else 'scale<1e-6' if k < 1e-6 else 'scale<1e-3' if k < 1e-3 else 'scale<1' if k < 1 else \
        'scale<=1e3' if k <= 1e3 else 'scale>1e3'


def make_prelude(rng):
    """earlier calls in the same interpreter state: (kind, inputs) with point counts below and above the usual ones"""
    pre = []
    for _ in range(rng.choice([0, 0, 1, 1, 2, 3])):
        if rng.random() < 0.5:
            c = make_fit_case(rng, prelude=False)
            pre.append(dict(kind='fit', src=c['src'], tgt=c['tgt']))
        else:
            c = make_frag_case(rng, prelude=False)
            pre.append(dict(kind='frag', frag=c['frag'], idx=c['idx'], tgt=c['tgt']))
    return pre


def make_fit_case(rng, prelude=True, scale=None, noise=None, shape=None, rot=None):
    """`scale`, `noise`, `shape`, `rot` = (quaternion, kind) fix what is otherwise drawn (systematic ladders)"""
    n = rng.choice([3, 3, 4, 5, 6, 8, 10, 14, 20, 30, rng.randint(3, 30)])
    shape = shape or rng.choices(['box', 'planar', 'grid', 'ideal'], [6, 1, 2, 1])[0]
    src = rand_points(rng, n, shape)
    src = shift(src, cen(src), -1.0)
    q, qkind = rot or make_rotation(rng)
    forced_noise = noise
    if shape == 'ideal' and rng.random() < 0.7:
        q, qkind = list(rng.choice(SPECIAL_QUATS)), 'special'
    noise = rng.choice([0.0, 0.0, 0.0, 1e-4, 0.02, 0.3, 2.0])
    if shape == 'ideal' and rng.random() < 0.7:
        noise = 0.0
    if forced_noise is not None:
        noise = forced_noise
    mirror = noise > 0 and rng.random() < 0.1
    tgt = apply(quat_to_R(q), src)
    if shape == 'ideal' and rng.random() < 0.5:
        # one of the 24 rotations of the cube as an EXACT signed permutation matrix (no rounding in the target at all)
        perm = rng.choice([(0, 1, 2), (1, 2, 0), (2, 0, 1), (0, 2, 1), (2, 1, 0), (1, 0, 2)])
        even = perm in ((0, 1, 2), (1, 2, 0), (2, 0, 1))
        sg = [rng.choice([1.0, -1.0]) for _ in range(3)]
        if (sg[0] * sg[1] * sg[2] > 0) != even:
            sg[2] = -sg[2]
        tgt = [[sg[i] * p[perm[i]] for i in range(3)] for p in src]
        qkind = 'cube-group'
    if mirror:
        tgt = [[-p[0], p[1], p[2]] for p in tgt]
    if noise:
        tgt = [[c + rng.gauss(0, noise) for c in p] for p in tgt]
    tgt = shift(tgt, cen(tgt), -1.0)
    k = rand_scale(rng) if scale is None else scale
    if k != 1.0:
        src, tgt = scaled(src, k), scaled(tgt, k)
        src, tgt = shift(src, cen(src), -1.0), shift(tgt, cen(tgt), -1.0)
    return dict(kind='fit', src=src, tgt=tgt, quat=q, qkind=qkind, noise=noise, shape=shape, mirror=mirror, scale=k,
                sseed=rng.getrandbits(48), prelude=make_prelude(rng) if prelude else [])


def make_frag_case(rng, prelude=True, scale=None, noise=None, motion=None):
    forced_noise, forced_motion = noise, motion
    n = rng.choice([3, 4, 5, 7, 10, 14, 20, 30, rng.randint(3, 30)])
    shape = rng.choices(['box', 'grid'], [3, 1])[0]
    frag = rand_points(rng, n, shape)
    # arbitrary position of the fragment; the fitted subset gets a centroid well away from the origin
    pos = [rng.choice([-1, 1]) * rng.uniform(0.5, 25.0) for _ in range(3)] if rng.random() < 0.9 else [0.0, 0.0, 0.0]
    frag = shift(frag, pos)
    k = rng.randint(3, n)
    idx = sorted(rng.sample(range(n), k)) if rng.random() < 0.8 else rng.sample(range(n), k)
    src = [frag[i] for i in idx]
    pc = cen(src)
    q, qkind = make_rotation(rng)
    # the rigid motion p -> R(p - c0) + c0 + t, recorded as  R(p - pc) + trans  (trans = image of the subset centroid)
    motion = rng.choices(['general', 'about-centroid', 'about-origin', 'about-point', 'translation', 'identity'],
                         [8, 4, 2, 2, 2, 1])[0]
    motion = forced_motion or motion
    if motion in ('translation', 'identity'):
        q, qkind = [1.0, 0.0, 0.0, 0.0], 'special'
    elif qkind == 'special' and q == [1.0, 0.0, 0.0, 0.0] and motion == 'about-centroid':
        q, qkind = unit_quat(rng), 'random'
    R = quat_to_R(q)
    if motion == 'general':
        trans = [rng.uniform(-30, 30) for _ in range(3)]
    elif motion in ('about-centroid', 'identity'):
        trans = list(pc)
    elif motion == 'about-origin':
        trans = apply(R, [pc])[0]
    elif motion == 'about-point':
        c0 = [rng.uniform(-20, 20) for _ in range(3)]
        trans = shift(apply(R, shift([pc], c0, -1.0)), c0)[0]
    else:
        trans = shift([pc], [rng.uniform(-30, 30) for _ in range(3)])[0]
    noise = rng.choice([0.0, 0.0, 0.0, 1e-4, 0.02, 0.3])
    if forced_noise is not None:
        noise = forced_noise
    tgt = shift(apply(R, shift(src, pc, -1.0)), trans)
    if motion == 'identity' and not noise:
        tgt = [list(p) for p in src]      # the fragment fitted onto itself: the very same numbers
    if noise:
        tgt = [[c + rng.gauss(0, noise) for c in p] for p in tgt]
        if motion in ('about-centroid', 'identity'):   # keep the centroids coincident
            tgt = shift(tgt, [a - b for a, b in zip(pc, cen(tgt))])
    k = rand_scale(rng) if scale is None else scale
    if k != 1.0:
        frag, tgt, trans = scaled(frag, k), scaled(tgt, k), [c * k for c in trans]
    # how the caller builds the arguments: `rows` = the source list holds the fragment's own row objects
    # (`source_atoms = [fragment_atoms[0], fragment_atoms[1], fragment_atoms[10]]`, as in the library's example),
    # `rows+target` = in addition the target list IS the source list (only where both hold the same numbers), `none` = copies
    alias = rng.choice(['none', 'rows', 'rows'])
    if motion == 'identity' and not noise and rng.random() < 0.5:
        alias = 'rows+target'
    return dict(kind='frag', frag=frag, idx=idx, tgt=tgt, quat=q, qkind=qkind, trans=trans, noise=noise, shape=shape,
                motion=motion, scale=k, alias=alias, sseed=rng.getrandbits(48), prelude=make_prelude(rng) if prelude else [])


# ------------------------------------------------------------------------------------------------
# the code under test

def ename(e):
    return type(e).__name__


def fresh_module(case):
    """a freshly executed shelxfile.fit.quatfit (no state left from other cases), then the case's own history"""
    import importlib
    from shelxfile.fit import quatfit as Q
    Q = importlib.reload(Q)
    for pre in case.get('prelude') or []:
        try:
            if pre['kind'] == 'fit':
                Q.qtrfit(copy.deepcopy(pre['src']), copy.deepcopy(pre['tgt']), 30)
            else:
                fr = copy.deepcopy(pre['frag'])
                Q.fit_fragment(fr, [list(fr[i]) for i in pre['idx']], copy.deepcopy(pre['tgt']))
        except Exception:  # noqa  (the prelude is history only; its own outcome is judged where it is a case itself)
            pass
    return Q


def impl_fit(case):
    Q = fresh_module(case)
    out = {}
    try:
        q, U, _sweeps = Q.qtrfit(copy.deepcopy(case['src']), copy.deepcopy(case['tgt']), 30)
        U = [list(map(float, row)) for row in U]
        fitted = Q.rotmol(copy.deepcopy(case['src']), U)
        out.update(q=[float(x) for x in q], U=U, fitted=[list(map(float, p)) for p in fitted],
                   rmsd=float(Q.rmsd(fitted, case['tgt'])), rmsd_before=float(Q.rmsd(case['src'], case['tgt'])),
                   centroid=[float(x) for x in Q.centroid(case['tgt'])])
    except Exception as e:  # noqa
        out['raise'] = ename(e)
    return out


def impl_frag(case):
    Q = fresh_module(case)
    frag = copy.deepcopy(case['frag'])
    alias = case.get('alias', 'none')
    src = [list(frag[i]) for i in case['idx']] if alias == 'none' else [frag[i] for i in case['idx']]
    tgt = src if alias == 'rows+target' else copy.deepcopy(case['tgt'])
    try:
        coords, r = Q.fit_fragment(frag, src, tgt)
        return dict(coords=[list(map(float, p)) for p in coords], rms=float(r))
    except Exception as e:  # noqa
        return {'raise': ename(e)}


# ------------------------------------------------------------------------------------------------

def history_tag(case, n):
    pre = case.get('prelude') or []
    if not pre:
        return 'history=none'
    m = min(len(p['src']) if p['kind'] == 'fit' else len(p['idx']) for p in pre)
    return 'history=fewer-points-before' if m < n else 'history=not-fewer-before'


def noise_tag(x):
    return 'noise=0' if x == 0 else 'noise=small' if x < 0.01 else 'noise=large'


def alt_rotations(rng):
    """200 alternatives: 120 random proper rotations, 80 perturbations of the optimum (as left factors)"""
    alts = [('random', quat_to_R(unit_quat(rng))) for _ in range(120)]
    for ang in (1e-4, 1e-3, 1e-2, 0.1):
        alts += [('perturb', quat_to_R(small_quat(rng, ang))) for _ in range(20)]
    return alts


def eval_fit(ctx, case, obs, fitr, cert, rot, prefix='C20|fit', pcase=None, stream='fit', extra_tags=()):
    sig0 = f'{prefix}|{noise_tag(case["noise"])}'
    n = len(case['src'])
    # the size of the point set (rms radius): every deviation below is judged relative to it
    size = math.sqrt(max(ssd(case['src'], [[0.0] * 3] * n), ssd(case['tgt'], [[0.0] * 3] * n)) / n)
    tags = ['fit', f'n={"3" if n == 3 else "4-9" if n < 10 else "10-30"}', noise_tag(case['noise']), 'rot=' + case['qkind'],
            'shape=' + case['shape'], scale_tag(case.get('scale', 1.0)), history_tag(case, n)] + (['mirror'] if case.get('mirror') else [])
    tags = (list(extra_tags) + [t for t in tags if not t.startswith('history=')]) if extra_tags else tags
    ctx.count(['fit', case['src'], case['tgt']], nontrivial=n >= 3 and case['qkind'] != 'special' or case['noise'] > 0,
              tags=tags, sample=dict(stream='fit', n=n, noise=case['noise'], rot=case['qkind'], size=size, q=obs.get('q'), rmsd=obs.get('rmsd')))
    payload = dict(case=pcase or case, stream=stream, actual={k: obs.get(k) for k in ('q', 'U', 'rmsd', 'raise')},
                   model=dict(q=fitr.get('q'), U=fitr.get('U')) if fitr else None)
    if 'raise' in obs:
        ctx.fail(sig0 + '|raise=' + obs['raise'], f'qtrfit/rotmol/rmsd raised {obs["raise"]} on a non-degenerate centred point set (n={n})', payload)
        return
    U = obs['U']
    # --- proper rotation -------------------------------------------------------------------------
    od, dt = ortho_defect(U), det3(U)
    if od > TOL or abs(dt - 1.0) > TOL:
        ctx.fail(sig0 + '|not-proper', f'returned matrix is not a proper rotation: max|UtU-1| = {od:.3g}, det = {dt!r}',
                 dict(payload, expected='UtU = UUt = 1, det = +1'))
        return
    # --- exact copy -> zero deviation ------------------------------------------------------------
    if case['noise'] == 0 and not obs['rmsd'] <= 1e-7 * size:
        ctx.fail(sig0 + '|exact-copy', f'target is an exactly rotated copy of the source (n={n}, size {size:.3g}), RMSD after the fit is '
                 f'{obs["rmsd"]:.6g} = {obs["rmsd"] / size:.3g} of the size', dict(payload, expected=0.0))
    # --- optimality: certificate on the model's form ---------------------------------------------
    scale = max(abs(x) for x in cert['N']) or size * size
    lam = cert['lam']
    if abs(cert['qnorm2'] - 1.0) > TOL:
        ctx.fail(sig0 + '|quat-norm', f'returned quaternion has squared norm {cert["qnorm2"]!r}', payload)
    resid = math.sqrt(cert['resid2'])
    if resid > 1e-7 * scale:
        ctx.fail(sig0 + '|not-eigenvector', f'returned quaternion is not an eigenvector of the form: |Nq - (qNq)q| = {resid:.3g} (scale {scale:.3g})',
                 dict(payload, expected='N q = lambda q'))
    if not all(p > 0 for p in cert['pivots']):
        ctx.fail(sig0 + '|not-top-eigenvalue', f'qNq = {lam!r} is not the largest eigenvalue of the form (pivots of (lambda+delta)-N: {cert["pivots"]})',
                 dict(payload, expected='lambda >= all eigenvalues'))
    worst = max(cert['sample_quads']) if cert['sample_quads'] else lam
    if worst > lam + TOL * scale:
        ctx.fail(sig0 + '|not-top-eigenvalue', f'a sampled unit quaternion has uNu = {worst!r} > qNq = {lam!r}',
                 dict(payload, expected='uNu <= lambda'))
    # --- Horn reference: n*rmsd^2 = Sx + Sy - 2 qNq  (and the model's own fold / the direct sum) ---
    got_ssd = obs['rmsd'] ** 2 * n
    for name in ('ssd_horn', 'ssd_direct'):
        if not core.close(got_ssd, cert[name], 1e-9 * scale, 1e-9):  # scale ~ n * size^2
            ctx.fail(sig0 + '|horn', f'n*RMSD^2 after the fit = {got_ssd!r}, Horn reference ({name}) = {cert[name]!r}',
                     dict(payload, expected=cert[name]))
            break
    # --- optimality: directly against other proper rotations -------------------------------------
    rng = random.Random(case['sseed'])
    best = obs['rmsd']
    for kind, R in alt_rotations(rng):
        other = rms(apply(R, obs['fitted'] if kind == 'perturb' else case['src']), case['tgt'])
        if other < best - TOL * size:
            ctx.fail(sig0 + '|not-optimal', f'RMSD after the fit {best!r}, but a {kind} proper rotation reaches {other!r} (n={n}, size {size:.3g})',
                     dict(payload, expected=f'<= {other!r}', better_rotation=R, rotation_kind=kind))
            break
    if case['noise'] == 0 and not case.get('mirror'):
        # known rotation: the fitted source is the target, point by point
        dev = max(abs(a - b) for p, t in zip(obs['fitted'], case['tgt']) for a, b in zip(p, t))
        if dev > 1e-7 * size and obs['rmsd'] <= 1e-7 * size:
            ctx.fail(sig0 + '|known-rotation', f'fitted coordinates differ from the rotated copy by {dev:.3g}', payload)
    # --- correspondence: model of qtrfit / rotmol / centroid / rmsd --------------------------------
    if not fitr.get('ok'):
        ctx.fail(sig0 + '|model-raises', f'model raises {fitr.get("why")} where the implementation returns', payload, kind='correspondence')
        return
    mq = fitr['q']
    sgn = 1.0 if sum(a * b for a, b in zip(mq, obs['q'])) >= 0 else -1.0
    gap = fitr['evals'][3] - fitr['evals'][2]
    if gap > 1e-6 * scale:  # with a (numerically) double top eigenvalue the eigenvector is not an observable
        if any(not core.close(a, b, 1e-8, 0) for a, b in zip([x for r in U for x in r], fitr['U'])):
            ctx.fail(sig0 + '|model-U', 'returned matrix differs from the model of qtrfit', payload, kind='correspondence')
        elif any(not core.close(sgn * a, b, 1e-8, 0) for a, b in zip(mq, obs['q'])):
            ctx.fail(sig0 + '|model-q', 'returned quaternion differs from the model of qtrfit', payload, kind='correspondence')
    if any(not core.close(a, b, 1e-9 * size, 1e-9) for p, t in zip(obs['fitted'], rot['rot']) for a, b in zip(p, t)):
        ctx.fail(sig0 + '|model-rotmol', 'rotmol() differs from the model', dict(payload, model=rot['rot'][:3]), kind='correspondence')
    if any(not core.close(a, b, 1e-9 * size, 1e-9) for p, t in zip(obs['fitted'], rot['spec_rot']) for a, b in zip(p, t)):
        ctx.fail(sig0 + '|rotmol-convention', 'rotmol(x, U) is not the product of the transpose of U with x',
                 dict(payload, expected=rot['spec_rot'][:3]))
    if rot['centroid'] is None or any(not core.close(a, b, 1e-9 * size, 1e-9) for a, b in zip(obs['centroid'], rot['centroid'])):
        ctx.fail(sig0 + '|model-centroid', 'centroid() differs from the model', dict(payload, model=rot['centroid']), kind='correspondence')
    if not core.close(obs['rmsd_before'], rot['rmsd'], 1e-9 * size, 1e-9):
        ctx.fail(sig0 + '|model-rmsd', f'rmsd() = {obs["rmsd_before"]!r} differs from the model {rot["rmsd"]!r}', payload, kind='correspondence')
    if not core.close(obs['rmsd_before'], rms(case['src'], case['tgt']), 1e-9 * size, 1e-9):
        ctx.fail(sig0 + '|rmsd-helper', f'rmsd() = {obs["rmsd_before"]!r} is not the root-mean-square deviation {rms(case["src"], case["tgt"])!r}', payload)


def eval_frag(ctx, case, obs, mod, prefix='C20|frag', pcase=None, stream='frag', extra_tags=()):
    sig0 = f'{prefix}|{noise_tag(case["noise"])}'
    frag, idx, tgt = case['frag'], case['idx'], case['tgt']
    n, k = len(frag), len(idx)
    src = [frag[i] for i in idx]
    pc, qc = cen(src), cen(tgt)
    off = math.sqrt(sum(x * x for x in pc))
    mag = max(abs(c) for p in frag + tgt for c in p)
    # size of the fitted point set (rms radius about its centroid); deviations are judged relative to it
    # (the coordinates themselves carry a rounding error of ~1e-16 of their magnitude)
    size = max(math.sqrt(ssd(src, [pc] * k) / k), 1e-6 * mag)
    shiftc = math.dist(pc, qc)
    tags = ['frag', noise_tag(case['noise']), 'rot=' + case['qkind'], 'subset=all' if k == n else 'subset=part',
            'centroid=0' if off < 1e-9 * mag else 'centroid!=0', 'motion=' + case.get('motion', 'general'),
            'net-shift=0' if shiftc < 1e-9 * mag else 'net-shift!=0', scale_tag(case.get('scale', 1.0)), history_tag(case, k)]
    tags = (list(extra_tags) + [t for t in tags if not t.startswith('history=')]) if extra_tags else tags
    ctx.count(['frag', frag, idx, tgt], nontrivial=off > 1e-3 * size, tags=tags,
              sample=dict(stream='frag', n=n, subset=k, noise=case['noise'], centroid_offset=off, rms=obs.get('rms')))
    payload = dict(case=pcase or case, stream=stream, actual=obs, model=mod.get('model'))
    if 'raise' in obs:
        ctx.fail(sig0 + '|raise=' + obs['raise'], f'fit_fragment raised {obs["raise"]}', payload)
        return
    out = obs['coords']
    if len(out) != n:
        ctx.fail(sig0 + '|length', f'fit_fragment returned {len(out)} atoms for a fragment of {n}', payload)
        return
    sub = [out[i] for i in idx]
    # --- exact rigid copy: every atom lands where the rigid motion puts it ------------------------
    if case['noise'] == 0:
        want = shift(apply(quat_to_R(case['quat']), shift(frag, pc, -1.0)), case['trans'])
        dev_sub = max(abs(a - b) for p, t in zip(sub, tgt) for a, b in zip(p, t))
        if dev_sub > 1e-7 * size:
            ctx.fail(sig0 + '|placement', f'targets are a rigidly moved copy of the fitted atoms, but the fitted atoms end up {dev_sub:.4g} away '
                     f'from their targets (fragment of {n}, subset of {k}, size {size:.3g}, subset centroid {off:.3g} from the origin, '
                     f'motion {case.get("motion", "general")})',
                     dict(payload, expected=[want[i] for i in idx]))
        elif k >= 3 and case['shape'] != 'planar':
            dev = max(abs(a - b) for p, t in zip(out, want) for a, b in zip(p, t))
            ext = max(size, max(math.dist(p, pc) for p in frag))
            if dev > 1e-6 * ext and not collinear(src):
                ctx.fail(sig0 + '|placement-rest', f'the fitted atoms are on their targets, but other atoms of the fragment are {dev:.4g} away from '
                         f'their rigidly moved positions', dict(payload, expected=want))
    # --- reported RMSD is the deviation after the fit ---------------------------------------------
    after = rms(sub, tgt)
    if not core.close(obs['rms'], after, 1e-9 * size, 1e-9):
        ctx.fail(sig0 + '|rmsd-reported', f'reported RMSD {obs["rms"]!r}, deviation of the fitted atoms from their targets after the fit {after!r}',
                 dict(payload, expected=after))
    # --- the output is a proper rigid image of the input, optimally placed ------------------------
    rigid = 0.0
    rng = random.Random(case['sseed'])
    pairs = [(rng.randrange(n), rng.randrange(n)) for _ in range(60)]
    for a, b in pairs:
        rigid = max(rigid, abs(math.dist(out[a], out[b]) - math.dist(frag[a], frag[b])))
    if rigid > 1e-8 * size:
        ctx.fail(sig0 + '|not-rigid', f'interatomic distances of the fragment change by {rigid:.3g}', payload)
    elif n >= 4:
        a, b, c, d = rng.sample(range(n), 4)
        v0, v1 = triple(frag, a, b, c, d), triple(out, a, b, c, d)
        if abs(v0) > 1e-3 * size ** 3 and not core.close(v0, v1, 1e-7 * size ** 3, 1e-7):
            ctx.fail(sig0 + '|not-proper', f'signed volume of four atoms changes from {v0!r} to {v1!r}', payload)
    if case['noise'] > 0 and rigid <= 1e-8 * size:
        cs = cen(sub)
        if max(abs(a - b) for a, b in zip(cs, qc)) > 1e-8 * size:
            ctx.fail(sig0 + '|placement', f'centroid of the fitted atoms {cs} is not on the centroid of the targets {qc} '
                     f'(subset centroid {off:.3g} from the origin)', dict(payload, expected=qc))
        else:
            subc, tgtc = shift(sub, qc, -1.0), shift(tgt, qc, -1.0)
            for kind, R in alt_rotations(rng):
                other = rms(apply(R, subc), tgtc)
                if other < after - TOL * size:
                    ctx.fail(sig0 + '|not-optimal', f'deviation after the fit {after!r}, a further {kind} rotation about the centroid reaches {other!r}',
                             dict(payload, better_rotation=R))
                    break
    # --- correspondence ---------------------------------------------------------------------------
    m = mod.get('model')
    if m is None:
        ctx.fail(sig0 + '|model-raises', 'model of fit_fragment raises where the implementation returns', payload, kind='correspondence')
        return
    gapok = case['noise'] < 1.0
    if gapok and any(not core.close(a, b, 1e-7 * size, 0) for p, t in zip(out, m['coords']) for a, b in zip(p, t)):
        ctx.fail(sig0 + '|model-coords', 'fit_fragment coordinates differ from the model `fitFragment`', payload, kind='correspondence')
    if not core.close(obs['rms'], m['rms'], 1e-8 * size, 1e-8):
        ctx.fail(sig0 + '|model-rms', f'fit_fragment RMSD {obs["rms"]!r} differs from the model `fitFragment` {m["rms"]!r}', payload, kind='correspondence')


def eval_hist(ctx, case, outs, hist):
    """the whole history against the heap model (`runH`: fit_fragment statement by statement on rows shared and changed in
    place as the caller shares and changes them); `specH` = fitFragment of the current numbers (theorem
    history_reads_current: the two are equal)"""
    if hist['model'] != hist['spec']:
        raise core.LeanError(f'C20: runH and specH differ on a history (theorem history_reads_current): {hist}')
    k = 0
    for si, (st, o) in enumerate(zip(case['steps'], outs)):
        if st['kind'] != 'frag':
            continue
        m, k = hist['model'][k], k + 1
        if 'raise' in o:
            continue
        pcase = dict(case, steps=case['steps'][:si + 1])
        src = [st['frag'][i] for i in st['idx']]
        mag = max(abs(c) for p in st['frag'] + st['tgt'] for c in p)
        size = max(math.sqrt(ssd(src, [cen(src)] * len(src)) / len(src)), 1e-6 * mag)
        payload = dict(case=pcase, stream='seq', actual=o, model=m)
        if m is None:
            ctx.fail(f'C20|seq|{st["how"]}|heap-model-raises', 'the model of the history raises where fit_fragment returns', payload, kind='correspondence')
        elif st['noise'] < 1.0 and any(not core.close(a, b, 1e-7 * size, 0) for p, t in zip(o['coords'], m['coords']) for a, b in zip(p, t)) \
                or not core.close(o['rms'], m['rms'], 1e-8 * size, 1e-8):
            ctx.fail(f'C20|seq|{st["how"]}|heap-model', f'step {si} ({st["how"]}, objects {seq_mode(case)}): fit_fragment differs from the model of the '
                     f'same history on the caller\'s objects (`runH`): RMSD {o["rms"]!r} vs {m["rms"]!r}', payload, kind='correspondence')


def triple(pts, a, b, c, d):
    u = [pts[b][i] - pts[a][i] for i in range(3)]
    v = [pts[c][i] - pts[a][i] for i in range(3)]
    w = [pts[d][i] - pts[a][i] for i in range(3)]
    return det3([u, v, w])


def collinear(pts):
    c = cen(pts)
    p = shift(pts, c, -1.0)
    # second largest eigenvalue of the scatter matrix ~ 0  <=>  all cross products vanish
    m = 0.0
    for a in p:
        for b in p:
            cr = [a[1] * b[2] - a[2] * b[1], a[2] * b[0] - a[0] * b[2], a[0] * b[1] - a[1] * b[0]]
            m = max(m, max(abs(x) for x in cr))
    s = max(1e-300, max(abs(x) for a in p for x in a))
    return m < 1e-6 * s * s


def retarget(rng, base, tid=None):
    """the same fragment and subset (identical coordinates) onto another rigidly moved (+ noisy) copy"""
    frag, idx = base['frag'], base['idx']
    src = [frag[i] for i in idx]
    pc = cen(src)
    k = base.get('scale', 1.0)
    q, qkind = make_rotation(rng)
    trans = [rng.uniform(-30, 30) * k for _ in range(3)] if rng.random() < 0.7 else list(pc)
    noise = rng.choice([0.0, 0.0, 1e-4, 0.02, 0.3])
    tgt = shift(apply(quat_to_R(q), shift(src, pc, -1.0)), trans)
    if noise:
        tgt = [[c + rng.gauss(0, noise * k) for c in p] for p in tgt]
    return dict(base, tgt=tgt, quat=q, qkind=qkind, trans=trans, noise=noise, motion='general' if trans != list(pc) else 'about-centroid',
                tid=tid or new_label(rng, 'T'), sseed=rng.getrandbits(48), prelude=[])


def new_label(rng, prefix):
    return f'{prefix}{rng.getrandbits(32):08x}'


# what a caller does to a fragment it holds between two fits: the list objects stay, the numbers change
EDITS = ['translate', 'rotate', 'rotate+translate', 'move-fitted-atom', 'move-other-atom', 'rescale', 'swap-two-fitted-atoms']


def edit_fragment(rng, base, kind):
    """the fragment of `base` after the caller has changed its coordinates (same atoms, same subset)"""
    frag, idx, k = copy.deepcopy(base['frag']), base['idx'], base.get('scale', 1.0)
    n = len(frag)
    others = [i for i in range(n) if i not in idx]
    if kind == 'move-other-atom' and not others:
        kind = 'translate'
    if kind in ('rotate', 'rotate+translate'):
        c0 = cen(frag)
        frag = shift(apply(quat_to_R(unit_quat(rng)), shift(frag, c0, -1.0)), c0)
    if kind in ('translate', 'rotate+translate'):
        frag = shift(frag, [rng.choice([-1, 1]) * rng.uniform(0.5, 20.0) * k for _ in range(3)])
    if kind in ('move-fitted-atom', 'move-other-atom'):
        i = rng.choice(idx if kind == 'move-fitted-atom' else others)
        frag[i] = [c + rng.choice([-1, 1]) * rng.uniform(0.3, 2.0) * k for c in frag[i]]
    if kind == 'swap-two-fitted-atoms':
        i, j = rng.sample(idx, 2)
        frag[i], frag[j] = list(frag[j]), list(frag[i])
    if kind == 'rescale':   # another unit of length
        f = rng.choice([0.1, 10.0, 0.529177, 1.889726])
        frag, k = scaled(frag, f), k * f
    return dict(base, frag=frag, scale=k)


def refit(rng, c):
    """a qtrfit() problem on the lists of `c` after the caller has changed their numbers (same number of points)"""
    q, qkind = make_rotation(rng)
    k = c.get('scale', 1.0)
    src = c['src'] if rng.random() < 0.5 else apply(quat_to_R(unit_quat(rng)), c['src'])
    src = shift(src, cen(src), -1.0)
    noise = rng.choice([0.0, 0.0, 1e-4, 0.3])
    tgt = apply(quat_to_R(q), src)
    if noise:
        tgt = [[x + rng.gauss(0, noise * k) for x in p] for p in tgt]
    tgt = shift(tgt, cen(tgt), -1.0)
    return dict(c, src=src, tgt=tgt, quat=q, qkind=qkind, noise=noise, mirror=False, sseed=rng.getrandbits(48))


def first_step(rng, **kw):
    base = make_frag_case(rng, prelude=False, **kw)
    while len(base['frag']) < 4:
        base = make_frag_case(rng, prelude=False, **kw)
    return dict(base, how='first', fid=new_label(rng, 'F'), sid=new_label(rng, 'S'), tid=new_label(rng, 'T'))


def next_step(rng, steps, cur, what, **opt):
    """appends the step(s) of class `what` to `steps`; returns the current state of the main fragment"""
    if what == 'same-call-again':
        pick = rng.choice([st for st in steps if st['kind'] == 'frag' and st.get('fid') == cur['fid']])
        steps.append(dict(pick, how='same-call-again', sseed=rng.getrandbits(48)))
        return dict(cur, frag=pick['frag'], idx=pick['idx'], scale=pick.get('scale', 1.0), sid=pick['sid'])
    if what == 'same-fragment-other-target':       # identical fragment and subset, a new target list
        steps.append(dict(retarget(rng, cur), how=what))
    elif what == 'target-edited-in-place':         # ... or the caller's target list with new numbers in it
        last = [st for st in steps if st['kind'] == 'frag' and st.get('fid') == cur['fid']][-1]
        steps.append(dict(retarget(rng, cur, tid=last['tid']), how=what))
    elif what == 'edited-in-place':                # the fragment's coordinates changed in its own list objects
        kind = opt.get('edit') or rng.choice(EDITS)
        cur = edit_fragment(rng, cur, kind)
        if (opt.get('outer') or rng.choice(['same', 'new'])) == 'new':    # `[frag[i] for i in subset]` built again
            cur = dict(cur, sid=new_label(rng, 'S'))
        steps.append(dict(retarget(rng, cur), how=f'edited-in-place:{kind}'))
    elif what in ('same-fragment-other-subset', 'subset-changed-in-place'):
        n = len(cur['frag'])
        # another selection of atoms: in a new list, or put into the source list the caller already holds
        idx = rng.sample(range(n), rng.randint(3, n) if what == 'same-fragment-other-subset' else len(cur['idx']))
        sid = new_label(rng, 'S') if what == 'same-fragment-other-subset' else cur['sid']
        cur = dict(cur, idx=idx, sid=sid)
        steps.append(dict(retarget(rng, cur), how=what))
    elif what == 'other-fragment':
        steps.append(first_step(rng) | dict(how=what))
    elif what == 'qtrfit':                         # a plain qtrfit(), repeated on the same lists, then on the edited lists
        c = dict(make_fit_case(rng, prelude=False), fid=new_label(rng, 'Q'), tid=new_label(rng, 'T'))
        steps.append(dict(c, how='qtrfit'))
        steps.append(dict(c, how='qtrfit-again', sseed=rng.getrandbits(48)))
        if opt.get('edited', rng.random() < 0.5):
            steps.append(dict(refit(rng, c), how='qtrfit-edited-in-place'))
    return cur


SEQ_STEPS = [('same-call-again', 15), ('same-fragment-other-target', 20), ('target-edited-in-place', 8), ('edited-in-place', 27),
             ('same-fragment-other-subset', 6), ('subset-changed-in-place', 6), ('other-fragment', 8), ('qtrfit', 10)]


def make_seq_case(rng):
    cur = first_step(rng)
    steps = [cur]
    for _ in range(rng.randint(1, 5)):
        cur = next_step(rng, steps, cur, rng.choices([w for w, _ in SEQ_STEPS], [p for _, p in SEQ_STEPS])[0])
    return dict(kind='seq', steps=steps, objects=rng.choices(['aliased', 'pooled', 'copied'], [5, 3, 2])[0], sseed=rng.getrandbits(48))


def write_in_place(cur, coords):
    """the caller changes the numbers in a list it holds: the outer list and the rows keep their identity"""
    del cur[len(coords):]
    for row, c in zip(cur, coords):
        for j, x in enumerate(c):
            if row[j] != x:
                row[j] = x
    for c in coords[len(cur):]:
        cur.append(list(c))


class World:
    """the caller's list objects over a history. `copied`: fresh deep copies for every call; `pooled`: ONE list object
    per fragment / source list / target list (label `fid` / `sid` / `tid` of the step), updated in place when a later
    step gives it other numbers; `aliased`: as `pooled`, and a source list holds the row objects of its fragment
    (`source_atoms = [fragment_atoms[i] for i in subset]`), so moving the fragment moves the source atoms."""

    def __init__(self, mode):
        self.mode, self.pool = mode, {}
        # the same history as the heap model sees it (driver op `hist`): every row object the caller ever hands to
        # fit_fragment() gets an address; `rows` = the numbers it held when first seen, `steps` = the caller's assignments
        # (found by comparing with what the row held at the previous fit) and the fits as lists of addresses
        self.keep, self.addr, self.rows, self.cur, self.steps = [], {}, [], [], []

    def trace_fit(self, frag, src, tgt):
        step = {}
        for name, lst in (('frag', frag), ('src', src), ('tgt', tgt)):
            addrs = []
            for row in lst:
                a = self.addr.get(id(row))
                if a is None:
                    a = self.addr[id(row)] = len(self.keep)
                    self.keep.append(row)      # kept alive: an address is never given to another object
                    self.rows.append([float(x) for x in row])
                    self.cur.append(list(row))
                elif self.cur[a] != list(row):
                    self.steps.append(dict(w=a, p=[float(x) for x in row]))
                    self.cur[a] = list(row)
                addrs.append(a)
            step[name] = addrs
        self.steps.append(step)

    def obj(self, label, coords):
        cur = self.pool.get(label)
        if self.mode == 'copied' or cur is None:
            cur = self.pool[label] = copy.deepcopy(coords)
        else:
            write_in_place(cur, coords)
        return cur

    def source(self, label, frag_obj, st):
        if self.mode != 'aliased':
            return self.obj(label, [st['frag'][i] for i in st['idx']])
        rows = [frag_obj[i] for i in st['idx']]
        cur = self.pool.get(label)
        if cur is None:
            cur = self.pool[label] = rows
        elif len(cur) != len(rows) or any(a is not b for a, b in zip(cur, rows)):
            cur[:] = rows
        return cur


def seq_mode(case):
    return case.get('objects') or ('pooled' if case.get('shared') else 'copied')


def impl_seq(case):
    """one interpreter state for the whole history; the caller's lists are kept, shared and edited as `World` says"""
    Q = fresh_module({})
    world = World(seq_mode(case))
    outs = []
    for st in case['steps']:
        o = {}
        try:
            if st['kind'] == 'fit':
                src = world.obj(('f', st.get('fid') or repr(st['src'])), st['src'])
                tgt = world.obj(('t', st.get('tid') or repr(st['tgt'])), st['tgt'])
                before = (copy.deepcopy(src), copy.deepcopy(tgt))
                q, U, _sweeps = Q.qtrfit(src, tgt, 30)
                o['mutated'] = [nm for nm, a, b in (('source_xyz', src, before[0]), ('target_xyz', tgt, before[1])) if differs(a, b)]
                U = [list(map(float, row)) for row in U]
                fitted = Q.rotmol(copy.deepcopy(st['src']), U)
                o.update(q=[float(x) for x in q], U=U, fitted=[list(map(float, p)) for p in fitted],
                         rmsd=float(Q.rmsd(fitted, st['tgt'])), rmsd_before=float(Q.rmsd(st['src'], st['tgt'])),
                         centroid=[float(x) for x in Q.centroid(st['tgt'])])
            else:
                frag = world.obj(('f', st.get('fid') or repr(st['frag'])), st['frag'])
                tgt = world.obj(('t', st.get('tid') or repr(st['tgt'])), st['tgt'])
                src = world.source(('s', st.get('sid') or repr([st['frag'], st['idx']])), frag, st)
                before = (copy.deepcopy(frag), copy.deepcopy(src), copy.deepcopy(tgt))
                world.trace_fit(frag, src, tgt)
                coords, r = Q.fit_fragment(frag, src, tgt)
                o['mutated'] = [nm for nm, a, b in (('fragment_atoms', frag, before[0]), ('source_atoms', src, before[1]),
                                                    ('target_atoms', tgt, before[2])) if differs(a, b)]
                o.update(coords=[list(map(float, p)) for p in coords], rms=float(r))
        except Exception as e:  # noqa
            o['raise'] = ename(e)
        outs.append(o)
    return outs, dict(p='C20', op='hist', rows=world.rows, steps=world.steps)


def differs(a, b):
    return len(a) != len(b) or any(list(p) != list(q) for p, q in zip(a, b))


def fit_requests(case, obs):
    reqs = [('fit', dict(p='C20', op='fit', src=case['src'], tgt=case['tgt'], sweeps=30))]
    rng = random.Random(case['sseed'] ^ 0x5EED)
    q = obs.get('q') or [1.0, 0.0, 0.0, 0.0]
    samples = [unit_quat(rng) for _ in range(60)]
    for ang in (1e-4, 1e-2, 0.3):   # neighbours of the returned quaternion
        samples += [qmul(small_quat(rng, ang), q) for _ in range(10)]
    nmax = sum(a * a + b * b for p, t in zip(case['src'], case['tgt']) for a, b in zip(p, t))   # ~ 2 n size^2, no floor
    reqs.append(('cert', dict(p='C20', op='cert', src=case['src'], tgt=case['tgt'], q=q, delta=1e-9 * nmax, samples=samples)))
    reqs.append(('rot', dict(p='C20', op='rot', pts=case['src'], other=case['tgt'],
                             U=[x for r in obs.get('U', [[1, 0, 0], [0, 1, 0], [0, 0, 1]]) for x in r])))
    return reqs


def frag_requests(case):
    return [('frag', dict(p='C20', op='frag', frag=case['frag'], src=[case['frag'][i] for i in case['idx']], tgt=case['tgt']))]


def evaluate(ctx, cases, stream=None):
    reqs, idx, impls = [], [], []
    for ci, case in enumerate(cases):
        if case['kind'] == 'fit':
            obs = impl_fit(case)
            impls.append(obs)
            units = [(0, u) for u in fit_requests(case, obs)]
        elif case['kind'] == 'frag':
            impls.append(impl_frag(case))
            units = [(0, u) for u in frag_requests(case)]
        else:
            outs, hist = impl_seq(case)
            impls.append(outs)
            units = [(-1, ('hist', hist))]
            for si, (st, o) in enumerate(zip(case['steps'], outs)):
                units += [(si, u) for u in (fit_requests(st, o) if st['kind'] == 'fit' else frag_requests(st))]
        for si, (what, rq) in units:
            reqs.append(rq)
            idx.append((ci, si, what))
    ans = ctx.driver.batch(reqs)
    per = {}
    for (ci, si, what), r in zip(idx, ans):
        per.setdefault((ci, si), {})[what] = r
    for ci, case in enumerate(cases):
        if case['kind'] == 'fit':
            ctx.stream('fit')
            eval_fit(ctx, case, impls[ci], per[ci, 0]['fit'], per[ci, 0]['cert'], per[ci, 0]['rot'])
        elif case['kind'] == 'frag':
            ctx.stream('frag')
            eval_frag(ctx, case, impls[ci], per[ci, 0]['frag'])
        else:
            ctx.stream('seq')
            eval_hist(ctx, case, impls[ci], per[ci, -1]['hist'])
            for si, (st, o) in enumerate(zip(case['steps'], impls[ci])):
                # a failing step is replayed with the history up to it
                pcase = dict(case, steps=case['steps'][:si + 1])
                prefix = f'C20|seq|{st["how"]}'
                tags = ['seq', 'step=' + st['how'], 'objects=' + seq_mode(case)]
                if st['kind'] == 'fit':
                    eval_fit(ctx, st, o, per[ci, si]['fit'], per[ci, si]['cert'], per[ci, si]['rot'], prefix=prefix, pcase=pcase,
                             stream='seq', extra_tags=tags)
                else:
                    eval_frag(ctx, st, o, per[ci, si]['frag'], prefix=prefix, pcase=pcase, stream='seq', extra_tags=tags)
                if o.get('mutated'):
                    ctx.fail(f'C20|seq|input-mutated|{"qtrfit" if st["kind"] == "fit" else "fit_fragment"}',
                             f'{"qtrfit" if st["kind"] == "fit" else "fit_fragment"}() changed the caller\'s {", ".join(o["mutated"])}: the next fit '
                             f'of the same lists starts from other coordinates', dict(case=pcase, stream='seq', actual=o['mutated'], expected=[]))


# ------------------------------------------------------------------------------------------------
# the systematic part: small enumerations of the classes a random draw reaches only now and then

def cube_group():
    """the 24 proper rotations of the cube as exact signed permutations (perm, signs): p -> [sg[i] * p[perm[i]]]"""
    out = []
    for perm in ((0, 1, 2), (1, 2, 0), (2, 0, 1), (0, 2, 1), (2, 1, 0), (1, 0, 2)):
        even = perm in ((0, 1, 2), (1, 2, 0), (2, 0, 1))
        for sx in (1.0, -1.0):
            for sy in (1.0, -1.0):
                for sz in (1.0, -1.0):
                    if (sx * sy * sz > 0) == even:
                        out.append((perm, (sx, sy, sz)))
    return out


def ideal_sets():
    """idealised, axis-aligned, exactly representable coordination polyhedra (all centred on the origin but the last)"""
    def octa(a, b, c):
        return [[a, 0.0, 0.0], [-a, 0.0, 0.0], [0.0, b, 0.0], [0.0, -b, 0.0], [0.0, 0.0, c], [0.0, 0.0, -c]]
    return [('octahedron', octa(1.5, 1.5, 1.5)), ('octahedron-3-arms', octa(1.0, 2.0, 3.0)),
            ('octahedron+centre', octa(1.5, 1.5, 1.5) + [[0.0, 0.0, 0.0]]),
            ('cube', [[sx, sy, sz] for sx in (1.0, -1.0) for sy in (1.0, -1.0) for sz in (1.0, -1.0)]),
            ('box', [[sx, 1.5 * sy, 2.0 * sz] for sx in (1.0, -1.0) for sy in (1.0, -1.0) for sz in (1.0, -1.0)]),
            ('tetrahedron', [[1.0, 1.0, 1.0], [1.0, -1.0, -1.0], [-1.0, 1.0, -1.0], [-1.0, -1.0, 1.0]]),
            ('square-pyramid', [[2.0, 0.0, 0.0], [-2.0, 0.0, 0.0], [0.0, 2.0, 0.0], [0.0, -2.0, 0.0], [0.0, 0.0, 3.0], [0.0, 0.0, 0.0]])]


def fit_case_of(rng, src, tgt, qkind, shape, scale=1.0, noise=0.0):
    src = shift(src, cen(src), -1.0)
    tgt = shift(tgt, cen(tgt), -1.0)
    return dict(kind='fit', src=src, tgt=tgt, quat=None, qkind=qkind, noise=noise, shape=shape, mirror=False, scale=scale,
                sseed=rng.getrandbits(48), prelude=[])


def systematic_cases(rng):
    cases = []
    # (1) every idealised polyhedron under every rotation of the cube group, exact numbers: the 4x4 form has zero and
    #     exactly equal diagonal elements and exactly vanishing off-diagonal elements in every arrangement (the
    #     branches `fabs(b) > 0`, `q < 0` / q == 0, equal eigenvalues in the sort, all-zero diagonal); a few in other
    #     units (binary and decimal factors)
    group = cube_group()
    for name, pts in ideal_sets():
        for gi, (perm, sg) in enumerate(group):
            k = 1.0 if gi % 4 else rng.choice([2.0 ** -30, 2.0 ** 20, 1e-10, 1e-4, 1e3])
            src = scaled(pts, k)
            tgt = [[sg[i] * p[perm[i]] for i in range(3)] for p in src]
            cases.append(fit_case_of(rng, src, tgt, 'cube-group', 'ideal', scale=k))
    # (2) the unit of length: one decade after the other from 1e-10 to 1e+6, fit and fragment, exact and noisy
    for e in range(-10, 7):
        k = 10.0 ** e
        for noise in (0.0, 0.02):
            cases.append(make_fit_case(rng, prelude=False, scale=k, noise=noise, shape='box', rot=(unit_quat(rng), 'random')))
            cases.append(make_frag_case(rng, prelude=False, scale=k, noise=noise, motion='general'))
    # (3) next to "no rotation at all": angles from 0.1 rad down to below the rounding unit (off-diagonal elements of the
    #     form from comparable with to negligible against the differences of the diagonal: the `b / dma` branch, the
    #     convergence test at its first evaluation), and noise from the rounding unit upwards
    for e in range(1, 19):
        cases.append(make_fit_case(rng, prelude=False, scale=1.0, noise=0.0, shape='box', rot=(small_quat(rng, 10.0 ** -e), 'small')))
    for e in (16, 14, 12, 10, 8, 6):
        cases.append(make_fit_case(rng, prelude=False, scale=1.0, noise=10.0 ** -e, shape='box',
                                   rot=(rng.choice([[1.0, 0.0, 0.0, 0.0], unit_quat(rng)]), 'random')))
    # (3b) idealised polyhedra whose target atoms are off their ideal places by the rounding unit and a little more: the
    #     off-diagonal elements of the form are then not zero but negligible against the differences of the diagonal
    #     already in the first sweep (the `b / dma` branch of the rotation angle, `fabs(b) > 0` with a tiny b)
    for name, pts in ideal_sets():
        for perm, sg in [group[0]] + rng.sample(group, 2):
            for e in (17, 15, 13):
                tgt = [[sg[i] * p[perm[i]] + rng.choice([-1.0, 1.0]) * 10.0 ** -e for i in range(3)] for p in pts]
                cases.append(fit_case_of(rng, pts, tgt, 'cube-group', 'ideal', noise=10.0 ** -e))
    # (4) histories on the caller's own list objects: fit, change the numbers in place, fit again - every kind of
    #     change x (source list kept | built again) x (source rows are the fragment's rows | separate lists), then the
    #     target list / the selection / the qtrfit() arguments changed in place, and the plain repetitions
    for mode in ('aliased', 'pooled'):
        for edit in EDITS:
            for outer in ('same', 'new'):
                cur = first_step(rng, scale=1.0, noise=0.0)
                steps = [cur]
                cur = next_step(rng, steps, cur, 'edited-in-place', edit=edit, outer=outer)
                cases.append(dict(kind='seq', steps=steps, objects=mode, sseed=rng.getrandbits(48)))
        for what in ('target-edited-in-place', 'subset-changed-in-place', 'same-fragment-other-subset'):
            cur = first_step(rng, scale=1.0, noise=0.0)
            steps = [cur]
            next_step(rng, steps, cur, what)
            cases.append(dict(kind='seq', steps=steps, objects=mode, sseed=rng.getrandbits(48)))
        steps = []
        next_step(rng, steps, None, 'qtrfit', edited=True)
        cases.append(dict(kind='seq', steps=steps, objects=mode, sseed=rng.getrandbits(48)))
    for mode in ('aliased', 'pooled', 'copied'):
        for what in ('same-fragment-other-target', 'same-call-again'):
            cur = first_step(rng, scale=1.0)
            steps = [cur]
            next_step(rng, steps, cur, what)
            cases.append(dict(kind='seq', steps=steps, objects=mode, sseed=rng.getrandbits(48)))
    return cases


def run(ctx):
    ctx.rule = ('fit: centred point sets of 3..30 points (box / planar / one-decimal grid), target = rotated copy '
                '(random, special: identity, 90, 120, 180 degrees, tiny angles) without noise or with Gaussian noise 1e-4..2 of the unit '
                '(10 % of the noisy ones mirrored), re-centred; frag: fragments of 3..30 atoms shifted up to 25 units from the origin, '
                'fitted by 3..n of their atoms onto a rigidly moved (+ noisy) copy; rigid motions: rotation about the subset centroid + '
                'translation, rotation about the subset centroid without net shift, about the origin, about an arbitrary point, pure '
                'translation, identity; both streams: the whole problem scaled by 1 (half) or 1e-10..1e+6 (half), all deviations '
                'judged relative to the rms radius of the (fitted) point set; seq: histories of 2..8 calls in one module state on the caller\'s own '
                'list objects (aliased rows 50 % / one object per list 30 % / copies 20 %): same call again, new target list, target list / '
                'fragment coordinates / selection / qtrfit arguments changed in place, other subset, other fragments, qtrfit() calls; '
                'systematic part first (polyhedra x cube group, unit ladder, angle and noise ladders, near-ideal targets, every in-place '
                'change x list kept/rebuilt x aliased/pooled); distinct by coordinates; '
                'non-trivial = rotation not one of the special ones or noise present (fit), fitted subset centroid away from the origin (frag)')
    ctx.assumptions = ['point sets are non-degenerate (not collinear; generated, not filtered)',
                       'theorems are over exact real arithmetic; properness of the returned rotation, scale invariance and the Jacobi '
                       'invariant are proved for all inputs; Jacobi CONVERGENCE (optimality of the returned quaternion) is not proved, '
                       'it is certified per case (eigen-residual, Sylvester pivots, sampled quaternions, sampled rotations)',
                       'histories: the caller passes lists of rows [x, y, z] that exist (theorem hypothesis `StepOk`); rows returned by '
                       'an earlier fit and handed in again are exercised by the harness only',
                       'every proper rotation is R(u) for a unit quaternion u: hypothesis `hsurj` of optimal_among_proper_rotations']
    nfit = ctx.budget(250, 6000)
    nfrag = ctx.budget(250, 6000)
    nseq = ctx.budget(150, 3000)
    # the systematic part comes first and is the same in both tiers (so the quick tier reaches every class by
    # construction); the random cases follow
    cases = systematic_cases(ctx.rng) + [make_fit_case(ctx.rng) for _ in range(nfit)] + \
        [make_frag_case(ctx.rng) for _ in range(nfrag)] + [make_seq_case(ctx.rng) for _ in range(nseq)]
    for i in range(0, len(cases), 400):
        evaluate(ctx, cases[i:i + 400])

"""
C16 — instruction objects expose the parameters the SHELXL syntax assigns.

Streams (DESIGN 3.2):
  attrs  every form (legal prefix of the parameter list) of every object-backed instruction, pairwise distinct
         non-default values, with and without a preceding DEFS, inside a minimal valid file read with
         Shelxfile.read_string; the attributes of the object that replaced the line in `_reslist`
         vs  spec `specVal` over the code-independent `syntaxTable`   (kind property)
         vs  model `fill` over the regenerated `slotTable` / hand models (kind correspondence)
  slot   the object is also what `shx.<keyword>` holds, for the keywords Shelxfile declares a slot for
  set    Command.set(text): attributes and str(obj) denote the new values
  ls     LSCycles.number = n / set_refine_cycles(n): str(obj) denotes (n, nrf, nextra)
  wght   Shelxfile.update_weight(): str(shx.wght) denotes the suggested scheme
Only attribute values, the object's presence and the tokens of str(obj) are observed.

Classes: table shaped (regenerated `slotTable`, theorem `instruction_attrs`): the keywords of `tableKws` in
ShelxProps/C16.lean. Residual, modelled by hand: PART, LATT, TWIN, HTAB (dh form), SUMP, LSCycles. Residual, compared with the
spec only (no model): HFIX, and the whole-list classes BASF, UNIT, ACTA. Left out (no check): RESI, RTAB, FREE, ANIS, FRAG,
BIND, DISP (its `element`/`parameter` names are swapped in the code), CONF, CONN, SYMM, SFAC, the `HTAB donor acceptor` form, and
the residue suffix (`DFIX_2`, `SADI_CCF3`: residue_class / residue_number) of restraints.
"""
from fractions import Fraction

from .. import core

# keywords for which Shelxfile.__init__ declares `self.<kw.lower()>` (single object)
SLOTS = {'ABIN', 'ACTA', 'FMAP', 'XNPD', 'WPDB', 'WIGL', 'SWAT', 'STIR', 'SPEC', 'TWST', 'PLAN', 'PRIG', 'MERG', 'MORE',
         'MOVE', 'DEFS', 'ZERR', 'WGHT', 'TWIN', 'BASF', 'LATT', 'DAMP', 'UNIT', 'SIZE', 'HTAB', 'SHEL', 'MPLA', 'HKLF',
         'GRID', 'CELL'}
SLOT_NAME = {'L.S.': 'cycles', 'CGLS': 'cycles'}
# the dispatch builds no object for the bare form of these (the instruction is then "not given" as a whole)
BARE_NO_OBJECT = {'SPEC', 'TWST'}
# restraints that take atom names, hence a residue suffix on the codeword (_n, _CLASS, _*)
SUFFIXABLE = {'DFIX', 'DANG', 'SADI', 'SAME', 'FLAT', 'CHIV', 'DELU', 'SIMU', 'RIGU', 'ISOR', 'NCSY', 'EADP', 'EXYZ'}
RESTRAINTS = {'DFIX', 'DANG', 'SADI', 'SAME', 'FLAT', 'CHIV', 'DELU', 'SIMU', 'RIGU', 'ISOR', 'NCSY', 'BUMP'}
NAMES = {'DFIX': ['C1', 'C2'], 'DANG': ['C1', 'C3'], 'SADI': ['C1', 'C2', 'C3', 'C4'], 'SAME': ['C1', 'C2', 'C3'],
         'FLAT': ['C1', 'C2', 'C3', 'C4'], 'CHIV': ['C2'], 'DELU': ['C1', 'C2'], 'SIMU': ['C1', 'C2', 'C3'],
         'RIGU': ['C1', 'C2', 'C3'], 'ISOR': ['C3', 'C4'], 'NCSY': ['C1', 'C2'], 'BLOC': ['C1', 'C2'], 'MPLA': ['C1', 'C2', 'C3', 'C4'],
         'HFIX': ['C1'], 'EADP': ['C1', 'C2'], 'EXYZ': ['C3', 'C4'], 'BOND': ['C1', 'C2', 'C3']}

_SYNTAX = None


def syntax(ctx):
    global _SYNTAX
    if _SYNTAX is None:
        _SYNTAX = {s['kw']: s for s in ctx.driver.one(dict(p='C16', op='syntax'))}
    return _SYNTAX


# ------------------------------------------------------------------------------------------------
# generation

def all_defaults(sp):
    out = {0.02, 0.1, 0.01, 0.04, 1.0, 0.2, 0.08}
    for p in sp['params']:
        d = p['dflt']
        if isinstance(d, dict) and 'const' in d and d['const'] is not None:
            c = d['const']
            for v in (c if isinstance(c, list) else [c]):
                out.add(float(v))
    return out


def reals(rng, k, avoid, lo=101, hi=999, scale=1000):
    out = []
    while len(out) < k:
        v = rng.randint(lo, hi) / scale
        if v not in avoid and v not in out:
            out.append(v)
    return out


def ints(rng, k, avoid, lo=2, hi=9):
    pool = [i for i in range(lo, hi + 1) if float(i) not in avoid]
    return rng.sample(pool, k)


def gen_values(rng, kw, sp, n):
    """`n` numeric values for keyword `kw`: pairwise distinct, different from every default, valid for SHELXL"""
    avoid = all_defaults(sp)
    if kw == 'CELL':
        a = reals(rng, 3, avoid, 5000, 30000)
        ang = reals(rng, 3, avoid, 8000, 10000, 100)
        return [rng.choice([0.71073, 1.54178, 0.56086])] + a + ang
    if kw == 'ZERR':
        return [rng.choice([2, 3, 4, 6, 8, 12, 16])] + reals(rng, 6, avoid, 1, 99)
    if kw == 'LATT':
        return [rng.choice([1, 2, 3, 4, 5, 6, 7]) * rng.choice([1, -1])][:n]
    if kw == 'HKLF':
        v = [rng.choice([2, 3, 4, 5, 6]), reals(rng, 1, avoid)[0]]
        m = reals(rng, 9, avoid + [v[1]] if isinstance(avoid, list) else avoid | {v[1]})
        m = [x * rng.choice([1, -1]) for x in m]
        rest = reals(rng, 1, avoid | set(m) | {v[1]}, 1100, 1900) + [rng.choice([2, 3, 5, 7])]
        return (v + m + rest)[:n]
    if kw == 'AFIX':
        return ([rng.choice([13, 23, 33, 43, 66, 93, 137, 147])] + reals(rng, 1, avoid, 800, 1100) +
                [rng.choice([10.5, 10.25, 21.0, 0.5, 0.75])] + [-rng.choice([1.2, 1.3, 1.5])])[:n]
    if kw == 'PART':
        return ([rng.choice([1, 2, 3, 4, -1, -2])] + [rng.choice([21.0, -21.0, 10.5, 0.5, 31.0])])[:n]
    if kw in ('DFIX', 'DANG'):
        return (reals(rng, 1, avoid, 1100, 2900) + reals(rng, 1, avoid, 11, 99))[:n]
    if kw == 'NCSY':
        return ([rng.choice([1, 2, 3, 4, 5, -2])] + reals(rng, 2, avoid))[:n]
    if kw in ('L.S.', 'CGLS'):
        return ([rng.randint(1, 40), rng.choice([0, 0, 1, 2, 3, -1, -2]), rng.choice([0, 5, 17, 50])])[:n]
    if kw == 'TWIN':
        m = [x * rng.choice([1, -1]) for x in reals(rng, 9, avoid)]
        return (m + [rng.choice([3, 4, -3, -4, 6])])[:n]
    if kw == 'SUMP':
        k = n if n else 2 + 2 * rng.randint(1, 4)
        pr = []
        cs = reals(rng, (k - 2) // 2, avoid)
        ms = ints(rng, (k - 2) // 2, avoid)
        for c, m in zip(cs, ms):
            pr += [c, m]
        return reals(rng, 2, avoid | set(cs)) + pr
    if kw == 'BASF':
        return reals(rng, rng.randint(1, 5), avoid)
    if kw == 'UNIT':
        return [float(x) for x in ints(rng, 3, avoid, 2, 60)]
    if kw == 'HFIX':
        k = rng.choice([1, 1, 2, 3])
        return ([rng.choice([13, 23, 33, 43, 137, 147])] + [-rng.choice([1.2, 1.5])] + reals(rng, 1, avoid, 800, 1100))[:k]
    if kw == 'ACTA':
        return rng.choice([[], reals(rng, 1, avoid, 4000, 6000, 100)])
    if kw == 'MORE':
        return [rng.choice([0, 2, 3])][:n]
    if kw == 'MERG':
        return [rng.choice([0, 1, 3, 4])][:n]
    if kw == 'PLAN':
        return ([rng.choice([5, 10, 30, 50, -20, -30])] + reals(rng, 2, avoid, 1100, 2900))[:n]
    vals = []
    seen = set(avoid)
    for p in sp['params']:
        w = max(p['width'], 1)
        new = ints(rng, w, seen) if p['int'] else reals(rng, w, seen)
        seen |= set(float(x) for x in new)
        vals += new
    return vals[:n]


def gen_residues(rng, kind):
    """a residue environment (RESI class number, in file order; one class occurs twice, one residue may have no class)
    and a codeword suffix of the wanted kind that addresses existing residues"""
    classes = rng.sample(['CCF3', 'TOL', 'THF2', 'Et2O', 'A1B'], 2)
    nums = rng.sample(range(1, 40), 4)
    resi = [[classes[0], nums[0]], [classes[1], nums[1]], [classes[0], nums[2]]]
    if rng.random() < 0.5:
        resi.append(['', nums[3]])
    rng.shuffle(resi)
    if kind == 'num':
        sfx = f'_{rng.choice(resi)[1]}'
    elif kind == 'cls':
        c = rng.choice(classes)
        sfx = '_' + rng.choice([c, c.upper(), c.lower()])
    else:
        sfx = '_*'
    return resi, sfx


def gen_defs(rng, k):
    """a DEFS line with k parameters (distinct, non-default, small enough to stay below any distance)"""
    return reals(rng, 4, {0.02, 0.1, 0.01, 0.04}, 11, 300)[:k] + ([rng.choice([0.5, 0.75, 2])] if k == 5 else [])


def fnum(v):
    if isinstance(v, int):
        return str(v)
    if float(v).is_integer() and abs(v) < 1e6:
        return str(int(v))
    return repr(float(v))


# ---- lexical variants: SHELXL is case-insensitive and reads numbers in free format -------------------------------------
REAL_STYLES = ('plain', 'exp', 'EXP', 'exp+', 'dot', 'plus', 'trail', 'zero')
INT_STYLES = ('plain', 'plus')


def spell(v, style):
    """the number `v` written in one of the spellings free-format input accepts; always denotes exactly float(v)"""
    from decimal import Decimal
    plain = fnum(v)
    if isinstance(v, int) and style not in INT_STYLES:
        style = 'plain'
    out = plain
    if style in ('exp', 'EXP', 'exp+'):
        d = Decimal(plain)
        if d == 0:
            out = '0.0E0'
        else:
            sign, digits, e = d.normalize().as_tuple()
            mant = ''.join(map(str, digits))
            e10 = e + len(mant) - 1
            mant = mant[0] + ('.' + mant[1:] if len(mant) > 1 else '.0')
            es = f'{e10}' if (style != 'exp+' or e10 < 0) else f'+{e10}'
            out = ('-' if sign else '') + mant + ('e' if style == 'exp' else 'E') + es
    elif style == 'dot':
        if plain.startswith('0.'):
            out = plain[1:]
        elif plain.startswith('-0.'):
            out = '-' + plain[2:]
    elif style == 'plus':
        if not plain.startswith('-'):
            out = '+' + plain
    elif style == 'trail':
        out = plain + ('.' if '.' not in plain and 'e' not in plain.lower() else '0')
    elif style == 'zero':
        if 'e' not in plain.lower():
            out = ('-0' + plain[1:]) if plain.startswith('-') else ('0' + plain)
    if float(out) != float(v):
        raise RuntimeError(f'spelling {style} of {v!r} -> {out!r} changes the value')
    return out


def kw_case(kw, how):
    if how == 'lower':
        return kw.lower()
    if how == 'mixed':
        return ''.join(c.lower() if i % 2 else c.upper() for i, c in enumerate(kw))
    if how == 'title':
        return kw[:1].upper() + kw[1:].lower()
    return kw


def make_lex(rng, rep, ps, defs=None):
    """lexical style of repetition `rep`: 0 = canonical (upper case, plain decimals); 1 = lower case, exponent notation;
    2 = mixed case, a random mix of the other spellings; >= 3 = everything random"""
    if rep == 0:
        return None

    def styles(vals):
        if rep == 1:
            return [('plain' if isinstance(v, int) else rng.choice(['exp', 'EXP', 'exp+'])) for v in vals]
        if rep == 2:
            return [rng.choice(INT_STYLES if isinstance(v, int) else ('dot', 'plus', 'trail', 'zero', 'dot', 'trail')) for v in vals]
        return [rng.choice(INT_STYLES if isinstance(v, int) else REAL_STYLES) for v in vals]
    how = {1: 'lower', 2: 'mixed'}.get(rep) or rng.choice(['upper', 'lower', 'mixed', 'title'])
    lex = dict(kw=how, spell=styles(ps))
    if defs is not None:
        lex['defs_kw'] = how if rep < 3 else rng.choice(['upper', 'lower', 'mixed'])
        lex['defs_spell'] = styles(defs)
    return lex


def nums_text(vals, styles):
    styles = list(styles or []) + ['plain'] * len(vals)
    return [spell(v, st) for v, st in zip(vals, styles)]


def line_of(case):
    lex = case.get('lex') or {}
    kw = kw_case(case['kw'], lex.get('kw', 'upper')) + case.get('suffix', '')
    return ' '.join([kw] + nums_text(case['ps'], lex.get('spell')) + list(case.get('names', [])))


def defs_line(case):
    lex = case.get('lex') or {}
    return ' '.join([kw_case('DEFS', lex.get('defs_kw', 'upper'))] + nums_text(case['defs'], lex.get('defs_spell')))


def render(case):
    """minimal valid file around the instruction; returns (text, line index of the instruction)"""
    kw = case['kw']
    ins = line_of(case)
    head = ['TITL c16',
            ins if kw == 'CELL' else 'CELL 0.71073 10.0 11.0 12.0 90 95 90',
            ins if kw == 'ZERR' else 'ZERR 4 0.001 0.001 0.001 0 0.01 0',
            ins if kw == 'LATT' else 'LATT -1',
            'SFAC C H O',
            ins if kw == 'UNIT' else 'UNIT 8 16 4']
    body = []
    if case.get('defs') is not None:
        if case.get('defs0') is not None:
            # an earlier, complete DEFS: the later one replaces it, its omitted parameters are the documented defaults again
            body.append(' '.join(['DEFS'] + [fnum(v) for v in case['defs0']]))
        body.append(defs_line(case))
    if kw not in ('CELL', 'ZERR', 'LATT', 'UNIT', 'HKLF', 'AFIX', 'PART', 'L.S.', 'CGLS'):
        body.append(ins)
    body.append(ins if kw in ('L.S.', 'CGLS') else 'L.S. 10')
    body.append('FVAR 0.5 0.6 0.7')
    atoms = ['C1    1    0.100000    0.200000    0.300000    11.00000    0.03000',
             'C2    1    0.150000    0.250000    0.350000    11.00000    0.03000',
             'C3    1    0.200000    0.300000    0.400000    11.00000    0.03000',
             'C4    1    0.250000    0.350000    0.450000    11.00000    0.03000']
    if kw == 'AFIX':
        atoms = atoms[:2] + [ins, atoms[2], 'AFIX 0', atoms[3]]
    if kw == 'PART':
        atoms = atoms[:2] + [ins, atoms[2], 'PART 0', atoms[3]]
    # residues the codeword suffix can address: RESI class number, two atoms each, closed by RESI 0
    for i, (cls, num) in enumerate(case.get('resi', [])):
        atoms.append(f'RESI {cls} {num}' if cls else f'RESI {num}')
        atoms.append(f'C1    1    0.{300 + 7 * i:03d}000    0.200000    0.300000    11.00000    0.03000')
        atoms.append(f'C2    1    0.{300 + 7 * i:03d}000    0.350000    0.400000    11.00000    0.03000')
    if case.get('resi'):
        atoms.append('RESI 0')
    tail = [ins if kw == 'HKLF' else 'HKLF 4', 'END']
    lines = head + body + atoms + tail
    return '\n'.join(lines) + '\n', lines.index(ins)


# ------------------------------------------------------------------------------------------------
# observation

def pyval(v):
    """attribute value -> JSON-able canonical form"""
    if v is None:
        return None
    if isinstance(v, bool):
        return dict(other=str(v))
    if isinstance(v, (int, float)):
        return float(v)
    if isinstance(v, (list, tuple)):
        flat = []
        for x in v:
            if isinstance(x, (list, tuple)):
                flat += list(x)
            else:
                flat.append(x)
        if all(isinstance(x, (int, float)) and not isinstance(x, bool) for x in flat):
            return [float(x) for x in flat]
    return dict(other=repr(v)[:40])


def read_obj(case):
    """returns (shx, obj or None, reached_end)"""
    from shelxfile import Shelxfile
    text, idx = render(case)
    shx = Shelxfile()
    shx.read_string(text)
    obj = shx._reslist[idx] if idx < len(shx._reslist) else None
    if isinstance(obj, str):
        obj = None
    return shx, obj, bool(shx.end)


def constructor_exception(case, cls):
    """which exception aborts the constructor (diagnosis for the signature; small enum)"""
    try:
        from shelxfile import Shelxfile
        from shelxfile.shelx import cards
        shx = Shelxfile()
        if case.get('defs') is not None:
            shx.defs = cards.DEFS(shx, defs_line(case).split())
        getattr(cards, cls)(shx, line_of(case).split())
    except Exception as e:
        return type(e).__name__
    return 'none'


def dump_attrs(obj, attrs):
    out = {}
    for a in attrs:
        try:
            out[a] = pyval(getattr(obj, a))
        except AttributeError:
            out[a] = dict(unset=True)
        except Exception as e:
            out[a] = dict(error=type(e).__name__)
    return out


def same(got, want) -> bool:
    """got: pyval form; want: decoded driver value (None | Fraction | list of Fraction | {'other': s})"""
    if want is None or got is None:
        return want is None and got is None
    if isinstance(want, list):
        return isinstance(got, list) and len(got) == len(want) and all(core.close(g, w, 1e-12, 1e-12) for g, w in zip(got, want))
    if isinstance(want, dict):
        return got == want
    if isinstance(got, (list, dict)):
        return False
    return core.close(got, want, 1e-12, 1e-12)


def meets(got, sv) -> bool:
    if 'given' in sv:
        return same(got, sv['given'])
    return same(got, sv['omitted']) or got is None


def show(v):
    if isinstance(v, Fraction):
        return float(v)
    if isinstance(v, list):
        return [show(x) for x in v]
    if isinstance(v, dict):
        return {k: show(x) for k, x in v.items()}
    return v


def suffix_struct(sfx):
    """'_2' -> 2, '_CCF3'/'_ccf3' -> 'CCF3', '_*' -> '*', '' -> None  (SHELXL is case-insensitive)"""
    if not sfx:
        return None
    t = sfx[1:]
    return int(t) if t.isdigit() else t.upper()


def suffix_kind(sfx):
    st = suffix_struct(sfx)
    return 'none' if st is None else 'num' if isinstance(st, int) else 'star' if st == '*' else 'cls'


def req_attrs(case):
    lex = case.get('lex') or {}
    return dict(p='C16', op='attrs', kw=case['kw'], ps=case['ps'], defs=case.get('defs'),
                codeword=kw_case(case['kw'], lex.get('kw', 'upper')) + case.get('suffix', ''),
                suffix=suffix_struct(case.get('suffix', '')),
                resi=[[(c or '').upper(), n] for c, n in case.get('resi', [])])


def denote(sp, nums):
    """the full parameter vector a token list denotes: documented default / None for omitted ones (finite syntaxes)"""
    out = {}
    pos = 0
    for p in sp['params']:
        w = max(p['width'], 1)
        if p['width'] == 0:
            out[p['attr']] = [float(x) for x in nums[pos:]]
            break
        if pos + w <= len(nums):
            out[p['attr']] = float(nums[pos]) if w == 1 else [float(x) for x in nums[pos:pos + w]]
        else:
            d = p['dflt']
            if isinstance(d, dict) and 'const' in d:
                c = d['const']
                out[p['attr']] = None if c is None else ([float(x) for x in c] if isinstance(c, list) else float(c))
            else:
                out[p['attr']] = None
        pos += w
    return out


def tokens_of(text):
    """numeric tokens of a printed instruction (after the keyword); None when a token is not a number"""
    out = []
    for t in text.split()[1:]:
        try:
            out.append(float(t))
        except ValueError:
            return None
    return out


def same_denotation(a, b):
    if a is None or b is None or set(a) != set(b):
        return False
    for k in a:
        x, y = a[k], b[k]
        if x is None or y is None:
            if not (x is None and y is None):
                return False
        elif isinstance(x, list) or isinstance(y, list):
            if not (isinstance(x, list) and isinstance(y, list) and len(x) == len(y) and all(core.close(p, q, 1e-9, 1e-9) for p, q in zip(x, y))):
                return False
        elif not core.close(x, y, 1e-9, 1e-9):
            return False
    return True


# ------------------------------------------------------------------------------------------------
# evaluation

def cfail(ctx, sig, what, payload, kind='property'):
    """ctx.fail, at most three times per signature (one replay per signature is written anyway; a broken tree must not
    spend the failure quota of the run on thousands of repeats of one signature before the other streams are reached)"""
    seen = ctx.__dict__.setdefault('_c16_seen', {})
    seen[sig] = seen.get(sig, 0) + 1
    if seen[sig] <= 3:
        ctx.fail(sig, what, payload, kind)


def evaluate(ctx, cases, stream=None):
    syn = syntax(ctx)
    by = {}
    for c in cases:
        by.setdefault(c.get('stream', stream or 'attrs'), []).append(c)
    if 'attrs' in by:
        check_lex(ctx, by['attrs'])
        eval_attrs(ctx, syn, by['attrs'])
    if 'set' in by:
        eval_set(ctx, syn, by['set'])
    if 'ls' in by:
        eval_ls(ctx, syn, by['ls'])
    if 'wght' in by:
        eval_wght(ctx, syn, by['wght'])


def residue_obs(obj):
    """residue class and resolved residue numbers of a restraint (numbers sorted: they may come out of a dict)"""
    try:
        return dict(cls=str(obj.residue_class).upper(), nums=sorted(int(x) for x in obj.residue_number))
    except Exception as e:
        return dict(error=type(e).__name__)


def residue_want(rr):
    return dict(cls=rr['cls'].upper(), nums=sorted(rr['nums']))


def impl_meets(case, r, attrs, residues=True) -> bool:
    """implementation vs spec for one case, verdict only (used to attribute a failure to a lexical dimension)"""
    try:
        shx, obj, reached = read_obj(case)
    except Exception:
        return False
    if obj is None or type(obj).__name__ != r['cls']:
        return (not attrs or len(case['ps']) == 0) and reached and case['kw'] in BARE_NO_OBJECT
    got = dump_attrs(obj, attrs)
    if not all(meets(got[a], r['spec'][a]) for a in attrs):
        return False
    if case.get('names') and hasattr(obj, 'atoms') and list(obj.atoms) != list(case['names']):
        return False
    if residues and case['kw'] in SUFFIXABLE and residue_obs(obj) != residue_want(r['spec_res']):
        return False
    return True


def check_lex(ctx, cases):
    """every generated spelling is a number of the specification's free-format grammar (`isFreeNumber`, else the generator
    left the domain) and the model of Command._parse_line's test (`cmdIsNum`) classifies it as numeric; names are words"""
    nums, words = set(), set()
    for c in cases:
        lex = c.get('lex') or {}
        nums.update(nums_text(c['ps'], lex.get('spell')))
        if c.get('defs') is not None:
            nums.update(nums_text(c['defs'], lex.get('defs_spell')))
        words.update(c.get('names', []))
    toks = sorted(nums) + sorted(words)
    if not toks:
        return
    ans = ctx.driver.one(dict(p='C16', op='lex', toks=toks))
    for t, r in zip(toks, ans):
        want = t in nums
        if r['spec'] != want:
            raise RuntimeError(f'generator left the domain: token {t!r} free-format number = {r["spec"]}')
        if r['model'] != want:
            raise RuntimeError(f'model cmdIsNum({t!r}) = {r["model"]} differs from the specification (theorem free_number_is_numeric)')


def eval_attrs(ctx, syn, cases):
    ctx.stream('attrs')
    ctx.stream('slot')
    ans = ctx.driver.batch([req_attrs(c) for c in cases])
    pending = []

    def fail(sig, what, payload, kind='property'):
        pending.append((sig, what, payload, kind))

    def flush(case, r, attrs):
        """report the collected failures of one case; for a lexical variant say which dimension is to blame and
        store the reduced case (canonical spelling where the spelling is innocent) as the replay"""
        if not pending:
            return
        suffix, red = '', case
        if case.get('lex') and any(k == 'property' for _, _, _, k in pending):
            lex = case['lex']
            canon = {k: v for k, v in case.items() if k != 'lex'}
            only_case = dict(canon, lex={k: v for k, v in lex.items() if k in ('kw', 'defs_kw')})
            only_spell = dict(canon, lex={k: v for k, v in lex.items() if k in ('spell', 'defs_spell')})
            if impl_meets(canon, r, attrs):
                bc, bs = not impl_meets(only_case, r, attrs), not impl_meets(only_spell, r, attrs)
                suffix = '|lex=' + ('case' if bc and not bs else 'spelling' if bs and not bc else 'case+spelling')
                red = only_case if bc and not bs else only_spell if bs and not bc else case
            else:
                red = canon
        if red.get('suffix') and any(k == 'property' for _, _, _, k in pending) and not suffix.startswith('|lex'):
            # does the same line without the residue suffix meet the spec? then the suffix is to blame
            nosfx = {k: v for k, v in red.items() if k not in ('suffix', 'resi')}
            if impl_meets(nosfx, r, attrs, residues=False):
                suffix += '|sfx=' + suffix_kind(red['suffix'])
        for sig, what, payload, kind in pending:
            if kind == 'property' and not sig.startswith('C16|slot'):
                payload = dict(payload, case=dict(red, stream='attrs'))
                sig += suffix
            cfail(ctx, sig, what, payload, kind)
        pending.clear()

    prev = None
    for case, r in list(zip(cases, ans)) + [(None, None)]:
        if prev is not None:
            flush(*prev)
        if case is None:
            break
        kw = case['kw']
        sp = syn[kw]
        n = len(case['ps'])
        dtag = 'defs' if case.get('defs') is not None else 'nodefs'
        base = f'C16|attrs|kw={kw}'
        attrs = [p['attr'] for p in sp['params'] if not p['attr'].startswith('_')]
        prev = (case, r, attrs)
        shx, obj, reached = read_obj(case)
        lex = case.get('lex') or {}
        ctx.count(['attrs', case], nontrivial=(len(sp['params']) > 1 or case.get('defs') is not None or n > 0),
                  sample=dict(stream='attrs', line=line_of(case), defs=(defs_line(case) if case.get('defs') is not None else None)),
                  tags=[f'kw={kw}', f'form={n}', dtag, 'table' if r['table'] else 'residual', 'case=' + lex.get('kw', 'upper')] +
                       (['sfx=' + suffix_kind(case.get('suffix', ''))] if kw in SUFFIXABLE else []) +
                       sorted({'spell=' + st for st in list(lex.get('spell', [])) + list(lex.get('defs_spell', []))}))
        payload = dict(case=dict(case, stream='attrs'), stream='attrs', line=line_of(case), expected=show(r['spec']), model=show(r['model']))
        if not r['form_ok']:
            raise RuntimeError(f'generator left the domain: {line_of(case)} is not a legal form')
        if obj is None or type(obj).__name__ != r['cls']:
            if not reached:
                exc = constructor_exception(case, r['cls'])
                fail(f'{base}|form={n}|abort|{exc}',
                         f'`{line_of(case)}` is not turned into an object: the constructor raises {exc} and the parse stops there',
                         dict(payload, actual=dict(object=None, reached_end=False, exception=exc)))
            elif n == 0 and kw in BARE_NO_OBJECT:
                pass     # whole instruction reported as not given
            else:
                fail(f'{base}|form={n}|noobject', f'`{line_of(case)}`: no {r["cls"]} object replaces the line',
                         dict(payload, actual=dict(object=repr(obj)[:60], reached_end=reached)))
            # correspondence: the model must predict the abort as well
            if isinstance(r['model'], dict) and 'raise' not in r['model'] and not reached:
                fail(f'{base}|model|abort', f'`{line_of(case)}`: implementation aborts, model builds an object',
                         dict(payload, actual='abort'), kind='correspondence')
            continue
        got = dump_attrs(obj, attrs)
        payload['actual'] = got
        for a in attrs:
            sv = r['spec'][a]
            how = 'given' if 'given' in sv else 'omitted'
            if not meets(got[a], sv):
                what = (f'`{line_of(case)}`' + (f' after `{defs_line(case)}`' if case.get('defs') is not None else '') +
                        f': {r["cls"]}.{a} is {got[a]}, the syntax says {how} {show(sv[how])}')
                fail(f'{base}|attr={a}|{how}' + ('|defs' if (how == 'omitted' and case.get('defs') is not None and kw in RESTRAINTS) else ''),
                         what, payload)
            m = r['model']
            if isinstance(m, dict):
                if 'raise' in m:
                    fail(f'{base}|model|raise', f'`{line_of(case)}`: model raises {m["raise"]}, implementation builds the object',
                             payload, kind='correspondence')
                    break
                mv = m[a]
                ok = (got[a] == mv) if (isinstance(mv, dict) and 'unset' in mv) else \
                    (not (isinstance(got[a], dict) and ('unset' in got[a] or 'error' in got[a])) and same(got[a], mv))
                if not ok:
                    fail(f'{base}|model|attr={a}', f'`{line_of(case)}`: {r["cls"]}.{a} is {got[a]}, the model says {show(mv)}',
                             payload, kind='correspondence')
        # words: the names after the numbers are the atoms, in order
        if case.get('names') and hasattr(obj, 'atoms'):
            if list(obj.atoms) != list(case['names']):
                fail(f'{base}|atoms', f'`{line_of(case)}`: atoms {obj.atoms} are not the names written {case["names"]}', payload)
        # residue class and resolved residue numbers implied by the codeword suffix
        if kw in SUFFIXABLE:
            ro, want = residue_obs(obj), residue_want(r['spec_res'])
            payload['actual_residue'], payload['expected_residue'] = ro, want
            sk = suffix_kind(case.get('suffix', ''))
            if ro != want:
                part = 'residue_class' if ro.get('cls') != want['cls'] else 'residue_number'
                fail(f'{base}|{part}|sfx={sk}', f'`{line_of(case)}` with residues {case.get("resi", [])}: residue class/numbers {ro}, '
                                                f'the suffix addresses {want}', payload)
            elif ro != residue_want(r['model_res']):
                fail(f'{base}|model|residue|sfx={sk}', f'`{line_of(case)}`: residues {ro}, the model says {r["model_res"]}', payload, kind='correspondence')
        # slot: shx.<kw> holds this object
        slot = SLOT_NAME.get(kw, kw.lower() if kw in SLOTS else None)
        if slot is not None and getattr(shx, slot, None) is not obj:
            fail(f'C16|slot|kw={kw}', f'`{line_of(case)}`: shx.{slot} is {getattr(shx, slot, None)!r}, not the object built for the line',
                     dict(payload, stream='attrs', actual=dict(slot=repr(getattr(shx, slot, None))[:60])))


def set_steps(case):
    """the history of a set case: successive texts handed to Command.set() on the SAME object"""
    if 'steps' in case:
        return case['steps']
    return [dict(ps=case['ps2'], lex=case.get('lex2'))]


def eval_set(ctx, syn, cases):
    ctx.stream('set')
    flat = [(ci, si, st) for ci, c in enumerate(cases) for si, st in enumerate(set_steps(c))]
    ans = ctx.driver.batch([dict(p='C16', op='attrs', kw=cases[ci]['kw'], ps=st['ps'], defs=None) for ci, si, st in flat])
    per = {}
    for (ci, si, st), r in zip(flat, ans):
        per.setdefault(ci, []).append((st, r))
    for ci, case in enumerate(cases):
        kw = case['kw']
        sp = syn[kw]
        steps = per[ci]
        shx, obj, reached = read_obj(dict(kw=kw, ps=case['ps'], lex=case.get('lex')))
        lines = [line_of(dict(kw=kw, ps=st['ps'], lex=st.get('lex'))) for st, _ in steps]
        ctx.count(['set', case], nontrivial=True, sample=dict(stream='set', before=line_of(case), set=lines),
                  tags=['set', f'kw={kw}', 'forms=' + '->'.join(str(len(x)) for x in [case['ps']] + [st['ps'] for st, _ in steps]), f'steps={len(steps)}'])
        cls = steps[0][1]['cls']
        if obj is None or type(obj).__name__ != cls:
            continue        # reported by the attrs stream
        attrs = [p['attr'] for p in sp['params'] if not p['attr'].startswith('_')]
        for si, ((st, r), new_line) in enumerate(zip(steps, lines)):
            hist = [line_of(case)] + lines[:si]
            # the replay is the history up to the failing step
            payload = dict(case=dict({k: v for k, v in case.items() if k not in ('ps2', 'lex2', 'steps')}, steps=[x for x, _ in steps[:si + 1]], stream='set'),
                           stream='set', history=hist, set=new_line, expected=show(r['spec']))
            try:
                if case.get('touch_lists'):
                    # edit list-valued attributes IN PLACE before the next text is set: a default list shared between
                    # objects (or with the class) would now be reported, by this and by every later object, as changed
                    for a in attrs:
                        v = getattr(obj, a, None)
                        if isinstance(v, list) and v and all(isinstance(x, (int, float)) and not isinstance(x, bool) for x in v):
                            v[0] = v[0] + 0.125
                obj.set(new_line)
                text = str(obj)
            except Exception as e:
                cfail(ctx, f'C16|set|kw={kw}|raise', f'{cls}.set({new_line!r}) after {hist} raises {type(e).__name__}', dict(payload, actual=type(e).__name__))
                break
            got = dump_attrs(obj, attrs)
            payload['actual'] = dict(attrs=got, text=text)
            bad = False
            for a in attrs:
                if not meets(got[a], r['spec'][a]):
                    sv = r['spec'][a]
                    how = 'given' if 'given' in sv else 'omitted'
                    cfail(ctx, f'C16|set|kw={kw}|attr={a}|{how}', f'{hist} then {cls}.set({new_line!r}): {a} is {got[a]}, the syntax says {how} {show(sv[how])}', payload)
                    bad = True
            toks = tokens_of(text)
            want = denote(sp, st['ps'])
            if [t.upper() for t in text.split()[:1]] != [kw] or toks is None or len(toks) not in sp['forms'] or not same_denotation(denote(sp, toks), want):
                cfail(ctx, f'C16|set|kw={kw}|text', f'{hist} then {cls}.set({new_line!r}): the written text is {text!r}, which does not denote {want}', payload)
                bad = True
            if bad:
                break
        else:
            if case.get('touch_lists') and steps:
                # a NEW object parsed after that history, same text as the last step: same values
                st, r = steps[-1]
                _, fresh, _ = read_obj(dict(kw=kw, ps=st['ps'], lex=st.get('lex')))
                if fresh is not None and type(fresh).__name__ == cls:
                    got = dump_attrs(fresh, attrs)
                    for a in attrs:
                        if not meets(got[a], r['spec'][a]):
                            sv = r['spec'][a]
                            how = 'given' if 'given' in sv else 'omitted'
                            cfail(ctx, f'C16|set|kw={kw}|attr={a}|{how}|fresh-object',
                                  f'{[line_of(case)] + lines} on one object (list attributes edited in place), then a new file with `{lines[-1]}`: '
                                  f'{a} is {got[a]}, the syntax says {how} {show(sv[how])}',
                                  dict(case=dict(case, stream='set'), stream='set', history=[line_of(case)] + lines, expected=show(r['spec']), actual=got))


def eval_ls(ctx, syn, cases):
    ctx.stream('ls')
    ans = ctx.driver.batch([dict(p='C16', op='ls_set', cgls=c['kw'] == 'CGLS', ps=c['ps'], n=c['n']) for c in cases])
    for case, r in zip(cases, ans):
        kw = case['kw']
        shx, obj, reached = read_obj(dict(kw=kw, ps=case['ps'], lex=case.get('lex')))
        ctx.count(['ls', case], nontrivial=len(case['ps']) > 1, sample=dict(stream='ls', line=line_of(case), n=case['n'], via=case['via']),
                  tags=['ls', f'kw={kw}', f'form={len(case["ps"])}', 'via=' + case['via'], 'nrf=0' if case['ps'][1:2] == [0] else 'nrf!=0'])
        payload = dict(case=dict(case, stream='ls'), stream='ls', line=line_of(case), expected=r.get('spec'), model=r.get('tokens'))
        if obj is None or type(obj).__name__ != 'LSCycles':
            continue
        try:
            if case['via'] == 'number':
                obj.number = case['n']
            else:
                obj.set_refine_cycles(case['n'])
            text = str(obj)
            num = obj.number
        except Exception as e:
            cfail(ctx, f'C16|ls|{case["via"]}|raise', f'`{line_of(case)}`: setting the cycle number raises {type(e).__name__}', dict(payload, actual=type(e).__name__))
            continue
        payload['actual'] = dict(text=text, number=num)
        toks = tokens_of(text)
        form = f'form={len(case["ps"])}|' + ('nrf=0' if case['ps'][1:2] == [0] else 'nrf!=0')
        den = None if toks is None or not 1 <= len(toks) <= 3 else [int(x) for x in (toks + [0, 0])[:3]]
        if [t.upper() for t in text.split()[:1]] != [kw] or den != r['spec'] or num != case['n']:
            cfail(ctx, f'C16|ls|{form}|text', f'`{line_of(case)}` then number = {case["n"]}: written text {text!r} denotes {den}, expected {r["spec"]}', payload)
        elif toks is not None and [int(x) for x in toks] != r['tokens']:
            cfail(ctx, f'C16|ls|{form}|model', f'`{line_of(case)}` then number = {case["n"]}: text {text!r}, model prints {r["tokens"]}', payload, kind='correspondence')


def eval_wght(ctx, syn, cases):
    from shelxfile import Shelxfile
    ctx.stream('wght')
    sp = syn['WGHT']

    def six(ps):
        d = denote(sp, ps)
        return [d[k] for k in 'abcdef']
    ans = ctx.driver.batch([dict(p='C16', op='wght', cur=six(c['cur']), sug=six(c['sug'])) for c in cases])
    for case, r in zip(cases, ans):
        text, _ = render(dict(kw='WGHT', ps=case['cur'], lex=case.get('lex')))
        text += line_of(dict(kw='WGHT', ps=case['sug'], lex=case.get('lex2'))) + '\n'
        shx = Shelxfile()
        shx.read_string(text)
        special = len(case['sug']) == 6 and abs(sum(case['sug'][2:]) - 0.33333) < 1e-12 and case['sug'][2:] != [0, 0, 0, 0.33333]
        ctx.count(['wght', case], nontrivial=True, sample=dict(stream='wght', cur=case['cur'], sug=case['sug']),
                  tags=['wght', f'cur={len(case["cur"])}', f'sug={len(case["sug"])}'] + (['cdef-sum=default'] if special else []))
        payload = dict(case=dict(case, stream='wght'), stream='wght', expected=show(r['spec']), model=show(r['tokens']))
        if shx.wght is None or shx.wght_suggested is None:
            cfail(ctx, 'C16|wght|noobject', f'WGHT before and after END: wght={shx.wght!r} suggested={shx.wght_suggested!r}', dict(payload, actual=None))
            continue
        shx.update_weight()
        out = str(shx.wght)
        toks = tokens_of(out)
        payload['actual'] = out
        want = dict(zip('abcdef', [float(x) for x in r['spec']]))
        sig = 'C16|wght|cdef-sum=default' if special else 'C16|wght|text'
        if toks is None or len(toks) not in sp['forms'] or not same_denotation(denote(sp, toks), want):
            cfail(ctx, sig, f'update_weight() with suggestion {case["sug"]}: written text {out!r} does not denote {want}', payload)
        elif [float(x) for x in r['tokens']] != toks and not all(core.close(x, y) for x, y in zip(toks, r['tokens'])):
            cfail(ctx, 'C16|wght|model', f'update_weight(): text {out!r}, model prints {show(r["tokens"])}', payload, kind='correspondence')


# ------------------------------------------------------------------------------------------------

def run(ctx):
    syn = syntax(ctx)
    ctx.rule = ('every legal form (prefix of the parameter list) of every keyword of the syntax table, values pairwise distinct and '
                'different from every default, restraints additionally after each of the six DEFS forms and with each kind of residue suffix on the codeword '
                '(_n, _CLASS in either case, _*) inside a file with several residues (one class twice, one residue without class); distinct by (keyword, values, '
                'DEFS values, keyword case, number spelling); each form in canonical spelling, in lower case with exponent notation and in mixed case with '
                'leading-dot / plus / trailing-dot / leading-zero spellings (DEFS line included); non-trivial = the line has a parameter, or an omitted one with a documented default, or follows a DEFS. '
                'Setter streams: histories of 1-3 Command.set calls on one object between long and short forms, LSCycles.number/set_refine_cycles on every form incl. nrf = 0, '
                'update_weight with 2- and 6-parameter schemes')
    ctx.assumptions = ['integer-kind parameters (mn, N, npeaks, nls …) are written as integers (hypothesis intsOK of table_attr_spec)',
                       'numbers are decimals in any free-format spelling (exponent, leading ./+, trailing ., leading 0); no free-variable codes in instruction parameters',
                       'residue numbers are pairwise different and an addressed class has at least one residue (hypotheses of residue_spec)',
                       'keyword case and number spelling are lexical: compared implementation vs spec only (the Lean model starts from the numeric values)',
                       'objects are observed where they replace their line in _reslist; AFIX/PART are followed by an atom and AFIX 0/PART 0']
    # broken table obligations name their failing form (DESIGN 4, step 6b): those forms are generated below in any case
    for kw, sp in syn.items():
        t = sp.get('table')
        if isinstance(t, dict) and not t['conforms']:
            ctx.note(f'slot table of {sp["cls"]} does not conform to the syntax of {kw}: first mismatch {t["first_mismatch"]}')
    reps = ctx.budget(3, 30)
    cases = []
    for kw, sp in syn.items():
        forms = sp['forms'] if sp['finite'] else [0] * 3
        for n in forms:
            dforms = [None]
            if kw in RESTRAINTS:
                dforms += list(range(6)) if (ctx.tier == 'thorough' or ctx.escalated) else [0, ctx.rng.randint(1, 4), 5]
            for k in dforms:
                thorough = ctx.tier == 'thorough' or ctx.escalated
                nrep = reps + (3 if kw in SUFFIXABLE else 0)
                for rep in range(nrep):
                    ps = gen_values(ctx.rng, kw, sp, n)
                    c = dict(kw=kw, ps=ps, stream='attrs')
                    if k is not None:
                        c['defs'] = gen_defs(ctx.rng, k)
                        if rep % 3 == 1 or (thorough and ctx.rng.random() < 0.3):
                            c['defs0'] = gen_defs(ctx.rng, 5)
                    if kw in NAMES:
                        c['names'] = NAMES[kw]
                    # quick: repetitions 0-2 are the lexical styles without suffix, 3-5 the three suffix kinds in canonical
                    # spelling; thorough: every repetition draws style and suffix independently
                    lex = make_lex(ctx.rng, rep if rep < reps else 0, ps, c.get('defs'))
                    if lex:
                        c['lex'] = lex
                    if kw in SUFFIXABLE:
                        kind = ['num', 'cls', 'star'][rep - reps] if rep >= reps else (ctx.rng.choice(['none', 'num', 'cls', 'star']) if thorough else 'none')
                        if kind != 'none':
                            c['resi'], c['suffix'] = gen_residues(ctx.rng, kind)
                    cases.append(c)
    # setters (Restraint classes have no set())
    settable = [kw for kw, sp in syn.items() if sp['finite'] and kw not in RESTRAINTS and kw not in ('EADP', 'EXYZ', 'DEFS', 'CELL', 'ZERR', 'LATT', 'L.S.', 'CGLS', 'AFIX', 'PART')]
    for kw in settable:
        sp = syn[kw]
        forms = sp['forms']
        for rep in range(ctx.budget(3, 40)):
            # histories on one object: start from a long form, then shorter and longer texts in turn, so that every
            # omitted parameter has to fall back to its default whatever the object held before
            n0 = max(forms) if rep % 2 == 0 else ctx.rng.choice(forms)
            nsteps = 1 if rep == 1 else ctx.rng.choice([2, 3])
            seq = [min(forms) if rep == 0 else ctx.rng.choice(forms)]
            while len(seq) < nsteps:
                seq.append(ctx.rng.choice(forms))
            c = dict(kw=kw, ps=gen_values(ctx.rng, kw, sp, n0), stream='set', steps=[])
            if any(p['width'] > 1 for p in sp['params']):
                # list-valued parameters (matrices, dx dy dz): every second history starts from the form that omits them,
                # edits the list in place and sets short forms again
                c['touch_lists'] = True
                if rep % 2 == 0:
                    c['ps'] = gen_values(ctx.rng, kw, sp, min(forms))
            l0 = make_lex(ctx.rng, (rep + 1) % 4, c['ps'])
            if l0:
                c['lex'] = l0
            for i, n in enumerate(seq):
                ps = gen_values(ctx.rng, kw, sp, n)
                st = dict(ps=ps)
                lx = make_lex(ctx.rng, (rep + i) % 4, ps)
                if lx:
                    st['lex'] = lx
                c['steps'].append(st)
            cases.append(c)
    for kw in ('L.S.', 'CGLS'):
        for n in (1, 2, 3):
            for via in ('number', 'set_refine_cycles'):
                for rep in range(ctx.budget(4, 60)):
                    c = dict(kw=kw, ps=gen_values(ctx.rng, kw, syn[kw], n), n=ctx.rng.choice([1, 3, 4, 12, 50, -1]), via=via, stream='ls')
                    lex = make_lex(ctx.rng, rep % 4, c['ps'])
                    if lex:
                        c['lex'] = lex
                    cases.append(c)
    spw = syn['WGHT']
    for rep in range(ctx.budget(10, 300)):
        c = dict(cur=gen_values(ctx.rng, 'WGHT', spw, ctx.rng.choice([2, 2, 6])), sug=gen_values(ctx.rng, 'WGHT', spw, ctx.rng.choice([2, 2, 6])), stream='wght')
        l1, l2 = make_lex(ctx.rng, rep % 4, c['cur']), make_lex(ctx.rng, (rep + 2) % 4, c['sug'])
        if l1:
            c['lex'] = l1
        if l2:
            c['lex2'] = l2
        cases.append(c)
    # the one point the WGHT printer's shortcut excludes (hypothesis of wght_roundtrip): c+d+e+f equal to the default sum
    cases.append(dict(cur=[0.05, 0.7], sug=[0.06, 0.8, 0.0, 0.0, 0.1, 0.23333], stream='wght'))
    # f close to, but not, the documented .33333 while c, d, e are at their defaults: the short form would lose it
    for f in (0.3335, 0.3333, 0.333, 0.33334):
        cases.append(dict(cur=[0.05, 0.7], sug=[0.06, 0.8, 0.0, 0.0, 0.0, f], stream='wght'))
    # the (few) history cases first, then the bulk of the attribute cases
    cases.sort(key=lambda c: 0 if c.get('stream') != 'attrs' else 1)
    for i in range(0, len(cases), 400):
        evaluate(ctx, cases[i:i + 400])

"""
C15 — angles, torsion angles, named distances and the neighbour search match textbook geometry.

Streams (DESIGN 3.2):
  angle     Atoms.angle           vs  model `angleModel`,   spec `specAngle` (atan2), symmetry / rigid motion / mirror
  torsion   Atoms.torsion_angle   vs  model `torsionModel`, spec `specTorsion` (atan2, sign of the triple product),
                                      reversal / rigid motion / mirror image / clockwise-by-construction / range
  distance  Atoms.distance        vs  model `namedDistance`, spec `specDistance` (metric tensor) and the harness's own
                                      Euclidean distance
  around    Atom.find_atoms_around vs model `findAround`,   spec `specAround` and the harness's own brute force
The atoms the geometry functions are asked about enter the model in every way the API offers (kind `route`): parsed
from the file text, made by `Shelxfile.add_atom()` (Cartesian coordinates by misc.frac_to_cart), moved with the
`Atom.frac_coords` setter *after* the functions have been called once on the same object (a history), and (kind
`grow`) the symmetry-generated atoms returned by `Shelxfile.grow()`; mostly in clearly oblique cells. The neighbour
search likewise sees atoms made by add_atom() and an atom moved between two rounds of queries.
Every case is a real file read with `read_string`; the atoms' fractional coordinates are computed from the
Cartesian points with the harness's own orthogonalisation (upper triangular, right handed), written with 18
decimals, and the reference positions are re-computed from the numbers that were actually written.
Only what the property states is observed: the returned numbers / the returned set of atoms.
"""
import contextlib
import io
import math

from .. import core

TOL_DEG = 1e-6        # the property's tolerance on angles (degrees)
TOL_PLANAR = 1e-4     # acos looses half of the digits at 0 / 180 degrees
TOL_DIST = 1e-9
KNOWN_MINUS180 = 'C15|torsion|range|trans-planar|-180'


# ------------------------------------------------------------------------------------------------
# small vector algebra of the harness (independent of the code under test and of the Lean model)

def sub(a, b):
    return [a[0] - b[0], a[1] - b[1], a[2] - b[2]]


def add(a, b):
    return [a[0] + b[0], a[1] + b[1], a[2] + b[2]]


def dot(a, b):
    return a[0] * b[0] + a[1] * b[1] + a[2] * b[2]


def cross(a, b):
    return [a[1] * b[2] - a[2] * b[1], a[2] * b[0] - a[0] * b[2], a[0] * b[1] - a[1] * b[0]]


def norm(a):
    return math.sqrt(dot(a, a))


def matvec(m, v):
    return [dot(m[0], v), dot(m[1], v), dot(m[2], v)]


def ortho(cell):
    """orthogonalisation matrix: a along x, b in the xy plane, c with positive z (right handed)"""
    a, b, c, al, be, ga = cell
    ca, cb, cg = (math.cos(math.radians(x)) for x in (al, be, ga))
    sg = math.sin(math.radians(ga))
    m12 = c * (ca - cb * cg) / sg
    m22 = math.sqrt(c * c - (c * cb) ** 2 - m12 ** 2)
    return [[a, b * cg, c * cb], [0.0, b * sg, m12], [0.0, 0.0, m22]]


def to_frac(m, p):
    """exact inverse of the upper triangular matrix by back substitution"""
    z = p[2] / m[2][2]
    y = (p[1] - m[1][2] * z) / m[1][1]
    x = (p[0] - m[0][1] * y - m[0][2] * z) / m[0][0]
    return [x, y, z]


def quat_matrix(q):
    w, x, y, z = q
    n = math.sqrt(w * w + x * x + y * y + z * z)
    w, x, y, z = w / n, x / n, y / n, z / n
    return [[1 - 2 * (y * y + z * z), 2 * (x * y - z * w), 2 * (x * z + y * w)],
            [2 * (x * y + z * w), 1 - 2 * (x * x + z * z), 2 * (y * z - x * w)],
            [2 * (x * z - y * w), 2 * (y * z + x * w), 1 - 2 * (x * x + y * y)]]


def householder(nv):
    n = norm(nv)
    u = [c / n for c in nv]
    return [[(1.0 if i == j else 0.0) - 2 * u[i] * u[j] for j in range(3)] for i in range(3)]


def centroid(pts):
    return [sum(p[i] for p in pts) / len(pts) for i in range(3)]


def move(pts, mat, shift):
    c = centroid(pts)
    return [add(add(matvec(mat, sub(p, c)), c), shift) for p in pts]


def ref_angle(p1, p2, p3):
    u, w = sub(p1, p2), sub(p3, p2)
    return math.degrees(math.atan2(norm(cross(u, w)), dot(u, w)))


def ref_torsion(p1, p2, p3, p4):
    b1, b2, b3 = sub(p2, p1), sub(p3, p2), sub(p4, p3)
    n1, n2 = cross(b1, b2), cross(b2, b3)
    return math.degrees(math.atan2(norm(b2) * dot(b1, n2), dot(n1, n2)))


def fnum(x):
    """a coordinate as written into the file (fixed notation, no exponent), and the value the parser will read"""
    s = f'{x:.18f}'
    return s, float(s)


# ------------------------------------------------------------------------------------------------
# generators

def rand_cell(rng, big, kinds=None):
    lo, hi = (22.0, 45.0) if big else (6.0, 30.0)
    kind = kinds and rng.choice(kinds) or rng.choice(['cubic40', 'ortho', 'mono', 'tric', 'tric', 'hex', 'rhomb'])
    a, b, c = (round(rng.uniform(lo, hi), 3) for _ in range(3))
    al = be = ga = 90.0
    if kind == 'cubic40':
        a = b = c = 40.0
    elif kind == 'mono':
        be = round(rng.uniform(91, 125), 2)
    elif kind == 'tric':
        al, be, ga = (round(rng.uniform(65, 115), 2) for _ in range(3))
    elif kind == 'hex':
        b = a
        ga = 120.0
    elif kind == 'rhomb':
        b = c = a
        al = be = ga = round(rng.uniform(58, 112), 2)
    return [a, b, c, al, be, ga], kind


def rand_quat(rng):
    return [rng.gauss(0, 1) for _ in range(4)]


def rand_unit(rng):
    while True:
        v = [rng.gauss(0, 1) for _ in range(3)]
        if norm(v) > 0.1:
            return v


def nondegenerate(pts):
    """bounded away from collinearity and from coincidence (the property's domain)"""
    for i in range(3):
        if norm(sub(pts[i + 1], pts[i])) < 0.5:
            return False
    for i in range(2):
        u, w = sub(pts[i], pts[i + 1]), sub(pts[i + 2], pts[i + 1])
        if norm(cross(u, w)) / (norm(u) * norm(w)) < 0.05:
            return False
    return True


def build_quadruple(rng, phi_deg):
    """A, B, C, D with the torsion angle phi by construction, in the frame where the definition is read off:
    B at the origin, C on +z (the viewer at B looks along +z), A above +x.  Seen along +z the rotation that
    takes +x to +y is clockwise, so D sits over (cos phi, sin phi) for a clockwise twist of phi."""
    l2 = rng.uniform(1.1, 1.7)
    r1, r2 = rng.uniform(0.6, 1.6), rng.uniform(0.6, 1.6)
    h1, h2 = rng.uniform(-1.0, 1.0), rng.uniform(-1.0, 1.0)
    ph = math.radians(phi_deg)
    return [[r1, 0.0, h1], [0.0, 0.0, 0.0], [0.0, 0.0, l2], [r2 * math.cos(ph), r2 * math.sin(ph), l2 + h2]]


def make_geom(rng):
    mode = rng.choices(['box', 'built', 'planar'], [5, 5, 1])[0]
    cell, kind = rand_cell(rng, big=(mode == 'box'))
    phi = None
    while True:
        if mode == 'box':
            pts = [[rng.uniform(0, 40) for _ in range(3)] for _ in range(4)]
            if not nondegenerate(pts) or abs(math.sin(math.radians(ref_torsion(*pts)))) < 0.02:
                continue
        else:
            if mode == 'planar':
                phi = rng.choice([0.0, 180.0, 180.0, -179.99999, 179.99999, 1e-5, -1e-5])
            else:
                phi = rng.choice([rng.uniform(-179, 179), rng.uniform(-179, 179), rng.choice([90, -90, 60, -60, 120, -120, 1.5, -1.5, 178.5, -178.5])])
                if abs(math.sin(math.radians(phi))) < 0.02:
                    continue
            pts = build_quadruple(rng, phi)
            m = ortho(cell)
            org = matvec(m, [rng.uniform(-0.5, 1.5) for _ in range(3)])
            pts = move(pts, quat_matrix(rand_quat(rng)), org)
            if not nondegenerate(pts):
                continue
        break
    return dict(kind='geom', mode=mode, cellkind=kind, cell=cell, pts=pts, phi=phi,
                quat=rand_quat(rng), shift=[rng.uniform(-4, 4) for _ in range(3)],
                mirror=rand_unit(rng), mshift=[rng.uniform(-4, 4) for _ in range(3)])


WITNESS = dict(kind='geom', mode='planar', cellkind='cubic40', cell=[40.0, 40.0, 40.0, 90.0, 90.0, 90.0],
               pts=[[1.0, 0.0, 0.0], [0.0, 0.0, 0.0], [0.0, 0.0, 1.0], [-1.0, 0.0, 1.0]], phi=180.0,
               quat=[1.0, 0.0, 0.0, 0.0], shift=[2.0, 3.0, 4.0], mirror=[0.0, 1.0, 0.0], mshift=[0.0, 0.0, 0.0])
# the quadruple of the `example`s in ShelxProps/C15.lean: +90 degrees, and the witness of the repaired typo
CLOCKWISE = dict(WITNESS, mode='built', pts=[[1.0, 0.0, 0.0], [0.0, 0.0, 0.0], [0.0, 0.0, 1.0], [0.0, 1.0, 1.0]], phi=90.0)
TYPO = dict(WITNESS, mode='built', pts=[[0.0, -1.0, -2.0], [0.0, 0.0, 0.0], [0.0, 0.0, 1.0], [1.0, 0.0, 1.0]], phi=90.0)


OBLIQUE = ['tric', 'tric', 'tric', 'rhomb', 'rhomb', 'hex', 'mono', 'ortho']
ROUTES = ['parsed', 'added', 'moved', 'added+moved']


def general(pts):
    return nondegenerate(pts) and abs(math.sin(math.radians(ref_torsion(*pts)))) > 0.02


def make_route(rng):
    """four atoms C1..C4 that enter the model in different ways; two rounds of observations on ONE Shelxfile object:
    after the add_atom() calls (moved atoms still at their first position), and after the frac_coords assignments"""
    cell, kind = rand_cell(rng, big=False, kinds=OBLIQUE)
    m = ortho(cell)
    while True:
        routes = [rng.choice(ROUTES) for _ in range(4)]
        if any(r != 'parsed' for r in routes):
            break
    while True:
        phi = rng.uniform(-179, 179)
        org = matvec(m, [rng.uniform(-0.3, 1.3) for _ in range(3)])
        pts = move(build_quadruple(rng, phi), quat_matrix(rand_quat(rng)), org)
        first = [add(p, [rng.uniform(-0.9, 0.9) for _ in range(3)]) if 'moved' in r else list(p) for p, r in zip(pts, routes)]
        if general(pts) and general(first):
            break
    return dict(kind='route', cellkind=kind, cell=cell, routes=routes, first=first, pts=pts)


def make_grow(rng):
    """a three-atom chain next to the inversion centre (1/2,1/2,1/2) of a centrosymmetric structure: C1-C1' is a bond
    across the centre, so grow() returns the chain and its image C3-C2-C1-C1'-C2'-C3'"""
    cell, kind = rand_cell(rng, big=False, kinds=OBLIQUE)
    m = ortho(cell)
    cen = matvec(m, [0.5, 0.5, 0.5])
    for _ in range(1000):
        u = rand_unit(rng)
        n = norm(u)
        r = rng.uniform(0.66, 0.77)
        c1 = add(cen, [x / n * r for x in u])
        v = rand_unit(rng)
        c2 = add(c1, [x / norm(v) * rng.uniform(1.38, 1.54) for x in v])
        w = rand_unit(rng)
        c3 = add(c2, [x / norm(w) * rng.uniform(1.38, 1.54) for x in w])
        pts = [c1, c2, c3]
        img = [sub([2 * x for x in cen], p) for p in pts]
        ok = norm(sub(c3, c1)) > 2.2
        for i, p in enumerate(pts):
            for j, q in enumerate(img):
                if (i, j) != (0, 0) and norm(sub(p, q)) < 2.3:
                    ok = False
        if ok and general([c3, c2, c1, img[0]]) and general([c2, c1, img[0], img[2]]):
            return dict(kind='grow', cellkind=kind, cell=cell, pts=pts)
    raise RuntimeError('no chain found')


def make_around(rng):
    cell, kind = rand_cell(rng, big=False)
    m = ortho(cell)
    n = rng.randint(5, 14)
    org = matvec(m, [rng.uniform(0.0, 1.0) for _ in range(3)])
    parts = rng.choice([[0, 1, 2], [0, 1, 2], [0, -1, 1], [0, 3], [0]])
    atoms = []
    for k in range(n):
        p = add(org, [rng.uniform(-1.8, 1.8) for _ in range(3)])
        atoms.append(dict(name=f'{rng.choice(["C", "N", "O"])}{k + 1}', resi=0, part=rng.choice(parts), q=False, cart=p, u=0.04))
    # a lattice-translated image of the first atom: far away in space, identical modulo the lattice
    if rng.random() < 0.5:
        t = matvec(m, rng.choice([[1, 0, 0], [0, 1, 0], [0, 0, 1], [-1, 0, 0], [1, 1, 0]]))
        atoms.append(dict(name=f'C{n + 1}', resi=0, part=atoms[0]['part'], q=False, cart=add(atoms[0]['cart'], t), u=0.04))
    # residues: same names may repeat in another residue
    nres = rng.randint(0, 4)
    for k in range(nres):
        src = rng.choice(atoms[:n])
        r = rng.random()
        if r < 0.35:
            # a "twin": an atom of another residue whose line in the file is identical to the line of `src`
            atoms.append(dict(name=src['name'], resi=k + 1, part=src['part'], q=False, cart=list(src['cart']), u=0.04, twin=True))
        else:
            p = add(org, [rng.uniform(-1.8, 1.8) for _ in range(3)])
            atoms.append(dict(name=src['name'], resi=k + 1, part=rng.choice(parts), q=False, cart=p, u=0.04))
    for k in range(rng.randint(0, 3)):
        p = add(org, [rng.uniform(-1.5, 1.5) for _ in range(3)])
        atoms.append(dict(name=f'Q{k + 1}', resi=0, part=0, q=True, cart=p, u=0.05))
    # file order: residue 0 atoms sorted by part block, then residues, then Q-peaks (after END)
    body = [a for a in atoms if not a['q']]
    body.sort(key=lambda a: (a['resi'],))
    atoms = body + [a for a in atoms if a['q']]
    # atoms that are not in the file text but made by Shelxfile.add_atom() after reading (they come last in shx.atoms)
    for k in range(rng.choice([0, 0, 1, 2])):
        p = add(org, [rng.uniform(-1.8, 1.8) for _ in range(3)])
        atoms.append(dict(name=f'{rng.choice(["C", "N", "O"])}{40 + k}', resi=0, part=rng.choice(parts), q=False, cart=p, u=0.04, via='add'))

    def some_queries(atoms, must=None):
        qs = []
        for k in range(rng.randint(3, 6)):
            i = must if (must is not None and k == 0) else rng.randrange(len(atoms))
            for _ in range(50):
                d = round(rng.choice([rng.uniform(0.3, 1.2), rng.uniform(1.0, 2.5), rng.uniform(2.0, 4.5)]), 4)
                if all(abs(norm(sub(a['cart'], atoms[i]['cart'])) - d) > 1e-4 for a in atoms):
                    break
            part = rng.choice(parts + [atoms[i]['part'], 0, 7, -atoms[i]['part']])
            qs.append(dict(i=i, d=d, part=part))
        return qs

    case = dict(kind='around', cellkind=kind, cell=cell, atoms=atoms, queries=some_queries(atoms))
    # a history: one atom is moved with the frac_coords setter after the first round of queries, then a second round
    if rng.random() < 0.5:
        i = rng.randrange(len(atoms))
        new = add(org, [rng.uniform(-1.8, 1.8) for _ in range(3)])
        after = [dict(a, cart=new) if k == i else a for k, a in enumerate(atoms)]
        case['move'] = dict(i=i, cart=new)
        case['queries2'] = some_queries(after, must=rng.choice([i, None]))
    return case


# ------------------------------------------------------------------------------------------------
# files

HEAD = """TITL C15
CELL 0.71073 {} {} {} {} {} {}
ZERR 1 0.001 0.001 0.001 0.01 0.01 0.01
LATT -1
SFAC C N O
UNIT 4 4 4
FVAR 1.0
"""

SFAC = {'C': 1, 'N': 2, 'O': 3, 'Q': 1}


def atom_line(name, frac_txt, sof='11.000000', u='0.040000', extra=''):
    return f'{name:<5}{SFAC[name[0]]:>2}  {frac_txt[0]}  {frac_txt[1]}  {frac_txt[2]}  {sof}  {u}{extra}'


def place(m, cart):
    """fractional coordinates as text, and the Cartesian position of what the text says"""
    txt, val = zip(*(fnum(x) for x in to_frac(m, cart)))
    return list(txt), list(val), matvec(m, list(val))


def geom_file(case):
    """12 atoms: C1..C4 the quadruple (residue 0), N1..N4 its image under a proper rigid motion (residue 1),
    O1..O4 its mirror image (residue 2)"""
    m = ortho(case['cell'])
    sets = [('C', 0, case['pts']),
            ('N', 1, move(case['pts'], quat_matrix(case['quat']), case['shift'])),
            ('O', 2, move(case['pts'], householder(case['mirror']), case['mshift']))]
    lines = [HEAD.format(*case['cell']).rstrip('\n')]
    fracs, carts = {}, {}
    for el, resi, pts in sets:
        if resi:
            lines.append(f'RESI {resi} R{resi}')
        for k, p in enumerate(pts):
            txt, val, c = place(m, p)
            if max(abs(v) for v in val) > 3.9:
                return None
            lines.append(atom_line(f'{el}{k + 1}', txt))
            fracs[f'{el}{k + 1}'] = val
            carts[f'{el}{k + 1}'] = c
    lines += ['RESI 0', 'HKLF 4', 'END']
    return '\n'.join(lines) + '\n', fracs, carts


def around_file(case):
    m = ortho(case['cell'])
    lines = [HEAD.format(*case['cell']).rstrip('\n')]
    fracs, carts = [], []
    resi, part = 0, 0
    ended = False
    for a in case['atoms']:
        txt, val, c = place(m, a['cart'])
        if max(abs(v) for v in val) > 3.9:
            return None
        fracs.append(val)
        carts.append(c)
        if a.get('via') == 'add':
            continue
        if a['q'] and not ended:
            if part != 0:
                lines.append('PART 0')
                part = 0
            if resi != 0:
                lines.append('RESI 0')
                resi = 0
            lines += ['HKLF 4', 'END']
            ended = True
        if not a['q']:
            if a['resi'] != resi:
                if part != 0:
                    lines.append('PART 0')
                    part = 0
                resi = a['resi']
                lines.append(f'RESI {resi} R{resi}' if resi else 'RESI 0')
            if a['part'] != part:
                part = a['part']
                lines.append(f'PART {part}')
            lines.append(atom_line(a['name'], txt))
        else:
            lines.append(atom_line(a['name'], txt, u='0.050000', extra='  1.50'))
    if not ended:
        if part != 0:
            lines.append('PART 0')
        if resi != 0:
            lines.append('RESI 0')
        lines += ['HKLF 4', 'END']
    return '\n'.join(lines) + '\n', fracs, carts


def call(f, *a):
    try:
        return f(*a)
    except Exception as e:  # the property's observable raised
        return f'raise {type(e).__name__}'


def isnum(x):
    return isinstance(x, (int, float)) and x == x


def residual(ctx, key, a, b):
    """largest difference implementation vs reference seen in the run (the float residual of DESIGN 2.1)"""
    if isnum(a) and isnum(b):
        ctx.extra[key] = max(ctx.extra.get(key, 0.0), abs(a - b))


# ------------------------------------------------------------------------------------------------
# geometry streams

def observe_geom(case, text):
    from shelxfile import Shelxfile
    shx = Shelxfile()
    shx.read_string(text)
    at = {a.fullname.upper(): a for a in shx.atoms.all_atoms}
    want = [f'{el}{k}_{r}' for el, r in (('C', 0), ('N', 1), ('O', 2)) for k in (1, 2, 3, 4)]
    if sorted(at) != sorted(want):
        return dict(error=f'parse: atoms {sorted(at)} expected {want}')
    A = shx.atoms
    c, n, o = ([at[f'{el}{k}_{r}'] for k in (1, 2, 3, 4)] for el, r in (('C', 0), ('N', 1), ('O', 2)))
    obs = dict(
        ang=call(A.angle, c[0], c[1], c[2]), ang_swap=call(A.angle, c[2], c[1], c[0]),
        ang_rigid=call(A.angle, n[0], n[1], n[2]), ang_mirror=call(A.angle, o[0], o[1], o[2]),
        ang2=call(A.angle, c[1], c[2], c[3]),
        tor=call(A.torsion_angle, *c), tor_rev=call(A.torsion_angle, *c[::-1]),
        tor_rigid=call(A.torsion_angle, *n), tor_mirror=call(A.torsion_angle, *o),
        # names: bare (residue 0), with _0, with a residue number, lower case
        d12=call(A.distance, 'C1', 'C2'), d14=call(A.distance, 'C1_0', 'c4'), d23=call(A.distance, 'C2_0', 'C3_0'),
        d12_rigid=call(A.distance, 'N1_1', 'N2_1'), d14_mirror=call(A.distance, 'O1_2', 'o4_2'),
        dcross=call(A.distance, 'C3', 'N2_1'))
    return obs


def eval_geom(ctx, cases, only):
    files, reqs, where = [], [], []
    for ci, case in enumerate(cases):
        f = geom_file(case)
        files.append(f)
        if f is None:
            continue
        _, fr, ca = f
        P = [ca[f'C{k}'] for k in (1, 2, 3, 4)]
        reqs.append(dict(p='C15', op='angle', pts=P[:3])); where.append((ci, 'ang'))
        reqs.append(dict(p='C15', op='angle', pts=P[1:])); where.append((ci, 'ang2'))
        reqs.append(dict(p='C15', op='torsion', pts=P)); where.append((ci, 'tor'))
        for key, n1, n2 in (('d12', 'C1', 'C2'), ('d14', 'C1', 'C4'), ('d23', 'C2', 'C3'), ('d12_rigid', 'N1', 'N2'),
                            ('d14_mirror', 'O1', 'O4'), ('dcross', 'C3', 'N2')):
            reqs.append(dict(p='C15', op='dist', cell=case['cell'], fracs=[fr[n1], fr[n2]])); where.append((ci, key))
    ans = ctx.driver.batch(reqs)
    drv = {}
    for (ci, key), r in zip(where, ans):
        drv.setdefault(ci, {})[key] = r
    for s in ('angle', 'torsion', 'distance'):
        if only in (None, s):
            ctx.stream(s)
    for ci, case in enumerate(cases):
        if files[ci] is None:
            ctx.note('generated coordinates left the range a SHELX atom line can carry; case skipped')
            continue
        text, fr, ca = files[ci]
        obs = observe_geom(case, text)
        base = dict(case=case, file=text)
        if 'error' in obs:
            ctx.fail('C15|parse', f'generated valid file not parsed as expected: {obs["error"]}', dict(base, stream='angle', actual=obs),
                     kind='correspondence')
            continue
        P = [ca[f'C{k}'] for k in (1, 2, 3, 4)]
        d = drv[ci]
        if only in (None, 'angle'):
            check_angle(ctx, case, obs, d, P, base)
        if only in (None, 'torsion'):
            check_torsion(ctx, case, obs, d, P, base)
        if only in (None, 'distance'):
            check_distance(ctx, case, obs, d, ca, base)


def cellclass(case):
    return 'cell=' + case['cellkind']


def check_angle(ctx, case, obs, d, P, base):
    tag = [cellclass(case), 'mode=' + case['mode'], 'angle']
    for key, pts in (('ang', P[:3]), ('ang2', P[1:])):
        spec, model = d[key]['spec'], d[key]['model']
        got = obs[key]
        ctx.count(['angle', pts, case['cell']], nontrivial=True, tags=tag + [f'angle~{int(spec // 30) * 30}'],
                  sample=dict(stream='angle', pts=pts, cell=case['cell'], impl=got, spec=spec))
        pay = dict(base, stream='angle', which=key, expected=spec, actual=got, model=model)
        if not isnum(got):
            ctx.fail('C15|angle|raise', f'Atoms.angle of three non-collinear atoms: {got}', pay)
            continue
        residual(ctx, 'max_residual_angle_deg', got, spec)
        if not core.close(got, spec, TOL_DEG, 0):
            ctx.fail('C15|angle|value', f'Atoms.angle gives {got}, the angle of the Cartesian positions is {spec}', pay)
        elif not core.close(got, model, TOL_DEG, 0):
            ctx.fail('C15|angle|model', f'Atoms.angle {got} differs from the model {model}', pay, kind='correspondence')
        if not (0.0 <= got <= 180.0):
            ctx.fail('C15|angle|range', f'Atoms.angle gives {got}, outside [0, 180]', pay)
    a = obs['ang']
    if isnum(a):
        for key, what in (('ang_swap', 'with the end atoms swapped'), ('ang_rigid', 'after a rigid motion of all atoms'),
                          ('ang_mirror', 'in the mirror image')):
            b = obs[key]
            if not isnum(b) or not core.close(a, b, TOL_DEG, 0):
                ctx.fail(f'C15|angle|{key[4:]}', f'Atoms.angle is {a}, {what} it is {b}',
                         dict(base, stream='angle', which=key, expected=a, actual=b))


def planar_class(case):
    if case['mode'] != 'planar':
        return None
    return 'trans' if abs(abs(case['phi']) - 180.0) < 1e-3 else 'cis'


def circ(a, b):
    """difference of two angles in degrees on the circle"""
    return abs((a - b + 180.0) % 360.0 - 180.0)


def check_torsion(ctx, case, obs, d, P, base):
    spec, model = d['tor']['spec'], d['tor']['model']
    got = obs['tor']
    pl = planar_class(case)
    tol = TOL_PLANAR if pl else TOL_DEG
    tags = [cellclass(case), 'mode=' + case['mode'], 'torsion', 'sign=' + ('+' if spec > 0 else '-'),
            'typo-term-decides' if d['tor']['dir_typo'] != d['tor']['triple'] else 'typo-term-harmless']
    ctx.count(['torsion', P, case['cell']], nontrivial=pl is None, tags=tags,
              sample=dict(stream='torsion', pts=P, cell=case['cell'], impl=got, spec=spec) if pl is None else None)
    pay = dict(base, stream='torsion', expected=spec, actual=got, model=model)
    if not isnum(got):
        ctx.fail('C15|torsion|raise', f'Atoms.torsion_angle of four atoms in general position: {got}', pay)
        return
    # range (-180, 180]
    if not (-180.0 < got <= 180.0):
        sig = KNOWN_MINUS180 if (pl == 'trans' and got == -180.0) else 'C15|torsion|range'
        ctx.fail(sig, f'Atoms.torsion_angle gives {got}, outside (-180, 180]', pay)
    # value against the atan2 reference (sign included away from the planar arrangements)
    if pl:
        if circ(got, spec) > tol and circ(got, -spec) > tol:
            ctx.fail('C15|torsion|value|planar', f'Atoms.torsion_angle gives {got} for a planar arrangement with torsion {spec}', pay)
        # nearly planar is not planar: a triple product of 1e-8 A^3 is six orders above the rounding noise of the
        # coordinates, there the sense of rotation (and so the sign of the result) is decided
        tp = dot(sub(P[1], P[0]), cross(sub(P[2], P[1]), sub(P[3], P[2])))
        if abs(tp) > 1e-8 and abs(got) not in (0.0, 180.0) and (got > 0) != (tp > 0):
            ctx.fail('C15|torsion|sign|near-planar', f'Atoms.torsion_angle gives {got} for four atoms 1e-5 degrees off a planar arrangement '
                     f'whose triple product b1.(b2xb3) is {tp} (torsion angle {spec})', pay)
    else:
        if core.close(got, spec, tol, 0):
            residual(ctx, 'max_residual_torsion_deg', got, spec)
        if core.close(got, -spec, tol, 0) and not core.close(got, spec, tol, 0):
            ctx.fail('C15|torsion|sign', f'Atoms.torsion_angle gives {got}, the torsion angle of the Cartesian positions is {spec} '
                     f'(sign of the triple product b1.(b2xb3): {d["tor"]["triple"]})', pay)
        elif not core.close(got, spec, tol, 0):
            ctx.fail('C15|torsion|value', f'Atoms.torsion_angle gives {got}, the torsion angle of the Cartesian positions is {spec}', pay)
        elif not core.close(got, model, tol, 0):
            ctx.fail('C15|torsion|model', f'Atoms.torsion_angle {got} differs from the model {model}', pay, kind='correspondence')
        # clockwise by construction (the definition, read off in the frame of build_quadruple)
        if case['phi'] is not None and not core.close(got, case['phi'], 1e-5, 0):
            ctx.fail('C15|torsion|clockwise', f'four atoms built with a clockwise twist of {case["phi"]} degrees looking down the '
                     f'central bond: Atoms.torsion_angle gives {got}', dict(pay, expected=case['phi']))
        # metamorphic relations on the implementation itself
        for key, want, what in (('tor_rev', got, 'with the four atoms in reverse order'),
                                ('tor_rigid', got, 'after a proper rigid motion of all atoms'),
                                ('tor_mirror', -got, 'in the mirror image (expected: the opposite sign)')):
            b = obs[key]
            if not isnum(b) or not core.close(b, want, tol, 0):
                ctx.fail(f'C15|torsion|{key[4:]}', f'Atoms.torsion_angle is {got}, {what} it is {b}',
                         dict(base, stream='torsion', which=key, expected=want, actual=b))


def check_distance(ctx, case, obs, d, ca, base):
    pairs = (('d12', 'C1', 'C2'), ('d14', 'C1', 'C4'), ('d23', 'C2', 'C3'), ('d12_rigid', 'N1', 'N2'), ('d14_mirror', 'O1', 'O4'),
             ('dcross', 'C3', 'N2'))
    for key, n1, n2 in pairs:
        got = obs[key]
        spec, model = d[key]['spec'], d[key]['model']
        mine = norm(sub(ca[n1], ca[n2]))
        ctx.count(['distance', ca[n1], ca[n2], case['cell']], nontrivial=True, tags=[cellclass(case), 'distance'],
                  sample=dict(stream='distance', a=ca[n1], b=ca[n2], cell=case['cell'], impl=got, spec=spec) if key == 'd14' else None)
        pay = dict(base, stream='distance', which=key, expected=spec, actual=got, model=model, euclid=mine)
        if not isnum(got):
            ctx.fail('C15|distance|raise', f'Atoms.distance of two existing atoms: {got}', pay)
        elif residual(ctx, 'max_residual_distance_A', got, spec) or not core.close(got, spec, TOL_DIST, 1e-12) or not core.close(got, mine, TOL_DIST, 1e-12):
            ctx.fail('C15|distance|value', f'Atoms.distance({n1}, {n2}) gives {got}; the Euclidean distance of the two positions is {mine} '
                     f'(metric tensor: {spec})', pay)
        elif not core.close(got, model, TOL_DIST, 1e-12):
            ctx.fail('C15|distance|model', f'Atoms.distance {got} differs from the model {model}', pay, kind='correspondence')
    for a, b, what in (('d12', 'd12_rigid', 'a rigid motion'), ('d14', 'd14_mirror', 'a reflection')):
        if isnum(obs[a]) and isnum(obs[b]) and not core.close(obs[a], obs[b], TOL_DIST, 1e-12):
            ctx.fail('C15|distance|isometry', f'Atoms.distance changes under {what}: {obs[a]} -> {obs[b]}',
                     dict(base, stream='distance', which=b, expected=obs[a], actual=obs[b]))


# ------------------------------------------------------------------------------------------------
# neighbour search

def eval_around(ctx, cases):
    from shelxfile import Shelxfile
    ctx.stream('around')
    reqs, where, files = [], [], []
    for ci, case in enumerate(cases):
        f = around_file(case)
        if f is not None and 'move' in case:
            m = ortho(case['cell'])
            _, val, c = place(m, case['move']['cart'])
            if max(abs(v) for v in val) > 3.9:
                f = None
            else:
                k = case['move']['i']
                f = f + ([x if n != k else val for n, x in enumerate(f[1])], [x if n != k else c for n, x in enumerate(f[2])])
        files.append(f)
        if f is None:
            continue
        for ph, (fracs, qs) in enumerate(((f[1], case['queries']), (f[3] if 'move' in case else None, case.get('queries2', [])))):
            atoms = [dict(f=fr, part=a['part'], q=a['q']) for fr, a in zip(fracs or [], case['atoms'])]
            for qi, q in enumerate(qs):
                reqs.append(dict(p='C15', op='around', cell=case['cell'], atoms=atoms, i=q['i'], d=q['d'], part=q['part']))
                where.append((ci, ph, qi))
    ans = ctx.driver.batch(reqs)
    drv = {w: r for w, r in zip(where, ans)}
    for ci, case in enumerate(cases):
        if files[ci] is None:
            ctx.note('generated coordinates left the range a SHELX atom line can carry; case skipped')
            continue
        text = files[ci][0]
        base = dict(case=case, file=text, stream='around')
        shx = Shelxfile()
        shx.read_string(text)
        for a, fr in zip(case['atoms'], files[ci][1]):
            if a.get('via') == 'add':
                r = call(shx.add_atom, a['name'], list(fr), a['name'][0], [a['u'], 0.0, 0.0, 0.0, 0.0, 0.0], a['part'])
                if isinstance(r, str):
                    ctx.fail('C15|around|add_atom', f'Shelxfile.add_atom with six U values: {r}', dict(base, actual=r), kind='correspondence')
        al = shx.atoms.all_atoms
        seen = [(a.name.upper(), a.resinum, a.part.n, bool(a.qpeak)) for a in al]
        want = [(a['name'].upper(), a['resi'], a['part'], a['q']) for a in case['atoms']]
        if seen != want:
            ctx.fail('C15|parse', f'generated valid file not parsed as expected: atoms {seen} expected {want}',
                     dict(base, actual=seen), kind='correspondence')
            continue
        pos = {id(a): k for k, a in enumerate(al)}
        for ph in (0, 1):
            if ph == 1:
                if 'move' not in case:
                    break
                r = call(setattr, al[case['move']['i']], 'frac_coords', list(files[ci][3][case['move']['i']]))
                if isinstance(r, str):
                    ctx.fail('C15|around|move', f'assigning Atom.frac_coords: {r}', dict(base, actual=r), kind='correspondence')
                    break
            fracs, carts = (files[ci][1], files[ci][2]) if ph == 0 else (files[ci][3], files[ci][4])
            atoms = case['atoms'] if ph == 0 else [dict(a, cart=case['move']['cart']) if k == case['move']['i'] else a
                                                   for k, a in enumerate(case['atoms'])]
            for qi, q in enumerate(case['queries'] if ph == 0 else case['queries2']):
                around_query(ctx, case, atoms, al, pos, fracs, carts, q, drv[(ci, ph, qi)], base, ph)


def around_query(ctx, case, atoms, al, pos, fracs, carts, q, r, base, ph):
    i, dist, part = q['i'], q['d'], q['part']
    ds = [norm(sub(c, carts[i])) for c in carts]
    if any(abs(x - dist) < 1e-6 for x in ds):
        return   # too close to the threshold to be decided in floating point
    n = len(atoms)
    same = lambda a, b: atoms[a]['name'] == atoms[b]['name'] and atoms[a]['cart'] == atoms[b]['cart']
    brute = [j for j, a in enumerate(atoms) if j != i and not a['q'] and a['part'] == part and ds[j] < dist]
    got = call(al[i].find_atoms_around, dist, part)
    inrange = [j for j in range(n) if j != i and ds[j] < dist]
    tags = [cellclass(case), 'around', f'found={min(len(brute), 5)}', f'part={part}',
            'centre=qpeak' if atoms[i]['q'] else 'centre=added' if atoms[i].get('via') == 'add' else 'centre=atom']
    if any(same(i, j) for j in range(n) if j != i):
        tags.append('twin-line-in-range')
    if any(atoms[j]['q'] for j in inrange):
        tags.append('qpeak-in-range')
    if any(not atoms[j]['q'] and atoms[j]['part'] != part for j in inrange):
        tags.append('other-part-in-range')
    if any(not atoms[j]['q'] and atoms[j]['part'] == -part != part for j in inrange):
        tags.append('opposite-part-in-range')
    if any(atoms[j].get('via') == 'add' for j in inrange):
        tags.append('added-atom-in-range')
    if ph == 1:
        tags.append('after-move')
        if 'move' in case and (case['move']['i'] == i or case['move']['i'] in inrange):
            tags.append('moved-atom-involved')
    ctx.count(['around', fracs, case['cell'], q], nontrivial=len(brute) > 0 or 'other-part-in-range' in tags, tags=tags,
              sample=dict(stream='around', cell=case['cell'], centre=atoms[i]['name'], d=dist, part=part,
                          impl=got if isinstance(got, str) else [a.name for a in got]) if brute else None)
    pay = dict(base, query=q, round=ph, expected=brute, model=r['model'], spec=r['spec'])
    if isinstance(got, str):
        ctx.fail('C15|around|raise', f'find_atoms_around({dist}, {part}): {got}', dict(pay, actual=got))
        return
    try:
        idx = sorted(pos[id(a)] for a in got)
    except KeyError:
        ctx.fail('C15|around|foreign', 'find_atoms_around returned an object that is not an atom of the file', dict(pay, actual=repr(got)))
        return
    pay['actual'] = idx
    if r['spec'] != brute:
        raise core.LeanError(f'C15: specification ({r["spec"]}) and brute force ({brute}) differ on {q} of {case}')
    if idx != brute:
        miss = sorted(set(brute) - set(idx))
        extra = sorted(set(idx) - set(brute))
        why = []
        for j in miss + extra:
            a = atoms[j]
            why.append('self' if j == i else 'twin' if same(i, j) else 'qpeak' if a['q'] else 'part' if a['part'] != part else 'distance')
        sig = 'C15|around|' + ('missing' if miss else 'extra') + '|' + '+'.join(sorted(set(why)))
        names = [a['name'] + '_' + str(a['resi']) for a in atoms]
        ctx.fail(sig, f'find_atoms_around(dist={dist}, only_part={part}) of {names[i]}{" (after an atom was moved)" if ph else ""} returns '
                 f'{[names[j] for j in idx]}; the other non-Q-peak atoms of PART {part} within {dist} A are {[names[j] for j in brute]}', pay)
    elif sorted(r['model'] or []) != idx:
        ctx.fail('C15|around|model', f'find_atoms_around gives {idx}, the model {r["model"]}', pay, kind='correspondence')


# ------------------------------------------------------------------------------------------------
# atoms that entered the model in other ways than through the file text

SIX_U = [0.04, 0.0, 0.0, 0.0, 0.0, 0.0]
QUANT = (('ang', 'angle', (0, 1, 2)), ('ang2', 'angle', (1, 2, 3)), ('tor', 'torsion', (0, 1, 2, 3)),
         ('d12', 'distance', (0, 1)), ('d34', 'distance', (2, 3)), ('d14', 'distance', (0, 3)))


def observe_four(A, at, names=None):
    """the six quantities of QUANT for four atom objects (distances go by name, so only for atoms of the list)"""
    o = dict(ang=call(A.angle, at[0], at[1], at[2]), ang2=call(A.angle, at[1], at[2], at[3]), tor=call(A.torsion_angle, *at))
    if names:
        o.update(d12=call(A.distance, names[0], names[1]), d34=call(A.distance, names[2], names[3]), d14=call(A.distance, names[0], names[3]))
    return o


def compare_four(ctx, obs, drv, origin, base, tag, key):
    """obs: implementation; drv: model+spec of op geomfrac; origin: how each of the four atoms entered the model"""
    for name, stream, idx in QUANT:
        if name not in obs:
            continue
        via = '+'.join(sorted({origin[k] for k in idx}))
        got, spec, model = obs[name], drv[name]['spec'], drv[name]['model']
        tol = TOL_DEG if stream != 'distance' else TOL_DIST
        ctx.count([key, name], nontrivial=via != 'parsed', tags=tag + [stream, f'{stream} via=' + via],
                  sample=dict(stream=stream, via=via, what=name, impl=got, spec=spec) if via != 'parsed' and name == 'tor' else None)
        pay = dict(base, stream=stream, which=name, via=via, expected=spec, actual=got, model=model)
        if not isnum(got):
            ctx.fail(f'C15|{stream}|raise|via={via}', f'{stream} of atoms that entered the model as {via}: {got}', pay)
        elif not core.close(got, spec, tol, 1e-12 if stream == 'distance' else 0):
            ctx.fail(f'C15|{stream}|value|via={via}', f'{stream} ({name}) of atoms that entered the model as {via} ({tag[-1]}): the '
                     f'implementation gives {got}, the Cartesian positions of their fractional coordinates give {spec}', pay)
        elif not core.close(got, model, tol, 1e-12 if stream == 'distance' else 0):
            ctx.fail(f'C15|{stream}|model|via={via}', f'{stream} {got} differs from the model {model}', pay, kind='correspondence')
        elif stream == 'torsion' and not (-180.0 < got <= 180.0) or stream == 'angle' and not (0.0 <= got <= 180.0):
            ctx.fail(f'C15|{stream}|range', f'{stream} {got} outside its range', pay)


def eval_route(ctx, cases):
    from shelxfile import Shelxfile
    for s in ('angle', 'torsion', 'distance'):
        ctx.stream(s)
    prepared, reqs = [], []
    for case in cases:
        m = ortho(case['cell'])
        first = [place(m, p) for p in case['first']]
        last = [place(m, p) for p in case['pts']]
        if max(abs(v) for _, val, _ in first + last for v in val) > 3.9:
            prepared.append(None)
            continue
        prepared.append((first, last))
        # round 1: atoms made by add_atom carry misc.frac_to_cart coordinates; round 2: moved atoms carry matrix coordinates
        reqs.append(dict(p='C15', op='geomfrac', cell=case['cell'], fracs=[v for _, v, _ in first],
                         added=[r.startswith('added') for r in case['routes']]))
        reqs.append(dict(p='C15', op='geomfrac', cell=case['cell'], fracs=[v for _, v, _ in last],
                         added=[r == 'added' for r in case['routes']]))
    ans = ctx.driver.batch(reqs)
    k = 0
    for case, pre in zip(cases, prepared):
        if pre is None:
            ctx.note('generated coordinates left the range a SHELX atom line can carry; case skipped')
            continue
        d1, d2 = ans[k], ans[k + 1]
        k += 2
        first, last = pre
        names = ['C1', 'C2', 'C3', 'C4']
        lines = [HEAD.format(*case['cell']).rstrip('\n')]
        for n, r, (txt, _, _) in zip(names, case['routes'], first):
            if not r.startswith('added'):
                lines.append(atom_line(n, txt))
        text = '\n'.join(lines + ['HKLF 4', 'END']) + '\n'
        base = dict(case=case, file=text)
        shx = Shelxfile()
        shx.read_string(text)
        bad = None
        for n, r, (_, val, _) in zip(names, case['routes'], first):
            if r.startswith('added'):
                x = call(shx.add_atom, n, list(val), 'C', list(SIX_U))
                bad = x if isinstance(x, str) else bad
        at = {a.name.upper(): a for a in shx.atoms.all_atoms}
        if bad or sorted(at) != names:
            ctx.fail('C15|parse', f'atoms after read_string + add_atom: {sorted(at)} expected {names} ({bad})', dict(base, stream='angle'),
                     kind='correspondence')
            continue
        four = [at[n] for n in names]
        tag = [cellclass(case), 'kind=route']
        origin1 = ['added' if r.startswith('added') else 'parsed' for r in case['routes']]
        compare_four(ctx, observe_four(shx.atoms, four, names), d1, origin1, dict(base, round=1), tag + ['before the moves'],
                     ['route', 1, case['cell'], [v for _, v, _ in first], case['routes']])
        moved = False
        for a, r, (_, val, _) in zip(four, case['routes'], last):
            if 'moved' in r:
                x = call(setattr, a, 'frac_coords', list(val))
                moved = True
                if isinstance(x, str):
                    ctx.fail('C15|route|move', f'assigning Atom.frac_coords: {x}', dict(base, stream='angle', actual=x), kind='correspondence')
        if moved:
            origin2 = ['moved' if 'moved' in r else o for r, o in zip(case['routes'], origin1)]
            compare_four(ctx, observe_four(shx.atoms, four, names), d2, origin2, dict(base, round=2),
                         tag + ['after the atoms were moved (same object, second call)'],
                         ['route', 2, case['cell'], [v for _, v, _ in last], case['routes']])


def eval_grow(ctx, cases):
    from shelxfile import Shelxfile
    for s in ('angle', 'torsion'):
        ctx.stream(s)
    quads = (('C3', 'C2', 'C1', "C1'"), ('C2', 'C1', "C1'", "C3'"), ("C3'", "C2'", "C1'", 'C1'))
    grown, reqs = [], []
    for case in cases:
        m = ortho(case['cell'])
        placed = [place(m, p) for p in case['pts']]
        lines = [HEAD.format(*case['cell']).replace('LATT -1', 'LATT 1').rstrip('\n')]
        lines += [atom_line(f'C{k + 1}', txt) for k, (txt, _, _) in enumerate(placed)]
        text = '\n'.join(lines + ['HKLF 4', 'END']) + '\n'
        base = dict(case=case, file=text)
        shx = Shelxfile()
        shx.read_string(text)
        with contextlib.redirect_stdout(io.StringIO()):   # the library prints while growing
            g = call(shx.grow)
        if isinstance(g, str):
            ctx.note(f'grow() raised ({g}); not a C15 observable, case skipped')
            continue
        orig = {a.name.upper(): a for a in g if not a.symmgen}
        img = {a.name.upper()[:2]: a for a in g if a.symmgen}
        if sorted(orig) != ['C1', 'C2', 'C3'] or sorted(img) != ['C1', 'C2', 'C3'] or len(g) != 6:
            ctx.count(['grow', case['cell'], case['pts']], nontrivial=False, tags=['kind=grow', 'grow: image not generated (C14)'])
            continue
        pick = lambda n, img=img, orig=orig: img[n[:2]] if n.endswith("'") else orig[n]
        fours = [[pick(n) for n in q] for q in quads]
        mine = [dict(p='C15', op='geomfrac', cell=case['cell'], fracs=[list(map(float, a.frac_coords)) for a in four],
                     added=[bool(a.symmgen) for a in four]) for four in fours]
        grown.append((case, m, base, shx, fours, mine))
        reqs.extend(mine)
    ans = ctx.driver.batch(reqs)      # one call for the whole chunk: every call starts the driver anew
    k = 0
    for case, m, base, shx, fours, mine in grown:
        for q, four, rq in zip(quads, fours, mine):
            d = ans[k]
            k += 1
            carts = [matvec(m, f) for f in rq['fracs']]
            if not general(carts):
                continue
            compare_four(ctx, observe_four(shx.atoms, four), d, ['grown' if a.symmgen else 'parsed' for a in four],
                         dict(base, quadruple=q), [cellclass(case), 'kind=grow', 'atoms returned by grow()'],
                         ['grow', case['cell'], rq['fracs'], q])



def samepos(case, i, j):
    return case['atoms'][i]['name'] == case['atoms'][j]['name'] and case['atoms'][i]['cart'] == case['atoms'][j]['cart']


# ------------------------------------------------------------------------------------------------

def evaluate(ctx, cases, stream=None):
    geom = [c for c in cases if c['kind'] == 'geom']
    arnd = [c for c in cases if c['kind'] == 'around']
    if geom:
        eval_geom(ctx, geom, stream if stream in ('angle', 'torsion', 'distance') else None)
    if arnd:
        eval_around(ctx, arnd)
    rts = [c for c in cases if c['kind'] == 'route']
    if rts:
        eval_route(ctx, rts)
    grw = [c for c in cases if c['kind'] == 'grow']
    if grw:
        eval_grow(ctx, grw)


def budget(ctx, quick, edited, thorough):
    if ctx.tier == 'thorough':
        return thorough
    return edited if ctx.escalated else quick


def run(ctx):
    ctx.rule = ('geom: four points, either uniform in a 40 A box (bond > 0.5 A, sin(bond angle) > 0.05, |sin(torsion)| > 0.02) or '
                'built from internal coordinates with a prescribed clockwise twist and moved rigidly, in cubic / orthorhombic / '
                'monoclinic / triclinic / hexagonal cells, together with a rigidly moved and a mirrored copy in the same file; '
                'distinct by (points, cell); planar arrangements (torsion 0 / 180) run with tolerance 1e-4 and are not counted as '
                'non-trivial. around: 5..20 atoms within ~3.6 A in PARTs 0/1/2/-1/3, residues, lattice-translated images, '
                'identical-line twins, Q-peaks; 3..6 queries (centre, distance, part) each, thresholds kept 1e-6 away from every '
                'distance; non-trivial = at least one atom to be returned or an atom of another PART in range')
    ctx.assumptions = ['exact arithmetic: the theorems hold over the reals; acos/sqrt/atan2 enter as parameters with their defining relations',
                       'float residual: implementation compared with the atan2 reference at 1e-6 degrees (1e-4 at planar arrangements)',
                       'cell angles with sin(gamma) != 0 and positive volume']
    # (quick, quick tier on edited code, thorough).  harness/main.py raises the budget to the thorough one when a mirrored
    # file (atoms/atoms.py, misc/dsrmath.py: any edit anywhere in them) differs from the digest the model was written
    # against.  For C15 the arithmetic of the edited code is tied to the model for ALL inputs on every run by the `src_…`
    # theorems over the traced source (ShelxProps/C15.lean, extract/trace_c15.py), so the extra sampling is there for what
    # tracing does not see (object plumbing, histories, the filter of find_atoms_around, rounding at planar arrangements):
    # four times the quick budget (eight times for the cheap grow() stream) instead of the 16–20 times of the thorough tier.
    # (The 6–7 minutes such a run used to take were mostly the grow stream starting the driver once per case; eval_grow
    # now sends one batch per chunk.)
    n = budget(ctx, 3000, 12000, 60000)
    m = budget(ctx, 1200, 5000, 15000)
    cases = [WITNESS, CLOCKWISE, TYPO]
    for _ in range(n):
        cases.append(make_geom(ctx.rng))
    for _ in range(m):
        cases.append(make_around(ctx.rng))
    for _ in range(budget(ctx, 1200, 5000, 20000)):
        cases.append(make_route(ctx.rng))
    for _ in range(budget(ctx, 250, 2000, 4000)):
        cases.append(make_grow(ctx.rng))
    for i in range(0, len(cases), 1000):
        evaluate(ctx, cases[i:i + 1000])

"""
C01 — reading a file and writing it back loses nothing (lossless round trip).

For every generated valid SHELXL file: `Shelxfile().read_string(text)`, `write_shelx_file(tmp)`, then BOTH texts are
read with this module's own lexer (`content`: join continuations, strip comments, split tokens, coalesce the
SFAC/FVAR lines, follow PART/AFIX/RESI) and compared item by item (`compare_content`):

  property        content(written) ~ content(input)                      (implementation vs specification)
  correspondence  tokens of every written line ~ tokens the Lean model's printer gives for the same parsed values
                  (streams atom / sfac / fvar / unit / card / default — theorems atom_render_close,
                  sfac_render_table, fvar_render_list, unit_render, size/acta/stir/wght/symm_render,
                  default_render_tokens of ShelxProps/C01.lean)

Numbers are compared numerically (1e-6 on coordinates, 1e-5 on occupation codes and U values, 1e-6 relative
elsewhere), words case-insensitively. Trailing parameters the printer ADDS are accepted iff they are the SHELXL
defaults of those positions (the line denotes the same instruction); anything the input states that is dropped,
defaulted or replaced is a failure with signature  C01|<line class>|<what was lost>.
(Symmetrically, trailing parameters of the input that ARE the defaults may be left out by the printer.)
Files the parser does not get through (property C02's business) are skipped and counted.
One generated file in ten (and one fixed case) is read by a Shelxfile object that has read another complete file before
(`case['reuse']`): what the first file left behind (END seen, PART/AFIX/RESI, WGHT) must not show in the second.
"""
import difflib
import re
import tempfile
from pathlib import Path

from .. import core, gen

KEYWORDS = {'TITL', 'CELL', 'ZERR', 'LATT', 'SYMM', 'SFAC', 'UNIT', 'LIST', 'L.S.', 'CGLS', 'BOND', 'FMAP', 'PLAN',
            'TEMP', 'ACTA', 'CONF', 'SIMU', 'RIGU', 'WGHT', 'FVAR', 'DELU', 'SAME', 'DISP', 'LAUE', 'REM', 'MORE',
            'TIME', 'END', 'HKLF', 'OMIT', 'SHEL', 'BASF', 'TWIN', 'EXTI', 'SWAT', 'HOPE', 'MERG', 'SPEC', 'RESI',
            'MOVE', 'ANIS', 'AFIX', 'HFIX', 'FRAG', 'FEND', 'EXYZ', 'EADP', 'EQIV', 'CONN', 'BIND', 'FREE', 'DFIX',
            'BUMP', 'SADI', 'CHIV', 'FLAT', 'DEFS', 'ISOR', 'NCSY', 'SUMP', 'BLOC', 'DAMP', 'STIR', 'MPLA', 'RTAB',
            'HTAB', 'SIZE', 'WPDB', 'GRID', 'MOLE', 'XNPD', 'REST', 'CHAN', 'FLAP', 'RNUM', 'SOCC', 'PRIG', 'WIGL',
            'RANG', 'TANG', 'ADDA', 'STAG', 'NEUT', 'ABIN', 'ANSC', 'ANSR', 'NOTR', 'TWST', 'PART', 'DANG', 'BEDE',
            'LONE'}
# trailing parameters a printer may add: the SHELXL defaults of those positions (same instruction)
TRAILING_DEFAULTS = {'WGHT': [0.1, 0.0, 0.0, 0.0, 0.0, 0.33333], 'STIR': [None, 0.01]}
OVERRIDE_KW = ('SIZE', 'ACTA', 'STIR', 'WGHT', 'SYMM')
NUM_RE = re.compile(r'^[-+]?(\d+\.?\d*|\.\d+)([eE][-+]?\d+)?$')


# ------------------------------------------------------------------------------------------------
# the independent lexer (specification side)

def num(tok):
    """numeric value of a token or None"""
    if NUM_RE.match(tok):
        return float(tok)
    return None


def logical_lines(text):
    """join continuation lines (' =' at the end of a physical line), drop blank lines and comments"""
    out = []
    phys = text.split('\n')
    i = 0
    while i < len(phys):
        ln = phys[i]
        i += 1
        if not ln.strip():
            continue
        if ln[0] in ' \t':
            # SHELXL: a line that begins with a blank is a comment unless the line before it ended in '=' (those are
            # consumed below). Content that the writer leaves on such a line is lost for every reader.
            continue
        head = ln.lstrip()[:4].upper()
        if not head.startswith(('REM', 'TITL')):
            ln = ln.split('!')[0]
            while ln.rstrip().endswith('=') and i < len(phys):
                ln = ln.rstrip()[:-1] + ' ' + phys[i].split('!')[0]
                i += 1
        if ln.strip():
            out.append(ln)
    return out


def content(text):
    """list of items in file order; SFAC and FVAR lines coalesced at their first occurrence"""
    items = []
    sfac = None
    fvar = None
    part = (0.0,)
    afix = (0.0,)
    resi = ('0',)
    after_end = False
    for ln in logical_lines(text):
        toks = ln.split()
        kw = toks[0].upper()
        base = kw.split('_')[0][:4]
        if kw.startswith('+'):
            # '+filename': the include instruction itself is content of the res file (the lines of the include file
            # are not: they belong to that file)
            items.append(dict(kind='instr', cls='+include', kw=toks[0], params=toks[1:], toks=toks))
            continue
        if base in KEYWORDS:
            if base == 'SFAC':
                if sfac is None:
                    sfac = dict(kind='sfac', cls='SFAC', entries=[], toks=[])
                    items.append(sfac)
                rest = toks[1:]
                if rest and ''.join(rest).isalpha():
                    sfac['entries'] += [('plain', e.upper()) for e in rest]
                else:
                    sfac['entries'].append(('explicit', rest[0].upper() if rest else '', rest[1:]))
                sfac['toks'].append(toks)
            elif base == 'FVAR':
                if fvar is None:
                    fvar = dict(kind='fvar', cls='FVAR', values=[], toks=[])
                    items.append(fvar)
                fvar['values'] += toks[1:]
                fvar['toks'].append(toks)
            elif base == 'SYMM':
                op = ''.join(toks[1:]).upper().split(',')
                items.append(dict(kind='symm', cls='SYMM', op=op, toks=toks))
            elif base == 'TITL' or base == 'REM':
                items.append(dict(kind='text', cls=base, kw=base, params=toks[1:], toks=toks))
            else:
                if base == 'PART':
                    part = tuple(num(t) for t in toks[1:])
                elif base == 'AFIX':
                    afix = tuple(num(t) for t in toks[1:])
                elif base == 'RESI':
                    resi = tuple(t.upper() for t in toks[1:])
                elif base == 'END':
                    after_end = True
                items.append(dict(kind='instr', cls=base, kw=kw, params=toks[1:], toks=toks))
        else:
            # an atom: name sfac x y z sof U...
            vals = [num(t) for t in toks[2:]]
            a = dict(kind='atom', name=toks[0].upper(), sfac=toks[1] if len(toks) > 1 else None, vals=vals,
                     part=part, afix=afix, resi=resi, toks=toks, after_end=after_end)
            nu = len(vals) - 4
            if after_end or (nu == 2):
                a['cls'] = 'qpeak'
            elif nu == 6:
                a['cls'] = 'atom-aniso'
            else:
                a['cls'] = 'atom-iso'
            # the occupation code that is in force: PART's sof when it states one, else the atom's own
            if len(vals) > 3:
                a['sof'] = part[1] if len(part) > 1 and part[1] is not None else vals[3]
            items.append(a)
    return items


# ------------------------------------------------------------------------------------------------
# comparison

def tok_same(a, b, rel=1e-6):
    x, y = num(a), num(b)
    if x is not None and y is not None:
        return abs(x - y) <= rel * max(abs(x), abs(y)) + 1e-12
    return a.upper() == b.upper()


def toks_diff(kw, tin, tout):
    """None if the parameter lists denote the same instruction, else what was lost"""
    n = min(len(tin), len(tout))
    for k in range(n):
        if not tok_same(tin[k], tout[k]):
            xi, xo = num(tin[k]), num(tout[k])
            if xi is not None and xo is None:
                return f'parameter-{k + 1}-not-a-number'
            if xi is None and xo is not None or (xi is None and xo is None):
                lost = tin[k].upper()
                return f'{lost}-lost' if lost == 'NOHKL' else f'parameter-{k + 1}-replaced'
            return f'parameter-{k + 1}-changed'
    # trailing parameters present on one side only must be the SHELXL defaults of those positions
    # (SameInstr of ShelxModel/C01.lean: equal after filling in the defaults)
    d = TRAILING_DEFAULTS.get(kw)
    longer, what = (tin, 'lost') if len(tin) > len(tout) else (tout, 'added')
    for k in range(n, len(longer)):
        dv = d[k] if d and k < len(d) else None
        x = num(longer[k])
        if dv is None or x is None or abs(x - dv) > 1e-9:
            lost = longer[k].upper()
            return f'{lost}-lost' if (lost == 'NOHKL' and what == 'lost') else f'parameter-{k + 1}-{what}'
    return None


def atom_diff(a, b):
    """what differs between an input atom a and a written atom b (None: same content)"""
    if b['kind'] != 'atom':
        return 'line-lost'
    if a['name'] != b['name']:
        return 'name-changed'
    if a['sfac'] is None or b['sfac'] is None or num(a['sfac']) != num(b['sfac']):
        return 'sfac-changed'
    va, vb = a['vals'], b['vals']
    if any(v is None for v in vb):
        return 'not-a-number'
    if len(vb) < 4:
        return 'values-lost'
    for k, ax in enumerate('xyz'):
        if abs(va[k] - vb[k]) > 1e-6 + 1e-12:
            if abs(va[k]) > 4 and abs(vb[k]) <= 5:
                return 'coordinate-code-lost'
            if a['cls'] == 'qpeak' and abs(va[k] - vb[k]) <= 0.5e-4 + 1e-12:
                return 'coordinate-rounded-to-4-decimals'
            return f'{ax}-changed'
    if abs(a['sof'] - b['sof']) > 1e-5 + 1e-12:
        return 'sof-changed'
    ua, ub = va[4:], vb[4:]
    if a['cls'] == 'qpeak':
        if len(ub) < 2 or len(ua) < 2:
            return 'U-count-changed'
        if abs(ua[0] - ub[0]) > 1e-5 + 1e-12:
            return 'U-replaced'
        if abs(ua[1] - ub[1]) > 0.5e-2 + 1e-12:
            return 'peak-height-changed'
        if abs(ua[1] - ub[1]) > 1e-5 + 1e-12:
            return 'peak-height-rounded-to-2-decimals'
    else:
        if len(ua) != len(ub):
            return 'U-count-changed'
        for k in range(len(ua)):
            if abs(ua[k] - ub[k]) > 1e-5 + 1e-12:
                return f'U{k + 1}-changed'
    if a['part'][:1] != b['part'][:1]:
        return 'PART-changed'
    if a['afix'] != b['afix']:
        return 'AFIX-changed'
    if a['resi'] != b['resi']:
        return 'RESI-changed'
    return None


def sfac_diff(a, b):
    ea, eb = a['entries'], b['entries']
    for k in range(max(len(ea), len(eb))):
        x = ea[k] if k < len(ea) else None
        y = eb[k] if k < len(eb) else None
        if x is None:
            return 'SFAC', 'entry-added'
        cls = 'SFAC-' + x[0]
        if y is None:
            return cls, 'entry-lost'
        if x[0] == 'explicit':
            if y[0] != 'explicit' or len(y[2]) < len(x[2]):
                return cls, 'coefficients-lost'
            if x[1] != y[1]:
                return cls, 'element-changed'
            if len(y[2]) != len(x[2]) or any(not tok_same(p, q) for p, q in zip(x[2], y[2])):
                return cls, 'coefficients-changed'
        else:
            if y[0] != 'plain' or x[1] != y[1]:
                return cls, 'element-changed'
    return None


def item_diff(a, b):
    """(line class, what) or None"""
    if a['kind'] == 'atom':
        d = atom_diff(a, b)
        return (a['cls'], d) if d else None
    if b['kind'] != a['kind']:
        return a['cls'], 'line-lost'
    if a['kind'] == 'sfac':
        return sfac_diff(a, b)
    if a['kind'] == 'fvar':
        va, vb = a['values'], b['values']
        if len(vb) < len(va):
            return 'FVAR', 'value-lost'
        if len(vb) > len(va):
            return 'FVAR', 'value-added'
        for k in range(len(va)):
            if not tok_same(va[k], vb[k]):
                return 'FVAR', 'value-changed'
        return None
    if a['kind'] == 'symm':
        return None if a['op'] == b['op'] else ('SYMM', 'operator-changed')
    if a['kind'] == 'text':
        return None if a['params'] == b['params'] else (a['cls'], 'text-changed')
    if a['kw'] != b['kw']:
        return a['cls'], 'keyword-changed'
    d = toks_diff(a['cls'], a['params'], b['params'])
    if d:
        inw = {t.upper() for t in a['params']}
        if any(t.upper()[:4] in KEYWORDS and t.upper() not in inw for t in b['params']) or \
                (b['params'] and b['params'][-1] == '='):
            d = 'continuation-lost'        # the next instruction was swallowed as continuation line
        elif a['cls'] in ('UNIT', 'BASF'):
            if any(',' in t for t in b['params']):
                d = 'thousands-separator'
            else:
                d = re.sub(r'parameter-\d+-', 'value-', d)
    return (a['cls'], d) if d else None


def key_of(it):
    return it['kind'] + ':' + it['cls'] + (':' + it['name'] if it['kind'] == 'atom' else '')


def align(cin, cout):
    """pairs (input item, written item or None), by class/name sequence"""
    if len(cin) == len(cout) and all(key_of(a) == key_of(b) for a, b in zip(cin, cout)):
        return list(zip(cin, cout)), []
    sm = difflib.SequenceMatcher(a=[key_of(x) for x in cin], b=[key_of(x) for x in cout], autojunk=False)
    pairs = []
    extra = []
    for op, i1, i2, j1, j2 in sm.get_opcodes():
        if op == 'equal':
            pairs += list(zip(cin[i1:i2], cout[j1:j2]))
        elif op == 'delete':
            pairs += [(x, None) for x in cin[i1:i2]]
        elif op == 'insert':
            extra += cout[j1:j2]
        else:
            n = min(i2 - i1, j2 - j1)
            pairs += list(zip(cin[i1:i1 + n], cout[j1:j1 + n]))
            pairs += [(x, None) for x in cin[i1 + n:i2]]
            extra += cout[j1 + n:j2]
    return pairs, extra


# ------------------------------------------------------------------------------------------------
# implementation side

TMP = None


def tmpdir():
    global TMP
    if TMP is None:
        TMP = tempfile.TemporaryDirectory(prefix='c01_')
    return Path(TMP.name)


PRELUDE = '\n'.join(['TITL read before', 'CELL 0.71073 9.1 9.2 9.3 90 101.5 90', 'ZERR 2 0.001 0.001 0.001 0 0.01 0', 'LATT 2',
                     'SYMM -X, 1/2+Y, 1/2-Z', 'SFAC C N', 'UNIT 8 2', 'L.S. 4', 'WGHT 0.07 1.5', 'FVAR 0.25 0.6',
                     'PART 1 21', 'N1 2 0.31 0.32 0.33 21.0 0.041', 'PART 0', 'RESI 3 ABC', 'AFIX 66',
                     'C7 1 0.41 0.42 0.43 11.0 0.031 0.032 0.033 0.001 0.002 0.003', 'AFIX 0', 'RESI 0', 'HKLF 4', 'END',
                     'WGHT 0.06 1.2', 'Q1 1 0.1 0.2 0.3 11.0 0.05 1.5']) + '\n'


def roundtrip(text, case=None):
    """(written text or None, complete?, error-line keyword).
    case['via']: 'string' (read_string), 'file' (read_file + write to another file), 'inplace' (read_file +
    write_shelx_file() without a name: back to the file that was read); case['includes']: {file name: lines} written
    next to the res file for its '+filename' lines (a name without an entry is a missing include file);
    case['reuse']: the Shelxfile object has read another file (PRELUDE) before."""
    import shutil
    from shelxfile import Shelxfile
    case = case or {}
    via = case.get('via', 'string')
    shx = Shelxfile()
    d = tmpdir() / 'rt'
    shutil.rmtree(d, ignore_errors=True)
    d.mkdir()
    p = d / 'out.res'
    if case.get('reuse'):
        # the object has read another complete file (with END and a WGHT line behind it) before: reading re-initialises it
        shx.read_string(PRELUDE)
    if via == 'string' and not case.get('includes'):
        shx.read_string(text)
    else:
        src = d / 'main.res'
        src.write_text(text)
        for name, lines in (case.get('includes') or {}).items():
            (d / name).write_text('\n'.join(lines) + '\n')
        shx.read_file(str(src))
        if via == 'inplace':
            p = src
    n = len(getattr(shx, '_reslist', None) or text.splitlines())
    last = getattr(shx, 'error_line_num', n - 1)
    complete = last >= n - 1
    errkw = ''
    if not complete:
        try:
            errkw = str(shx._reslist[last]).split()[0].upper()[:4]
        except Exception:
            errkw = '?'
    try:
        if via == 'inplace':
            shx.write_shelx_file()
        else:
            shx.write_shelx_file(str(p))
        out = p.read_text()
    except Exception as e:  # the writer raised: nothing was written back
        return None, complete, f'{errkw}|write:{type(e).__name__}'
    return out, complete, errkw


# ------------------------------------------------------------------------------------------------
# requests to the model

def model_request(a):
    """the driver request that renders the written form of input item `a` with the Lean model (None: no model)"""
    if a['kind'] == 'atom':
        vals = a['vals']
        if any(v is None for v in vals) or len(vals) < 5 or num(a['sfac'] or 'x') is None:
            return None
        kind = {'atom-iso': 'iso', 'atom-aniso': 'aniso', 'qpeak': 'qpeak'}[a['cls']]
        v = list(vals)
        v[3] = a['sof']
        if any(c > 4 for c in v[:3]):
            return None     # a positive coordinate code: is_atom() keeps the line as text (C03), no atom printer involved
        if kind == 'iso' and len(v) != 5 or kind == 'aniso' and len(v) != 10 or kind == 'qpeak' and len(v) != 6:
            return None
        return dict(p='C01', op='atom', kind=kind, name=a['toks'][0][:4], sfac=int(num(a['sfac'])), vals=v)
    if a['kind'] == 'sfac':
        ents = []
        for e in a['entries']:
            ents.append(dict(el=e[1]) if e[0] == 'plain' else dict(el=e[1], c=list(e[2])))
        return dict(p='C01', op='sfac', entries=ents)
    if a['kind'] == 'fvar':
        vals = [num(t) for t in a['values']]
        if any(v is None for v in vals):
            return None
        return dict(p='C01', op='fvar', reprs=[repr(v) for v in vals])
    if a['kind'] == 'symm':
        return dict(p='C01', op='card', kw='SYMM', toks=a['toks'])
    if a['kind'] == 'text':
        if a['cls'] == 'TITL':
            return None
        return dict(p='C01', op='card', kw='default', toks=a['toks'])
    cls = a['cls']
    if cls == 'UNIT':
        vals = [num(t) for t in a['params']]
        if any(v is None for v in vals):
            return None
        return dict(p='C01', op='unit', vals=vals, reprs=[repr(v) for v in vals])
    if cls in OVERRIDE_KW:
        # numbers by meaning (any free-format spelling: `.5`, `-.5`, `+4`), not by their first character
        isnum = lambda t: t[0].isdigit() or t[0] in '+-' or num(t) is not None
        nums = [t for t in a['params'] if isnum(t)]
        words = [t for t in a['params'] if not isnum(t)]
        vals = [num(t) for t in nums]
        if any(v is None for v in vals):
            return None
        return dict(p='C01', op='card', kw=cls, toks=a['toks'], vals=vals, reprs=[repr(v) for v in vals], words=words)
    if cls in ('LIST', 'TEMP', 'EXTI', 'ANSC', 'ANSR', 'EQIV', 'OMIT', 'LAUE', 'NEUT', 'END', 'TIME', 'MOLE', 'HOPE'):
        return dict(p='C01', op='card', kw='raw', toks=a['toks'])
    return dict(p='C01', op='card', kw='default', toks=a['toks'])


def stream_of(a):
    if a['kind'] == 'atom':
        return 'atom'
    if a['kind'] in ('sfac', 'fvar'):
        return a['kind']
    if a['cls'] == 'UNIT':
        return 'unit'
    if a['cls'] in OVERRIDE_KW:
        return 'card'
    return 'default'


def model_tokens(ans):
    """token lists of the model's lines"""
    m = ans['model']
    lines = m if isinstance(m, list) else [m]
    return [ln.split() for ln in lines]


def flat_same(ta, tb):
    return len(ta) == len(tb) and all(tok_same(x, y, 1e-9) for x, y in zip(ta, tb))


# ------------------------------------------------------------------------------------------------

HISTORY = []        # the cases this process has read and written so far (other Shelxfile objects, same interpreter)
LOCALISED = set()


class _Probe:
    """a context that only collects the signatures of the property comparison (no model, no counters)"""
    def __init__(self):
        self.failures, self.extra, self.broken, self.model_ok = [], {}, [], False

    def stream(self, *a): pass
    def count(self, *a, **k): pass

    def fail(self, signature, what, payload, kind='property'):
        self.failures.append(signature)


def signatures_in_fresh_process(case, before):
    """the property signatures of `case` when a NEW interpreter first round-trips the files `before` and then the case"""
    import json
    import subprocess
    import sys
    code = ('import sys, json; sys.path.insert(0, %r); from harness import core; core.import_repo(); '
            'from harness.props import c01; d = json.load(sys.stdin); p = c01._Probe(); '
            'c01.evaluate(p, [dict(d["case"], before=d["before"])]); print("SIGS " + json.dumps(p.failures))' % str(core.VERIF))
    r = subprocess.run([sys.executable, '-c', code], input=json.dumps(dict(case=case, before=before)), text=True,
                       stdout=subprocess.PIPE, stderr=subprocess.DEVNULL)
    for ln in r.stdout.splitlines():
        if ln.startswith('SIGS '):
            return set(json.loads(ln[5:]))
    return set()


def localise(case, small, sig):
    """the case to store in the replay file, checked in a fresh interpreter: the minimised file `small` if it still
    fails there, else the whole file, else the whole file plus the earlier files of this process that are needed
    (state that survives between objects). Unchecked (whole file) after the sixth signature of a run."""
    if sig in LOCALISED or len(LOCALISED) >= 6:
        return case
    LOCALISED.add(sig)
    bare = {k: v for k, v in case.items() if k != 'before'}
    if small is not None and sig in signatures_in_fresh_process(small, []):
        return small
    if sig in signatures_in_fresh_process(bare, []):
        return bare
    hist = [{k: v for k, v in h.items() if k != 'before'} for h in HISTORY if h is not case]
    if sig not in signatures_in_fresh_process(bare, hist):
        return case             # not reproducible from the files alone
    lo, hi = 0, len(hist)       # smallest prefix that still makes the case fail
    while hi - lo > 1:
        mid = (lo + hi) // 2
        if sig in signatures_in_fresh_process(bare, hist[:mid]):
            hi = mid
        else:
            lo = mid
    one = hist[hi - 1:hi]
    before = one if sig in signatures_in_fresh_process(bare, one) else hist[:hi]
    return dict(bare, before=before, tags=list(case.get('tags', [])) + ['needs-history'])


def evaluate(ctx, cases, stream=None):
    for s in ('roundtrip', 'atom', 'sfac', 'fvar', 'unit', 'card', 'default'):
        ctx.stream(s)
    reqs = []
    where = []
    results = []
    for ci, case in enumerate(cases):
        text = '\n'.join(case['lines']) + '\n'
        cin = content(text)
        for b in case.get('before', []):
            # files that another Shelxfile object of this process read and wrote before: must not matter
            roundtrip('\n'.join(b['lines']) + '\n', b)
        out, complete, errkw = roundtrip(text, case)
        if len(HISTORY) < 3000 and not isinstance(ctx, _Probe):
            HISTORY.append(case)
        tags = list(case.get('tags', []))
        if out is None:
            ctx.count(['c01', case['lines']], nontrivial=False, tags=['write-raised'])
            ctx.fail(f'C01|write|raised|{errkw}', f'write_shelx_file raised ({errkw})', dict(case=case, stream='roundtrip'))
            results.append(None)
            continue
        if not complete:
            # parse truncation is property C02's business: skip, count
            ctx.count(['c01', case['lines']], nontrivial=False, tags=['skipped:parse-incomplete', f'skipped-at:{errkw}'])
            ctx.extra.setdefault('skipped_parse_incomplete', 0)
            ctx.extra['skipped_parse_incomplete'] += 1
            sk = ctx.extra.setdefault('skipped_at_keyword', {})
            sk[errkw] = sk.get(errkw, 0) + 1
            results.append(None)
            continue
        cout = content(out)
        pairs, extra = align(cin, cout)
        classes = sorted({a['cls'] for a in cin})
        nontrivial = any(a['cls'] in OVERRIDE_KW + ('UNIT', 'FVAR') or
                         (a['kind'] == 'atom' and (a['afix'][:1] not in ((0.0,), ()) or a['part'][:1] not in ((0.0,), ())))
                         or (a['kind'] == 'sfac' and any(e[0] == 'explicit' for e in a['entries'])) for a in cin)
        tags += ['via:' + case.get('via', 'string')] + (['includes:%d' % len(case['includes'])] if case.get('includes') else [])
        ctx.count(['c01', case['lines'], case.get('via'), case.get('includes'), case.get('reuse')], nontrivial=nontrivial,
                  tags=tags + ['class:' + c for c in classes] + (['wrapped'] if any(l.rstrip().endswith('=') for l in case['lines']) else []),
                  sample=dict(stream='roundtrip', input=case['lines'][:12], written=out.splitlines()[:12]))
        seen = set()
        for a, b in pairs:
            d = ('line-lost' if b is None else None)
            if d:
                d = (a['cls'], d)
            else:
                d = item_diff(a, b)
            if d and d not in seen:
                seen.add(d)
                sig = f'C01|{d[0]}|{d[1]}'
                small = dict(case, lines=minimal_lines(case, a))
                store = case if stream else small      # a replay keeps the case it was given
                if not isinstance(ctx, _Probe) and sig not in ctx.known and 'before' not in case and not stream:
                    store = localise(case, small, sig)
                ctx.fail(sig,
                         f'line class {d[0]}: {d[1]} — input {show(a)!r}, written {("(nothing)" if b is None else show(b))!r}',
                         dict(case=store, stream='roundtrip', expected=a['toks'],
                              actual=None if b is None else b['toks']))
            # correspondence request
            if b is not None:
                rq = model_request(a)
                if rq is not None:
                    reqs.append(rq)
                    where.append((ci, a, b))
        for x in extra:
            d = (x['cls'], 'line-added')
            if d not in seen:
                seen.add(d)
                ctx.fail(f'C01|{d[0]}|{d[1]}', f'written file has an extra {x["cls"]} line {x["toks"]}',
                         dict(case=case, stream='roundtrip', actual=x['toks']))
        results.append(True)
    if not reqs or not getattr(ctx, 'model_ok', True):
        return results
    ans = ctx.driver.batch(reqs)
    for (ci, a, b), rq, r in zip(where, reqs, ans):
        case = cases[ci]
        st = stream_of(a)
        mt = model_tokens(r)
        bt = b['toks'] if isinstance(b['toks'][0], list) else [b['toks']]
        flat_m = [t for l in mt for t in l]
        flat_b = [t for l in bt for t in l]
        payload = dict(case=dict(case, lines=minimal_lines(case, a)), stream=st, expected=r.get('spec'), actual=bt, model=mt)
        # model = spec is a theorem inside its hypotheses; outside them the class is a recorded finding
        if r.get('spec_ok') is False and r.get('hyp') is True and not ctx.broken:
            ctx.fail(f'C01|{st}|{a["cls"]}|model-differs-from-spec',
                     f'the model\'s written line does not meet the specification although the hypotheses of the theorem hold: {r}',
                     payload, kind='correspondence')
        if a['kind'] == 'atom' and any(v is None for v in b['vals']):
            continue    # fused columns etc.: already reported by the property comparison
        if not flat_same(flat_m, flat_b):
            ctx.fail(f'C01|{st}|{a["cls"]}|model', f'{a["cls"]}: written line {bt} differs from the model\'s {mt}', payload,
                     kind='correspondence')
    return results


def show(it):
    t = it['toks']
    return ' / '.join(' '.join(x) for x in t) if isinstance(t[0], list) else ' '.join(t)


def minimal_lines(case, item):
    """the smallest file that still shows the item: header lines, the context lines and the item itself"""
    keep = []
    target = item['toks'] if not isinstance(item['toks'][0], list) else item['toks'][0]
    hit = False
    lines = case['lines']
    if case.get('includes') or any(l.startswith('+') for l in lines):
        return lines
    for i, ln in enumerate(lines):
        t = ln.split()
        if not t:
            continue
        kw = t[0].upper()[:4]
        if kw in ('TITL', 'CELL', 'ZERR', 'LATT', 'SFAC', 'UNIT', 'FVAR', 'HKLF', 'END', 'PART', 'AFIX', 'RESI', 'DISP') \
                or ln.startswith(' ') and keep and keep[-1] == lines[i - 1] and lines[i - 1].rstrip().endswith('='):
            keep.append(ln)
        elif t[:len(target)] == target[:len(t)] and not hit:
            keep.append(ln)
            hit = True
    return keep if hit or item['kind'] in ('sfac', 'fvar') or item['cls'] in ('UNIT',) else lines


# ------------------------------------------------------------------------------------------------
# generator

def rand_atoms_block(rng, sfac_n, used, names, aniso_p=0.5):
    """lines of the atom section: RESI / PART / AFIX blocks with atoms"""
    lines = []
    nblocks = rng.randint(1, 4)
    for _ in range(nblocks):
        resi = rng.random() < 0.3
        if resi:
            n = rng.randint(1, 99)
            cls = rng.choice(['TOL', 'CCF3', 'Thf', ''])
            form = rng.choice(['cn', 'nc', 'n', 'cna'])
            if form == 'cn' and cls:
                lines.append(f'RESI {cls} {n}')
            elif form == 'nc' and cls:
                lines.append(f'RESI {n} {cls}')
            elif form == 'cna' and cls:
                lines.append(f'RESI {cls} {n} {n + 100}')
            else:
                lines.append(f'RESI {n}')
        part = rng.random() < 0.45
        if part:
            pn = rng.choice([1, 2, 3, -1, -2])
            if rng.random() < 0.5:
                lines.append(f'PART {pn} {rng.choice([21.0, -21.0, 10.5, 31.0, -31.0, 0.5, 10.25, 41.0]):.5f}')
            else:
                lines.append(f'PART {pn}')
        for _ in range(rng.randint(1, 4)):
            el = rng.randrange(sfac_n) + 1
            nm = gen.atom_name(rng, rng.choice(['C', 'N', 'O', 'Fe', 'Cl', 'S']), used)
            names.append(nm)
            lines.append(rand_atom_line(rng, nm, el, aniso=rng.random() < aniso_p))
            if rng.random() < 0.35:
                mn = rng.choice([13, 23, 33, 43, 137, 147, 66, 3])
                form = rng.choice([1, 1, 2, 3, 4])
                ps = [str(mn), f'{rng.choice([0.96, 0.97, 0.99, 1.08])}', f'{rng.choice([10.5, 21.0, 10.25]):.1f}', '-1.5'][:form]
                lines.append('AFIX ' + ' '.join(ps))
                for k in range(rng.randint(1, 3)):
                    hn = gen.atom_name(rng, 'H', used)
                    lines.append(rand_atom_line(rng, hn, rng.randrange(sfac_n) + 1, aniso=False, hydrogen=True))
                lines.append('AFIX 0')
        if part:
            lines.append('PART 0')
        if resi:
            lines.append('RESI 0')
    return lines


def rand_coord(rng):
    r = rng.random()
    nd = rng.choice([6, 6, 6, 5, 4, 3, 7, 8])
    if r < 0.8:
        v = rng.uniform(-0.99, 1.99)
    elif r < 0.9:
        v = rng.choice([0.0, 0.5, 0.25, 1 / 3, 2 / 3, -0.5, 1.0, 0.9999995, -0.0000004])
    else:
        v = rng.uniform(-3.9, 3.9)
    return f'{v:.{nd}f}'


def rand_sof(rng):
    r = rng.random()
    if r < 0.4:
        return '11.00000'
    m = rng.choice([1, 2, 3, -2, -3, 4, 0, 12, -12])
    p = rng.choice([1.0, 0.5, 0.25, 0.3333, 0.33333, 0.16667, 0.75, 0.123456])
    v = 10 * m + (p if m >= 0 else -p)
    return f'{v:.{rng.choice([5, 5, 4, 6, 2])}f}'


def code_coords(rng, xyz):
    """give one, two or three of the coordinates a free-variable code 10m+p (m = 1: fixed), a different m per slot so
    that a code ending up in the wrong slot is visible. Negative codes -(10m+p) are parsed as atoms by the library,
    positive ones are kept as text lines (is_atom) — both must come back."""
    slots = rng.sample([0, 1, 2], rng.choice([1, 1, 2, 3]))
    ms = rng.sample([1, 2, 3, 4, 6, 9], 3)
    negative = rng.random() < 0.7
    out = list(xyz)
    for k in slots:
        p = abs(float(xyz[k])) % 1.0
        nd = len(xyz[k].split('.')[1]) if '.' in xyz[k] else 0
        v = 10 * ms[k] + p
        out[k] = f'{-v if negative else v:.{min(nd, 6)}f}'
    return out


def rand_atom_line(rng, name, sfac, aniso, hydrogen=False, qpeak=False):
    xyz = [rand_coord(rng) for _ in range(3)]
    if not qpeak and rng.random() < 0.12:
        xyz = code_coords(rng, xyz)
    sep = lambda: ' ' * rng.choice([1, 2, 3, 4])
    if qpeak:
        xyz = [f'{float(x):.4f}' for x in xyz]
        return f'{name:<5s} 1  {xyz[0]}  {xyz[1]}  {xyz[2]}  11.00000  0.05    {rng.uniform(0.1, 3):.2f}'
    sof = rand_sof(rng)
    if hydrogen:
        us = [rng.choice(['-1.20000', '-1.50000', '-1.2', f'{rng.uniform(0.02, 0.2):.5f}'])]
    elif aniso:
        us = [f'{rng.uniform(0.011, 0.2):.5f}' for _ in range(3)] + [f'{rng.uniform(-0.03, 0.03):.5f}' for _ in range(3)]
        if rng.random() < 0.1:
            us[3] = us[4] = '0.00000'
        if rng.random() < 0.15:     # a U component coupled to a free variable (10m+p)
            k = rng.randrange(6)
            us[k] = f'{10 * rng.choice([2, 3, -2, 1]) + float(us[k]):.5f}'
    else:
        us = [rng.choice([f'{rng.uniform(0.011, 0.2):.5f}', f'{rng.uniform(0.011, 0.2):.4f}', '21.05000', '-1.20000', '0.04'])]
    return name + sep() + str(sfac) + sep() + sep().join(xyz) + sep() + sof + sep() + sep().join(us)


def make_file(rng, instr_pool=None, n_instr=None):
    """one valid SHELXL file as a list of physical lines"""
    lines = [f'TITL verif {rng.randint(1, 99999)} in some group']
    cell = gen.rand_cell(rng)
    lines.append('CELL ' + ' '.join(f'{v:.5f}' if i else str(v) for i, v in enumerate(cell)))
    lines.append('ZERR ' + ' '.join([str(rng.choice([1, 2, 4, 8, 3, 6]))] + [f'{rng.uniform(0.0001, 0.01):.5f}' for _ in range(3)] +
                                    [f'{rng.choice([0, 0.01, 0.02]):.5f}' for _ in range(3)]))
    lines.append(f'LATT {rng.choice([1, 2, 3, 4, 5, 6, 7, -1, -2, -3, -4, -5, -6, -7])}')
    for op in rng.sample(gen.SYMM_OPS, rng.randint(0, 4)):
        lines.append('SYMM ' + op)
    # SFAC: 1..n lines, plain and explicit
    els = rng.sample(gen.ELEMENTS, rng.choice([1, 2, 3, 4, 5, 6, 6, 12, 16, 18]))
    k = 0
    nsf = 0
    while k < len(els):
        if rng.random() < 0.25:
            coef = [f'{rng.uniform(0.1, 30):.{rng.choice([3, 4, 5])}f}' for _ in range(9)] + \
                   [f'{rng.uniform(-0.5, 0.5):.4f}', f'{rng.uniform(0, 3):.4f}', f'{rng.uniform(1, 900):.3f}',
                    f'{rng.uniform(0.3, 2.2):.3f}', f'{rng.uniform(1, 240):.4f}']
            lines.append('SFAC ' + els[k] + ' ' + ' '.join(coef))
            k += 1
            nsf += 1
        else:
            n = rng.randint(1, len(els) - k) if rng.random() < 0.6 else len(els) - k
            lines.append('SFAC ' + rng.choice([' ', '  ']).join(els[k:k + n]))
            k += n
            nsf += n
    if rng.random() < 0.3:
        for e in rng.sample(els, rng.randint(1, min(2, len(els)))):
            form = rng.choice([2, 3, 4])
            lines.append(f'DISP {e} ' + ' '.join([f'{rng.uniform(-0.3, 0.3):.5f}', f'{rng.uniform(0.001, 2):.5f}', f'{rng.uniform(5, 900):.2f}'][:form - 1]))
    unit = [rng.choice(['4', '8', '12', '24', '36', '48', '96', '0.5', '2.5', '1200', '1234567', '13.33', '7.125', '100000', '1234.5678'])
            for _ in els]
    lines.append('UNIT ' + ' '.join(unit))
    used = set()
    names = []
    atom_lines = rand_atoms_block(rng, nsf, used, names)
    pool = instr_pool if instr_pool is not None else gen.instruction_forms(rng, names)
    if n_instr is None:
        n_instr = rng.randint(3, 10)
    chosen = rng.sample(pool, min(n_instr, len(pool)))
    chosen += gen.long_instructions(rng, rng.choice([0, 1, 1, 2]))
    tags = []
    atomsec = []
    for kw, form, ln in chosen:
        tags.append(f'form:{kw}:{form}')
        if rng.random() < 0.06:      # keywords are case-insensitive
            head, _, rest = ln.partition(' ')
            ln = (head.lower() if rng.random() < 0.5 else head.capitalize()) + (' ' + rest if rest else '')
            tags.append('keyword-case')
        if kw in ('SAME', 'MOVE', 'ANIS', 'SPEC', 'HFIX') and rng.random() < 0.5:
            atomsec.append(ln)
        else:
            lines.append(ln)
    # FVAR: 1..99 values over several lines
    nfv = rng.choice([1, 2, 3, 5, 7, 8, 9, 14, 15, 20, 33, 99])
    style = rng.choice(['res', 'res', 'res', 'mixed', 'short', 'tiny'])
    if style == 'res':          # as SHELXL writes them: five decimals
        fv = [f'{rng.uniform(0.05, 1.5):.5f}' for _ in range(nfv)]
    elif style == 'mixed':
        fv = [f'{rng.uniform(0.05, 1.5):.{rng.choice([5, 5, 4, 6, 8])}f}' for _ in range(nfv)]
    elif style == 'short':
        fv = [f'{rng.uniform(0.05, 1.5):.{rng.choice([1, 2])}f}' for _ in range(nfv)]
    else:                       # tiny / huge magnitudes, exponent notation
        fv = [rng.choice([f'{rng.uniform(0.05, 1.5):.5f}', '0.00001', '1e-05', '123.45678', f'{rng.uniform(1, 9):.3f}e-3'])
              for _ in range(nfv)]
    per = rng.choice([7, 7, 5, 3, 10])
    for i in range(0, nfv, per):
        lines.append('FVAR ' + rng.choice([' ', '   ']).join(fv[i:i + per]))
    for ln in atomsec:
        atom_lines.insert(rng.randrange(len(atom_lines) + 1), ln)
    # do not separate an atom-section instruction from a PART/AFIX pair in a way that changes nothing: fine as is
    lines += atom_lines
    hk = rng.choice(gen.hklf_forms(rng)[:3])
    lines.append(hk[2])
    lines.append('END')
    if rng.random() < 0.5:
        lines.append(f'WGHT {rng.uniform(0.01, 0.2):.4f} {rng.uniform(0.1, 30):.4f}')
        for q in range(rng.randint(1, 4)):
            lines.append(rand_atom_line(rng, f'Q{q + 1}', 1, False, qpeak=True))
    # legal wrapping
    out = []
    for ln in lines:
        out += gen.wrap_legal(rng, ln)
    return dict(lines=out, tags=tags)


INCLUDABLE = ('DFIX', 'DANG', 'SADI', 'SAME', 'FLAT', 'DELU', 'SIMU', 'RIGU', 'ISOR', 'EADP', 'EXYZ', 'CHIV', 'EQIV', 'OMIT',
              'TEMP', 'LIST', 'EXTI', 'MOLE', 'REM', 'BOND', 'CONF', 'HTAB', 'RTAB', 'MPLA', 'FREE', 'BIND', 'SIZE', 'ACTA',
              'WGHT', 'PLAN', 'L.S.', 'CGLS', 'MERG', 'SHEL', 'TWIN', 'BASF', 'SWAT', 'DAMP', 'STIR', 'WPDB', 'FMAP', 'GRID')


def add_includes(rng, case, pool):
    """'+filename' lines with include files on disk next to the res file: flat and nested, in the instruction and in
    the atom section, whose lines partly REPEAT THE TEXT of lines of the res file (instructions kept as text,
    instructions that become objects, atoms) and partly are new; also an include file that does not exist.
    Only what the res file itself states is expected back."""
    lines = list(case['lines'])
    # logical lines of the res file that may be repeated in an include file (no wrapped ones, no context/header lines)
    def plain(i):
        ln = lines[i]
        if not ln or ln[0] == ' ' or ln.rstrip().endswith('=') or (i and lines[i - 1].rstrip().endswith('=')):
            return False
        return True
    instr = [lines[i] for i in range(len(lines)) if plain(i) and lines[i].split()[0].upper()[:4] in INCLUDABLE]
    first_fvar = next((i for i, l in enumerate(lines) if l.upper().startswith('FVAR')), None)
    hklf = next((i for i, l in enumerate(lines) if l.upper().startswith('HKLF')), None)
    if first_fvar is None or hklf is None:
        return case
    atoms = [lines[i] for i in range(first_fvar + 1, hklf) if plain(i) and lines[i].split()[0].upper()[:4] not in KEYWORDS
             and len(lines[i].split()) >= 7 and all(num(t) is not None and num(t) <= 4 for t in lines[i].split()[2:5])]
    unit = next(i for i, l in enumerate(lines) if l.upper().startswith('UNIT'))
    includes = {}

    def body(with_atoms):
        out = []
        for _ in range(rng.randint(1, 5)):
            r = rng.random()
            if r < 0.45 and instr:
                out.append(rng.choice(instr))                      # same text as a line of the res file
            elif r < 0.6 and atoms and with_atoms:
                out.append(rng.choice(atoms))                      # same text as an atom of the res file
            else:
                f = rng.choice(pool)
                if f[0] in INCLUDABLE:
                    out.append(f[2])
        return out or ['REM empty include']

    spots = []
    if rng.random() < 0.8:
        spots.append((rng.randint(unit + 1, first_fvar), False))
    if rng.random() < 0.5 or not spots:
        # between two lines of the atom section, but not inside a wrapped line
        cand = [i for i in range(first_fvar + 1, hklf + 1) if not lines[i - 1].rstrip().endswith('=') and lines[i][:1] != ' ']
        if cand:
            spots.append((rng.choice(cand), True))
    for k, (pos, in_atoms) in enumerate(sorted(spots, reverse=True)):
        name = f'inc{k}.{rng.choice(["dfx", "ins", "txt"])}'
        r = rng.random()
        if r < 0.12:
            pass                                                    # the include file does not exist
        else:
            b = body(in_atoms)
            if r < 0.45:                                            # nested include
                inner = f'inner{k}.ins'
                includes[inner] = body(in_atoms)
                b.insert(rng.randint(0, len(b)), '+' + inner)
            includes[name] = b
        lines.insert(pos, '+' + name)
    return dict(case, lines=lines, includes=includes, via=rng.choice(['file', 'file', 'inplace']),
                tags=case.get('tags', []) + ['include-files'])


def form_file(rng, kw, form, ln):
    """a small file around one instruction form"""
    base = ['TITL one form', 'CELL 0.71073 10.1 11.2 12.3 90 95.5 90', 'ZERR 4 0.001 0.002 0.003 0 0.01 0', 'LATT -1',
            'SYMM -X, 1/2+Y, -Z', 'SFAC C H O', 'UNIT 8 16 4']
    atoms = ['C1 1 0.1 0.2 0.3 11.0 0.02', 'C2 1 0.15 0.25 0.35 11.0 0.021', 'C3 1 0.11 0.21 0.31 11.0 0.022',
             'C4 1 0.12 0.22 0.32 11.0 0.023', 'O1 3 0.4 0.5 0.6 11.0 0.03', 'O2 3 0.41 0.51 0.61 11.0 0.031',
             'C5 1 0.13 0.23 0.33 11.0 0.024', 'C6 1 0.14 0.24 0.34 11.0 0.025']
    if kw == 'HKLF':
        return dict(lines=base + ['FVAR 0.5'] + atoms + [ln, 'END'], tags=[f'form:{kw}:{form}'])
    return dict(lines=base + gen.wrap_legal(rng, ln) + ['FVAR 0.5'] + atoms + ['HKLF 4', 'END'], tags=[f'form:{kw}:{form}'])


def respell_line(rng, ln):
    """the same instruction with its numbers in other free-format spellings SHELXL reads alike: no zero in front of the
    decimal point (`.5`, `-.5`), an explicit plus sign (`+0.5`, `+.5`, `+4`)"""
    toks = ln.split()
    out = [toks[0]]
    for t in toks[1:]:
        if NUM_RE.match(t) and 'e' not in t.lower():
            if t.startswith('-0.') and len(t) > 3:
                t = rng.choice(['-' + t[2:], t])
            elif t.startswith('0.') and len(t) > 2:
                t = rng.choice([t[1:], '+' + t[1:], '+' + t])
            elif t[0].isdigit():
                t = rng.choice([t, '+' + t])
        out.append(t)
    return ' '.join(out)


FIXED_CASES = [
    # witnesses of the Lean file (…_fails_on) and the defects seen while reading; replayed in every run
    dict(lines=['TITL w', 'CELL 0.71073 10 11 12 90 95 90', 'ZERR 4 0.001 0.001 0.001 0 0.01 0', 'LATT -1',
                'SFAC C H', 'SFAC Xx 1.1 2.1 3.1 4.1 5.1 6.1 7.1 8.1 9.1 0.11 0.12 13.1 0.77 12.5', 'SFAC O',
                'UNIT 1200 1234567 0.5 2', 'ACTA 50 NOHKL', 'SIZE 0.3 0.2 0.1', 'STIR 1.5', 'WGHT 0.05',
                'WGHT 0.1 0.2 0.3 0 -0.3 0.33333', 'FVAR 0.5 0.6 0.7 0.8 0.9 0.11 0.12 0.13', 'FVAR 0.14',
                'C1 1 0.1 0.2 0.3 11.0 0.05', 'C2 1 -10.25 0.2 0.3 21.0 0.05', 'HKLF 4', 'END',
                'Q1 1 0.1234 0.2345 0.3456 11.00000 0.05 1.23'], tags=['fixed']),
    dict(lines=['TITL w2', 'CELL 0.71073 10 11 12 90 95 90', 'ZERR 4 0.001 0.001 0.001 0 0.01 0', 'LATT 1',
                'SFAC C', 'UNIT 4', 'SIZE 0.1 0.2', 'ACTA NOHKL', 'OMIT -3 =', '   55.5', 'TEMP -120', 'FVAR 1.0',
                'C1 1 0.123456 0.2 0.3 11.0 0.05', 'HKLF 4', 'END',
                'Q1 1 0.123456 0.2345 0.3456 11.00000 0.05 1.234', 'Q2 1 0.1 0.2 0.3 11.00000 0.04 1.234'], tags=['fixed']),
    # a weighting scheme whose c..f are NEAR the defaults but not the defaults: all six parameters are content
    dict(lines=['TITL w3', 'CELL 0.71073 10 11 12 90 95 90', 'ZERR 4 0.001 0.001 0.001 0 0.01 0', 'LATT -1',
                'SFAC C', 'UNIT 4', 'WGHT 0.0346 0.6436 0 0 0 0.3333', 'FVAR 1.0', 'C1 1 0.1 0.2 0.3 11.0 0.05', 'HKLF 4', 'END',
                'WGHT 0.05 0.2 0.00005 0 0 0.33333'], tags=['fixed']),
    # the same object reads a second file: nothing of the first one (END seen, its WGHT, its PART/AFIX/RESI) may show
    dict(lines=['TITL w4', 'CELL 0.71073 10 11 12 90 95 90', 'ZERR 4 0.001 0.001 0.001 0 0.01 0', 'LATT -1',
                'SFAC C H', 'UNIT 4 4', 'FVAR 1.0', 'C1 1 0.123456 0.2 0.3 11.0 0.05',
                'C2 1 0.15 0.25 0.35 11.0 0.02 0.03 0.04 0.001 0.002 0.003', 'HKLF 4', 'END'], reuse=True, tags=['fixed']),
]


def run(ctx):
    ctx.rule = ('generated valid files (header, any LATT/SYMM, 1..n SFAC lines plain/explicit, DISP, UNIT, 3..10 '
                'instruction forms from the full syntax table, 1..99 free variables over several FVAR lines, RESI/PART/AFIX '
                'blocks with iso/aniso atoms and riding hydrogens, HKLF forms, WGHT + Q-peaks after END, legal wrapping; read through '
                'read_string, or read_file from disk (write to another file or in place), with flat/nested/missing +filename include '
                'files whose lines partly repeat the text of res-file lines; one file in ten by an object that has read another '
                'complete file before) plus one '
                'file per (keyword, prefix form); distinct by the text; non-trivial = contains an instruction with a printer '
                'override (SIZE ACTA STIR WGHT SYMM UNIT FVAR), an explicit SFAC entry, or an atom inside PART/AFIX')
    ctx.assumptions = ['parse reached the end of the file (else skipped and counted: C02)',
                       'adding trailing SHELXL defaults (WGHT c..f, STIR step) denotes the same instruction',
                       'CPython repr(float) reads back as the same number (FVAR/WGHT/STIR/UNIT non-integers)',
                       'fields of an atom line do not fuse (hypothesis Sep of atom_render_close; |x| < 1000)']
    rng = ctx.rng
    cases = [dict(c) for c in FIXED_CASES]
    # one file per (keyword, form)
    names = ['C1', 'C2', 'C3', 'C4', 'O1', 'O2', 'C5', 'C6']
    forms = gen.instruction_forms(rng, names) + gen.hklf_forms(rng)
    ok_forms = []
    form_cases = [form_file(rng, *f) for f in forms]
    evaluate(ctx, cases)
    res = evaluate(ctx, form_cases)
    for f, r in zip(forms, res):
        if r and f[0] != 'HKLF':
            ok_forms.append(f)
    # the forms that parse, once more with their numbers in other free-format spellings (`-.5`, `+.25`, `+4`): same content
    respelt = []
    for f in ok_forms:
        ln = respell_line(rng, f[2])
        if ln != f[2]:
            c = form_file(rng, f[0], f[1], ln)
            c['tags'] = c['tags'] + ['respelt']
            respelt.append(c)
    evaluate(ctx, respelt)
    ctx.extra['forms_respelt'] = len(respelt)
    ctx.extra['forms_total'] = len(forms)
    ctx.extra['forms_parsed_to_end'] = len(ok_forms) + sum(1 for f in forms if f[0] == 'HKLF')
    ctx.extra['forms_skipped'] = sorted({f'{f[0]}:{f[1]}' for f in forms if f not in ok_forms and f[0] != 'HKLF'})
    n = 40000 if ctx.tier == 'thorough' else (6000 if ctx.escalated else 600)   # edited sources: ten times the files
    batch = []
    for i in range(n):
        # instruction forms that got through the parser on their own (values regenerated every 50 files)
        if i % 50 == 0:
            fresh = gen.instruction_forms(rng, names)
            okset = {(f[0], f[1]) for f in ok_forms}
            pool = [f for f in fresh if (f[0], f[1]) in okset]
        c = make_file(rng, instr_pool=pool)
        r = rng.random()
        if r < 0.15:
            c = add_includes(rng, c, pool)
        elif r < 0.3:
            c['via'] = rng.choice(['file', 'inplace'])          # the second entry point, without include files
        if rng.random() < 0.1:
            c['reuse'] = True                                   # an object that has read another file before
            c['tags'] = c.get('tags', []) + ['reused-object']
        batch.append(c)
        if len(batch) >= 200:
            evaluate(ctx, batch)
            batch = []
    if batch:
        evaluate(ctx, batch)

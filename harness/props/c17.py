"""
C17 — restraint diagnostics name exactly the atoms that do not exist.

One case = a small SHELXL file described by construction: residue blocks (class as written, number, atom
names as written) and one to three restraint lines. The file text is rendered, read with
`Shelxfile().read_string`, and `shx.restraint_errors` is observed:

  * per 'Atom list has no -->' line, in order: the set of (NAME, residue) the reported names denote
    (`C1` = residue 0, `C1_3` = residue 3; upper case) — nothing else of the wording is read;
  * whether `restraint_errors` is empty.

Streams
  missing   implementation vs spec `missing` (theorem warnings_eq_missing)        -> kind property
  model     implementation vs model `assign` (the code with fixes C17_1..4)       -> kind correspondence
The generator's own by-construction expectation (which pair was left out) is asserted against the spec as well
(a disagreement there is a harness error, exit 2).
"""
import itertools
import re

from .. import core, gen

# every keyword that _parse_cards turns into a Restraint object appended to shx.restraints, with numeric
# parameters that keep its constructor from raising (DFIX/DANG need d, DANG d > s, NCSY needs DN)
KEYWORDS = {
    'SADI': ['', '0.03'], 'DFIX': ['1.54', '1.54 0.01'], 'DANG': ['2.5', '2.5 0.05'], 'SAME': ['', '0.03 0.05'],
    'SIMU': ['', '0.05 0.09 1.9'], 'DELU': ['', '0.02 0.03'], 'RIGU': ['', '0.005'], 'ISOR': ['', '0.11 0.21'],
    'FLAT': ['', '0.2'], 'CHIV': ['', '2.5 0.2'], 'EADP': [''], 'EXYZ': [''], 'NCSY': ['1', '2 0.2 0.06'],
}


def restraint_keywords():
    """the keywords `_parse_cards` appends to `shx.restraints`, read off the source of the tree under test; a keyword
    this table does not know yet is generated with no numeric parameter"""
    src = (core.REPO / 'shelxfile' / 'shelx' / 'shelx.py').read_text()
    found = re.findall(r'_append_card\(\s*self\.restraints\s*,\s*([A-Za-z_]\w*)\s*\(', src)
    kws = dict(KEYWORDS)
    for k in found:
        kws.setdefault(k.upper(), [''])
    return kws, sorted(set(k.upper() for k in found))


NAMES = ['C1', 'N2', 'O3A', 'C14B', 'N5']      # atom names in use (<= 4 characters); one per token of a restraint
CLASSES = ['CCF3', 'TOL', 'B2']               # a class starts with a letter and may contain digits
NUMBERS = [1, 2, 3, 4, 7, 11, 23, 105]         # residue numbers in use
ELEMENT_SFAC = {'C': 1, 'N': 2, 'O': 3}


def swapcase(s, how):
    return s.lower() if how == 'lower' else s.upper() if how == 'upper' else s


# ------------------------------------------------------------------------------------------------
# rendering and observation

def render(case):
    """case: blocks=[[class_written, number, [names...], form]], restraints=[line...], eqiv=bool, where=head|tail"""
    fs = gen.FileSpec(sfac=['C', 'N', 'O'], unit=[8, 4, 4])
    head = []
    if case.get('eqiv'):
        head.append('EQIV $1 -x, -y, -z')
        head.append('EQIV $2 1-x, y, 1/2-z')
    body = []
    k = 0
    for cls, num, names, form in case['blocks']:
        if not (num == 0 and cls == '' and form == 'implicit'):
            if form == 'num-first':
                body.append(f'RESI {num} {cls}'.rstrip())
            elif form == 'alias':
                body.append(f'RESI {cls} {num} {num + 1000}' if cls else f'RESI {num} {num + 1000}')
            else:
                body.append(f'RESI {cls} {num}' if cls else f'RESI {num}')
        for n in names:
            k += 1
            body.append(gen.AtomSpec(n, ELEMENT_SFAC[n[0].upper()], (0.01 * k, 0.013 * k % 1, 0.5 - 0.003 * k), 11.0, (0.03,)))
    if case['blocks'] and case['blocks'][-1][1] != 0:
        body.append('RESI 0')
    if case.get('where') == 'tail':
        body = body + list(case['restraints'])
    else:
        head = head + list(case['restraints'])
    fs.header = head
    fs.body = body
    return fs.text()


def structure(case):
    """the by-construction content: atoms [(name written, residue)], registered residues [(class, number)]"""
    atoms = []
    resis = []
    for cls, num, names, form in case['blocks']:
        for n in names:
            atoms.append([n, num])
        if num > 0:
            # a RESI card without class: the class slot of the registry holds the card's own first word
            resis.append([cls if cls else 'RESI', num])
    return atoms, resis


def is_number(tok):
    try:
        float(tok)
    except ValueError:
        return False
    return True


def split_restraint(line):
    sp = line.split()
    return sp[0], [t for t in sp[1:] if not is_number(t)]


def parse_report(name):
    """'c1' -> ('C1', 0); 'C1_3' -> ('C1', 3)   (same reading as Lean's parseReport)"""
    nm, us, sfx = name.partition('_')
    if not us:
        return (nm.upper(), 0)
    n = 0
    for ch in sfx:
        n = 10 * n + (ord(ch) - 48 if ord(ch) >= 48 else 0)
    return (nm.upper(), n)


MARK = 'Atom list has no -->'


def observe_impl(case):
    from shelxfile import Shelxfile
    shx = Shelxfile()
    shx.read_string(render(case))
    atoms, _ = structure(case)
    got_atoms = [[a.name, a.resinum] for a in shx.atoms]
    if got_atoms != atoms:
        return dict(error=f'atoms parsed {got_atoms}, file has {atoms}')
    got_restr = [str(r) for r in shx.restraints]
    if [' '.join(g.split()) for g in got_restr] != [' '.join(r.split()) for r in case['restraints']]:
        return dict(error=f'restraints parsed {got_restr}, file has {case["restraints"]}')
    lists = []
    for m in shx.restraint_errors:
        if MARK in m:
            names = m.split(MARK, 1)[1]
            names = re.sub(r'\*\*\*\s*$', '', names.strip()).strip()
            lists.append(sorted({parse_report(n.strip()) for n in names.split(',') if n.strip()}))
    return dict(lists=[[list(p) for p in l] for l in lists], nmsg=len(shx.restraint_errors), raw=list(shx.restraint_errors))


def pairset(l):
    return sorted({(str(a), int(b)) for a, b in l})


# ------------------------------------------------------------------------------------------------
# evaluation

def classify_case(kw, toks, spec):
    sfx = kw.partition('_')[2]
    kmode = 'kw=none' if '_' not in kw else 'kw=star' if sfx == '*' else 'kw=num' if sfx.isdigit() else 'kw=class'
    if kmode == 'kw=class':
        kmode += '' if spec['classKnown'] else '-unknown'
    return kmode, sorted({kmode} | {token_kind(t) for t in toks})


def token_kind(t):
    if t in ('<', '>', '='):
        return 'tok=range'
    if t.startswith('$'):
        return 'tok=$E'
    if '_$' in t:
        return 'tok=_$n'
    if t.endswith('_*'):
        return 'tok=_*'
    if '_' in t:
        return 'tok=_n'
    return 'tok=bare'


def signature(kmode, toks, pairs, direction, stream):
    """site of the divergence: the kind of the token the first differing (NAME, residue) pair belongs to; for a bare
    token the keyword suffix decides, so it is part of the site"""
    site = 'tok=?'
    for nm, _ in sorted(pairs):
        t = next((t for t in toks if t.upper().split('_')[0] == nm and not t.startswith('$')), None)
        if t is not None:
            site = token_kind(t)
            break
    if site in ('tok=bare', 'tok=?'):
        site = f'{kmode}|{site}'
    return f'C17|{stream}|{site}|{direction}'


def evaluate(ctx, cases, stream=None):
    reqs = []
    idx = []
    impls = []
    for ci, case in enumerate(cases):
        obs = observe_impl(case)
        impls.append(obs)
        atoms, resis = structure(case)
        for ri, line in enumerate(case['restraints']):
            kw, toks = split_restraint(line)
            reqs.append(dict(p='C17', op='check', atoms=atoms, resis=resis, kw=kw, toks=toks))
            idx.append((ci, ri))
    ans = ctx.driver.batch(reqs)
    ctx.stream('missing')
    ctx.stream('model')
    per_case = {}
    for (ci, ri), r in zip(idx, ans):
        per_case.setdefault(ci, []).append(r)
    for ci, case in enumerate(cases):
        obs = impls[ci]
        rs = per_case.get(ci, [])
        if 'error' in obs:
            ctx.fail('C17|parse', f'generated file not parsed as constructed: {obs["error"]}',
                     dict(case=case, stream='model', actual=obs), kind='correspondence')
            continue
        if any(not r['spec']['wf'] for r in rs):
            raise RuntimeError(f'C17 generator left the stated domain (WellFormed false): {case}')
        spec_lists = [pairset(r['spec']['missing']) for r in rs]
        if 'expect' in case and case['expect'] is not None:
            want = [pairset(e) for e in case['expect']]
            if want != spec_lists:
                raise RuntimeError(f'C17 generator expectation {want} differs from spec {spec_lists}: {case}')
        model_lists = [None if r['model']['err'] else pairset(r['model']['reported']) for r in rs]
        got = [pairset(l) for l in obs['lists']]
        exp_spec = [l for l in spec_lists if l]
        exp_model = [l for l in model_lists if l]
        kinds = [classify_case(*split_restraint(line), r['spec']) for line, r in zip(case['restraints'], rs)]
        tags = sorted({t for _, tt in kinds for t in tt})
        anymissing = any(spec_lists)
        addressed_other = any(a is not None and a != [0] for r in rs for a in r['spec']['addressed'])
        ctx.count(['c', case['blocks'], case['restraints'], case.get('eqiv'), case.get('where')],
                  nontrivial=addressed_other or anymissing,
                  sample=dict(restraints=case['restraints'], blocks=[[b[0], b[1], b[2]] for b in case['blocks']],
                              impl=obs['raw'][:4], spec=spec_lists) if (addressed_other and anymissing) else None,
                  tags=tags + ['missing' if anymissing else 'all-exist', f'nres={len([b for b in case["blocks"] if b[1] > 0])}',
                               f'nrestr={len(case["restraints"])}'] + ['kwd=' + line.split()[0].split('_')[0].upper() for line in case['restraints']])
        # --- implementation vs spec (the property) ---------------------------------------------------
        open_msg = any(r['spec']['classKnown'] is False for r in rs)   # unknown class: the class message is not constrained
        bad_prop = got != exp_spec or (not anymissing and not open_msg and obs['nmsg'] != 0)
        bad_model = got != exp_model or ((obs['nmsg'] != 0) != any(r['model']['anyMessage'] for r in rs if not r['model']['err']))
        if not (bad_prop or bad_model):
            continue
        # minimise: does one restraint of the file fail alone?
        culprit = None
        if len(case['restraints']) > 1:
            for ri in range(len(case['restraints'])):
                sub = dict(case, restraints=[case['restraints'][ri]])
                sub.pop('expect', None)
                o2 = observe_impl(sub)
                if 'error' in o2:
                    continue
                g2 = [pairset(l) for l in o2['lists']]
                e2 = [spec_lists[ri]] if spec_lists[ri] else []
                m2 = [model_lists[ri]] if model_lists[ri] else []
                if (bad_prop and g2 != e2) or (bad_model and not bad_prop and g2 != m2):
                    culprit = (ri, sub, o2)
                    break
        if culprit:
            ri, rcase, robs = culprit
            kmode, _ = kinds[ri]
            rgot = [pairset(l) for l in robs['lists']]
            rspec = [spec_lists[ri]] if spec_lists[ri] else []
            rmodel = [model_lists[ri]] if model_lists[ri] else []
        else:
            ri = 0
            rcase, robs, rgot, rspec, rmodel = case, obs, got, exp_spec, exp_model
            # signature from the restraint whose expectation differs first
            pos = 0
            for i, l in enumerate(spec_lists):
                if l:
                    if pos >= len(got) or got[pos] != l:
                        ri = i
                        break
                    pos += 1
            kmode, _ = kinds[ri]
        flat_got = {p for l in rgot for p in l}
        flat_spec = {p for l in rspec for p in l}
        flat_model = {p for l in rmodel for p in l}
        rtoks = [t for line in rcase['restraints'] for t in split_restraint(line)[1]] if culprit is None else split_restraint(rcase['restraints'][0])[1]
        payload = dict(case=rcase, stream='missing', text=render(rcase), expected=rspec, actual=rgot, messages=robs['raw'], model=rmodel)
        where = f' (residues {[(b[0], b[1]) for b in rcase["blocks"] if b[1]]})'
        if bad_prop:
            if flat_got - flat_spec:
                direction, diff = 'false-warning', flat_got - flat_spec
                what = f'{rcase["restraints"]}: reports {sorted(diff)}, which exist or are not addressed'
            elif flat_spec - flat_got:
                direction, diff = 'missed-warning', flat_spec - flat_got
                what = f'{rcase["restraints"]}: does not report {sorted(diff)}, which exist in no addressed residue'
            elif rgot != rspec:
                direction, diff = 'grouping', flat_spec
                what = f'{rcase["restraints"]}: reported {rgot}, expected per restraint {rspec}'
            else:
                direction, diff = 'message-without-missing', set()
                what = f'{rcase["restraints"]}: every addressed atom exists, yet messages {robs["raw"]}'
            ctx.fail(signature(kmode, rtoks, diff, direction, 'missing'), what + where, payload)
        else:
            payload['stream'] = 'model'
            ctx.fail(signature(kmode, rtoks, flat_got ^ flat_model, 'differs', 'model'),
                     f'{rcase["restraints"]}: implementation reports {rgot} (messages: {robs["nmsg"]}), model {rmodel}' + where, payload,
                     kind='correspondence')


# ------------------------------------------------------------------------------------------------
# generation

def addressed_by_construction(kwmode, tokmode, resnums, classes_of):
    """residues a token addresses — written from the statement, on the structured description"""
    kind, val = tokmode
    if kind in ('$E', 'range', 'sym'):
        return None
    if kind == 'num':
        return [val]
    if kind == 'star':
        return list(resnums)
    k, v = kwmode
    if k == 'none':
        return [0]
    if k == 'num':
        return [v]
    if k == 'star':
        return list(resnums)
    return [n for n in resnums if classes_of[n].upper() == v.upper() and classes_of[n]]


def build_case(rng, kwname, kwmode, tokmodes, resis, fill, absent, casing, params, eqiv=True, where='head', form='class-first',
               strict=False):
    """
    resis: [(class, number)] in file order; kwmode: (none|num|star|class, value); tokmodes: [(bare|num|star|$E|range|sym, value)]
    fill: 'full' (every name in every residue) | 'minimal' (only what is addressed) ; absent: None or index into the
    list of addressed pairs; casing: dict(names=..., cls_resi=..., cls_kw=..., kw=...)
    """
    resnums = [n for _, n in resis]
    classes_of = {n: c for c, n in resis}
    names = list(NAMES)
    toks = []
    addressed = []           # (NAME, n) in token order
    ni = 0
    for kind, val in tokmodes:
        if kind == 'range':
            toks.append(val)
            continue
        if kind == '$E':
            toks.append('$' + val)
            continue
        nm = names[ni % len(names)]
        ni += 1
        w = swapcase(nm, casing.get('names_restr'))
        if kind == 'sym':
            toks.append(f'{w}_${val}')
            continue
        if kind == 'num':
            toks.append(f'{w}_{val}')
        elif kind == 'star':
            toks.append(f'{w}_*')
        else:
            toks.append(w)
        for n in addressed_by_construction(kwmode, (kind, val), resnums, classes_of):
            addressed.append((nm, n))
    k, v = kwmode
    kwn = swapcase(kwname, casing.get('kw'))
    kw = kwn if k == 'none' else f'{kwn}_{v}' if k == 'num' else f'{kwn}_*' if k == 'star' else f'{kwn}_{swapcase(v, casing.get("cls_kw"))}'
    uniq = []
    for p in addressed:
        if p not in uniq:
            uniq.append(p)
    gone = None
    if absent is not None and strict and absent >= len(uniq):
        return None
    if absent is not None and uniq:
        gone = uniq[absent % len(uniq)]
    present = set()
    all_res = [0] + resnums
    if fill == 'full':
        for n in all_res:
            for nm in names[:3]:
                present.add((nm, n))
    for p in uniq:
        if p[1] in all_res:
            present.add(p)
    if gone:
        present.discard(gone)
    expect = sorted({p for p in uniq if p not in present})
    blocks = []
    order = [('', 0)] + list(resis)
    seen = set()
    for ci, (cls, n) in enumerate(order):
        nm_here = [swapcase(nm, casing.get('names_atoms')) for nm in names if (nm, n) in present and (nm, n) not in seen]
        for nm in names:
            seen.add((nm, n))
        blocks.append([swapcase(cls, casing.get('cls_resi')), n, nm_here, 'implicit' if n == 0 else form])
    line = ' '.join(x for x in [kw, params] + toks if x)
    return dict(blocks=blocks, restraints=[line], eqiv=eqiv, where=where, expect=[[list(p) for p in expect]])


def residue_layouts(rng, thorough):
    """structures with 0..5 residues of 1..3 classes (a class may be the empty one)"""
    out = [[]]
    for nres in range(1, 6):
        for ncls in range(1, 4):
            if ncls > nres:
                continue
            variants = 8 if thorough else 1
            for v in range(variants):
                nums = rng.sample(NUMBERS, nres)
                cls = rng.sample(CLASSES + [''], ncls)
                assign = [cls[i % ncls] for i in range(nres)]
                if v:
                    rng.shuffle(assign)
                out.append([(assign[i], nums[i]) for i in range(nres)])
    return out


def kw_modes(resis, rng):
    nums = [n for _, n in resis]
    classes = sorted({c for c, _ in resis if c})
    modes = [('none', None), ('star', None), ('num', 0)]
    if nums:
        modes.append(('num', rng.choice(nums)))
    modes.append(('num', rng.choice([n for n in NUMBERS + [9] if n not in nums])))      # residue that does not exist
    for c in classes:
        modes.append(('class', c))
    modes.append(('class', rng.choice([c for c in CLASSES + ['XYL'] if c not in classes])))   # class without residues
    return modes


TOKEN_PATTERNS = [
    [('bare', None), ('bare', None)],
    [('bare', None), ('num', 'R'), ('bare', None)],
    [('num', 0), ('bare', None)],
    [('star', None), ('bare', None)],
    [('bare', None), ('range', '>'), ('bare', None)],
    [('bare', None), ('range', '<'), ('bare', None)],
    [('$E', 'C'), ('bare', None)],
    [('$E', 'N_*'), ('$E', 'C_R'), ('bare', None)],
    [('bare', None), ('sym', 1)],
    [('sym', 2), ('num', 'R'), ('sym', 1)],
    [('num', 'X'), ('star', None)],
    [('bare', None), ('bare', None), ('num', 'R'), ('star', None), ('range', '>'), ('$E', 'O'), ('sym', 1)],
]


def instantiate(pattern, resis, rng):
    nums = [n for _, n in resis]
    out = []
    for kind, val in pattern:
        if val == 'R':
            val = rng.choice(nums) if nums else rng.choice(NUMBERS)
        elif val == 'X':
            val = rng.choice([n for n in NUMBERS + [9] if n not in nums])
        if kind == '$E' and isinstance(val, str) and val.endswith('_R'):
            val = val[:-1] + str(rng.choice(nums) if nums else 1)
        out.append((kind, val))
    return out


CASINGS = [dict(), dict(names_restr='lower'), dict(names_atoms='lower'), dict(cls_resi='lower'), dict(cls_kw='lower'),
           dict(kw='lower', names_restr='lower', cls_kw='lower'), dict(cls_resi='lower', cls_kw='lower', names_atoms='lower')]


def grid(rng, thorough):
    """the bounded-exhaustive part: layouts x keyword modes x token patterns x (all present | each single one absent)"""
    KEYWORDS, _ = restraint_keywords()
    kws = list(KEYWORDS)
    i = 0
    for resis in residue_layouts(rng, thorough):
        for kwmode in kw_modes(resis, rng):
            for pattern in TOKEN_PATTERNS:
                tokmodes = instantiate(pattern, resis, rng)
                for fill in ('full', 'minimal'):
                    absents = [None] + (list(range(12)) if thorough else [rng.randrange(8)])
                    for absent in absents:
                        i += 1
                        kwname = kws[i % len(kws)]
                        params = KEYWORDS[kwname][(i // len(kws)) % len(KEYWORDS[kwname])]
                        casing = CASINGS[(i // 3) % len(CASINGS)] if (i % 3 == 0) else {}
                        c = build_case(rng, kwname, kwmode, tokmodes, resis, fill, absent, casing, params,
                                       eqiv=True, where='tail' if i % 5 == 0 else 'head',
                                       form=['class-first', 'num-first', 'alias'][(i // 7) % 3], strict=thorough)
                        if c is not None:
                            yield c


def keyword_cross(rng, thorough):
    """every restraint keyword (each parameter form) x every keyword suffix x every token pattern, on a few layouts"""
    KEYWORDS, _ = restraint_keywords()
    layouts = [l for l in residue_layouts(rng, False) if len(l) in (0, 3, 5)]
    layouts = layouts[:1] + rng.sample(layouts[1:], 3 if thorough else 1)
    for resis in layouts:
        for kwname, forms in KEYWORDS.items():
            for params in forms:
                for kwmode in kw_modes(resis, rng):
                    for pi, pattern in enumerate(TOKEN_PATTERNS):
                        tokmodes = instantiate(pattern, resis, rng)
                        for absent in (None, rng.randrange(8)):
                            yield build_case(rng, kwname, kwmode, tokmodes, resis, 'full' if (pi + len(kwname)) % 2 else 'minimal', absent,
                                             CASINGS[(pi + len(params)) % len(CASINGS)], params)


def random_case(rng):
    KEYWORDS, _ = restraint_keywords()
    layouts = residue_layouts(rng, False)
    resis = list(rng.choice(layouts))
    if resis and rng.random() < 0.25:
        # a residue continued in a second block further down (registered twice under the same number)
        resis.append(rng.choice(resis))
    n = rng.choice([1, 1, 2, 3])
    cases = []
    for _ in range(n):
        kwname = rng.choice(list(KEYWORDS))
        kwmode = rng.choice(kw_modes(resis, rng))
        tokmodes = instantiate(rng.choice(TOKEN_PATTERNS), resis, rng)
        rng.shuffle(tokmodes)
        cases.append((kwname, kwmode, tokmodes))
    # several restraints share one structure: build each, then merge the atoms that have to be present
    casing = rng.choice(CASINGS)
    fill = rng.choice(['full', 'minimal'])
    built = [build_case(rng, k, m, t, resis, fill, rng.choice([None, rng.randrange(8)]), casing, rng.choice(KEYWORDS[k]),
                        form=rng.choice(['class-first', 'num-first', 'alias'])) for k, m, t in cases]
    if n == 1:
        return built[0]
    # merged structure: an atom is present iff it is present in every single-restraint file (so what one restraint
    # misses stays missing); the expectation is left to the spec
    keep = None
    for b in built:
        s = {(nm.upper(), blk[1]) for blk in b['blocks'] for nm in blk[2]}
        keep = s if keep is None else keep & s
    first = built[0]
    blocks = [[blk[0], blk[1], [nm for nm in blk[2] if (nm.upper(), blk[1]) in keep], blk[3]] for blk in first['blocks']]
    return dict(blocks=blocks, restraints=[b['restraints'][0] for b in built], eqiv=True, where=rng.choice(['head', 'tail']), expect=None)


def run(ctx):
    ctx.rule = ('generated files: residue 0 plus 0..5 RESI blocks of 1..3 classes (one may be the empty class), atoms C1 N2 O3A C14B; '
                '1..3 restraints of 13 keywords x keyword suffix (none, _0, _n existing, _n not existing, _CLASS known/unknown, _*) x '
                'token patterns (bare, _n, _0, _*, $E, <, >, _$n); every addressed atom present or exactly one absent; case variants of '
                'names, classes and keywords; distinct by (blocks, restraint lines); non-trivial = some token addresses residues other '
                'than [0], or an atom is missing')
    ctx.assumptions = ['keyword carries at most one "_"; residue numbers on atoms are written without leading zeros (wfTok); '
                       'atom names carry no "_" (wfFile); ASCII', 'all residues = the residues defined by RESI cards (number > 0); '
                       'residue 0 is addressed only by default or by _0 (this is what tests/test_restraints.py fixes for NAME_*)',
                       'a RESI card without class is registered by the code under the class name RESI; no generated restraint uses that class']
    thorough = ctx.tier == 'thorough' or ctx.escalated
    _, in_source = restraint_keywords()
    ctx.extra['restraint_keywords_in_source'] = in_source
    if set(in_source) - set(KEYWORDS):
        ctx.note(f'restraint keywords in the source that the table of this check does not know: {sorted(set(in_source) - set(KEYWORDS))}')
    if set(KEYWORDS) - set(in_source):
        ctx.broken.append(f'extract: keywords no longer appended to shx.restraints by _parse_cards: {sorted(set(KEYWORDS) - set(in_source))}')
    cases = []
    g = list(grid(ctx.rng, thorough))
    if not thorough:
        ctx.rng.shuffle(g)
        g = g[:ctx.budget(1200, len(g))]
    else:
        ctx.exhaustive = True
        ctx.extra['grid'] = f'{len(g)} files: layouts x keyword modes x {len(TOKEN_PATTERNS)} token patterns x fill x (present | each single absence, up to 12)'
    cases += g
    kc = list(keyword_cross(ctx.rng, thorough))
    if not thorough:
        ctx.rng.shuffle(kc)
        kc = kc[:500]
    else:
        ctx.extra['keyword_cross'] = f'{len(kc)} files: 13 keywords x parameter forms x keyword suffixes x {len(TOKEN_PATTERNS)} token patterns on 4 layouts'
    cases += kc
    for _ in range(ctx.budget(600, 60000)):
        cases.append(random_case(ctx.rng))
    for i in range(0, len(cases), 2000):
        evaluate(ctx, cases[i:i + 2000])

"""
C17 — restraint diagnostics name exactly the atoms that do not exist.

One case = a small SHELXL file described by construction: residue blocks (class as written, number, atom
names as written) and one to three restraint lines. The file text is rendered, read with
`Shelxfile().read_string`, and `shx.restraint_errors` is observed:

  * per 'Atom list has no -->' line, in order: the set of (NAME, residue) the reported names denote
    (`C1` = residue 0, `C1_3` = residue 3; upper case) — nothing else of the wording is read;
  * whether `restraint_errors` is empty.

Streams
  missing   implementation vs spec `missing` (theorem warnings_eq_missing)        -> kind property
  model     implementation vs model `assign` (the code with fixes C17_1..4)       -> kind correspondence
  history   the same two comparisons after a history on the parsed object: evaluations / look-ups (they build the cached
            name index `Atoms._atomsdict`) interleaved with edits of the atom list through every form the library offers
            (`del shx.atoms[id]`, `Atom.delete()`, `Atom.name = ...`, `add_atom`) and, rarely, `atom.resi = RESI(...)`;
            then `shx._assign_atoms_to_restraints()` is evaluated again (twice: both results must agree) and compared with
            the spec on the EDITED atom list (theorem history_statement: every history, also the attribute assignment,
            since the check rebuilds the index). Before that evaluation `get_atom_by_name('NAME_n')` is observed for
            NAME x residue: against the model always, against the edited atom list for histories of API edits
            (theorem lookup_after_history). The edited atom list itself is compared with the model of the edits.
Files are read with read_string, read_file or reload, also on an object that has read one or two different structures
before (other residues, classes, atoms, restraints): the diagnostics of the last read are compared with its own spec.
Numerical parameters are written in every spelling of the free format; which tokens are numbers is decided by the
format (NUM_RE), not by the implementation — a parameter that is reported as an atom is a false warning
(implementation vs spec only: the split of parameters from atom names is upstream of the Lean model).
Physical layout: a restraint stands in the file as SHELXL allows — wrapped with '=' behind any token (also directly behind
the keyword; two to four physical lines), several blanks between tokens, blanks behind the '=', and a '!' comment behind the
'=' of any wrapped line and behind the last line; the comment may contain whatever the instruction syntax itself uses ('='
anywhere, also as its last character, '!', '$', '<', '>', '_*', names of atoms that do not exist, keywords). RESI cards and
atom lines carry such comments too (`remarks`). The logical line the expectation is computed from is checked against the
specification of the layout (C05 `norm` of the physical lines, evaluated by the driver); the model starts at the physical
lines as well (Lean `assignLines`: C05's model of the continuation loop, split, Restraint.__init__, check, set(), sort()),
theorem layout_warnings_eq_missing. A systematic part (`layout_grid`: wrap shapes x comment kinds x absent token on the
first / a middle / the last physical line) runs in every tier; 30 % of the random restraints of all streams are laid out.
Names: one pool of five names per case, pools of names that are easy to confuse (C1A C1B C1C C1' C1"; C1 C10 C11; C1 N1 O1;
C9 C09 C009; CA CA1 CAB ...). Absent atoms: none, one, two, three or all of the addressed (NAME, residue) pairs at once;
the same name more than once in a restraint (bare, _n, _*, other case). `confusable_grid` (every pool x addressing form x
none / single / pairs / all of the five names absent) runs in every tier.
A diverging case is minimised (one restraint, shortest history, plain read form, plain layout) before it is reported; one
report per class of divergence.
The generator's own by-construction expectation (which pair was left out) is asserted against the spec as well
(a disagreement there is a harness error, exit 2).
"""
import contextlib
from decimal import Decimal
import io
import re
import tempfile
from pathlib import Path

from .. import core, gen

# every keyword that _parse_cards turns into a Restraint object appended to shx.restraints, with numeric
# parameters that keep its constructor from raising (DFIX/DANG need d, DANG d > s, NCSY needs DN)
KEYWORDS = {
    'SADI': ['', '0.03'], 'DFIX': ['1.54', '1.54 0.01'], 'DANG': ['2.5', '2.5 0.05'], 'SAME': ['', '0.03 0.05'],
    'SIMU': ['', '0.05 0.09 1.9'], 'DELU': ['', '0.02 0.03'], 'RIGU': ['', '0.005'], 'ISOR': ['', '0.11 0.21'],
    'FLAT': ['', '0.2'], 'CHIV': ['', '2.5 0.2', '-2.5 0.1'], 'EADP': [''], 'EXYZ': [''], 'NCSY': ['1', '2 0.2 0.06'],
}


_KW_CACHE = {}


def restraint_keywords():
    """the keywords `_parse_cards` appends to `shx.restraints`, read off the source of the tree under test; a keyword
    this table does not know yet is generated with no numeric parameter"""
    if 'kw' not in _KW_CACHE:
        _KW_CACHE['kw'] = _restraint_keywords()
    return _KW_CACHE['kw']


def _restraint_keywords():
    src = (core.REPO / 'shelxfile' / 'shelx' / 'shelx.py').read_text()
    found = re.findall(r'_append_card\(\s*self\.restraints\s*,\s*([A-Za-z_]\w*)\s*\(', src)
    kws = dict(KEYWORDS)
    for k in found:
        kws.setdefault(k.upper(), [''])
    return kws, sorted(set(k.upper() for k in found))


NAMES = ['C1', 'N2', 'O3A', 'C14B', 'N5']      # atom names in use (<= 4 characters); one per token of a restraint
# families of names that are easy to confuse: one pool per case (the first is the pool above, pairwise different in
# everything). Within the others two names share the element letters and the number and differ only behind it (the
# labels of disordered sites: C1A / C1B, C1' / C1"), or one is a prefix of the other (C1 / C10 / C1A), or they differ
# only in the number, or only in the element letters.
NAME_POOLS = [
    NAMES,
    ['C1A', 'C1B', 'C1C', "C1'", 'C1"'],
    ['C1', 'C10', 'C11', 'C2', 'C12'],
    ['C1', 'N1', 'O1', 'C1A', 'N1A'],
    ['C2A', 'N2A', 'C2B', 'N2B', 'C2'],
    ["O1'", 'O1"', 'O1', 'O1A', "O11'"],
    ['C9', 'C09', 'C009', 'C90', 'C900'],
    ['CA', 'CB', 'CA1', 'CB1', 'CAB'],
]
CLASSES = ['CCF3', 'TOL', 'B2']               # a class starts with a letter and may contain digits
NUMBERS = [1, 2, 3, 4, 7, 11, 23, 105]         # residue numbers in use
ELEMENT_SFAC = {'C': 1, 'N': 2, 'O': 3, 'I': 1}      # the scattering factor number is not tied to the name


def respell_number(rng, tok):
    """the same value in another spelling that the free format accepts: sign, leading/trailing point, zero padding,
    exponent with e or E (signed, padded), mantissa with or without point"""
    d = Decimal(tok)
    neg = d < 0
    a = -d if neg else d
    plain = format(a, 'f')
    forms = [plain, plain + '0' if '.' in plain else plain + '.', '0' + plain]
    if '.' not in plain:
        forms += [plain + '.', plain + '.0']
    if plain.startswith('0.'):
        forms.append(plain[1:])                       # .03
    for k in (-3, -2, -1, 0, 1, 2):
        m = format(a.scaleb(-k), 'f')
        if '.' in m:
            m = m.rstrip('0')                         # 3. / 30.
        for e in ('e', 'E'):
            forms.append(f'{m}{e}{k}')
            forms.append(f'{m}{e}{k:+03d}')
            if m.startswith('0.') and len(m) > 2:
                forms.append(f'{m[1:]}{e}{k:+d}')
    f = rng.choice(forms)
    if neg:
        return '-' + f
    return rng.choice(['', '', '+']) + f


def respell(rng, params):
    return ' '.join(respell_number(rng, t) for t in params.split())


def swapcase(s, how):
    return s.lower() if how == 'lower' else s.upper() if how == 'upper' else s


# ------------------------------------------------------------------------------------------------
# rendering and observation

def render(case):
    """case: blocks=[[class_written, number, [names...], form]], restraints=[line...], eqiv=bool, where=head|tail"""
    fs = gen.FileSpec(sfac=['C', 'N', 'O'], unit=[8, 4, 4])
    head = []
    if case.get('eqiv'):
        head.append('EQIV $1 -x, -y, -z')
        head.append('EQIV $2 1-x, y, 1/2-z')
    body = []
    k = 0
    # `remarks`: '!' comments behind the RESI cards and the atom lines (the lines the diagnostics depend on), used in turn
    rem = case.get('remarks') or []
    nrem = [0]

    def remark():
        nrem[0] += 1
        c = rem[nrem[0] % len(rem)] if rem else ''
        return '  !' + c if c else ''
    for cls, num, names, form in case['blocks']:
        if not (num == 0 and cls == '' and form == 'implicit'):
            if form == 'num-first':
                body.append(f'RESI {num} {cls}'.rstrip() + remark())
            elif form == 'alias':
                body.append((f'RESI {cls} {num} {num + 1000}' if cls else f'RESI {num} {num + 1000}') + remark())
            else:
                body.append((f'RESI {cls} {num}' if cls else f'RESI {num}') + remark())
        for n in names:
            k += 1
            body.append(gen.AtomSpec(n, ELEMENT_SFAC[n[0].upper()], (0.01 * k, 0.013 * k % 1, 0.5 - 0.003 * k), 11.0, (0.03,)).line() + remark())
    if case['blocks'] and case['blocks'][-1][1] != 0:
        body.append('RESI 0' + remark())
    if case.get('where') == 'tail':
        body = body + physical(case)
    else:
        head = head + physical(case)
    fs.header = head
    fs.body = body
    return fs.text()


def physical(case):
    """the restraints as they stand in the file: one string per restraint, the physical lines of a wrapped one joined
    with newlines (`layout[i]` = the physical lines of restraint i, None = the logical line as it is)"""
    lay = case.get('layout') or []
    return ['\n'.join(lay[i]) if i < len(lay) and lay[i] else line for i, line in enumerate(case['restraints'])]


# what may stand behind the '!' of a physical line (SHELXL ignores everything behind it): plain words, names of atoms that
# do not exist anywhere, numbers, the characters the instruction syntax itself uses ('=' anywhere, also as the last
# character; '!', '$', '<', '>', '_*')
COMMENTS = ['', ' first pair', ' d = 1.54', 'd=1.54 s=0.02', ' C77 N88_3 are not in the list', ' =', '= =', ' see SADI_9 C77 =',
            '! target = 1.54 !', ' $C > < C77_*', ' RESI 9 XYL', ' x =   ']


def lay_out(rng, line, shape=None, comment=None, last_comment=None):
    """one logical instruction line written as SHELXL allows: wrapped with ' =' behind any token (continuation lines
    start with blanks), several blanks between tokens, blanks behind the '=', a '!' comment behind the '=' of any wrapped
    line and behind the last line.  shape: list of token counts per physical line (None: random)"""
    toks = line.split()
    if shape is None:
        nl = rng.choice([1, 2, 2, 2, 3, 3, 4])
        nl = max(1, min(nl, len(toks)))
        cuts = sorted(rng.sample(range(1, len(toks)), nl - 1)) if nl > 1 else []
    else:
        cuts = []
        k = 0
        for n in shape[:-1]:
            k += n
            if 0 < k < len(toks):
                cuts.append(k)
    parts = [toks[a:b] for a, b in zip([0] + cuts, cuts + [len(toks)])]
    out = []
    for i, part in enumerate(parts):
        sep = rng.choice([' ', ' ', ' ', '  ', '   ', '\t', ' \t '])
        text = ('' if i == 0 else ' ' * rng.choice([1, 2, 3, 5])) + sep.join(part)
        if i < len(parts) - 1:
            c = rng.choice(COMMENTS) if comment is None else comment
            text += rng.choice([' ', ' ', ' ', '  ', '\t', '']) + '=' + rng.choice(['', '', ' ', '  ', '\t']) + ('!' + c if c else '')
        else:
            c = rng.choice(COMMENTS[:1] * 3 + COMMENTS) if last_comment is None else last_comment
            text += (rng.choice([' ', '  ', '', '\t']) + '!' + c if c else rng.choice(['', '', ' ', '\t', '  ']))
        out.append(text)
    return out


def structure(case):
    """the by-construction content: atoms [(name written, residue)], registered residues [(class, number)]"""
    atoms = []
    resis = []
    for cls, num, names, form in case['blocks']:
        for n in names:
            atoms.append([n, num])
        if num > 0:
            # a RESI card without class: the class slot of the registry holds the card's own first word
            resis.append([cls if cls else 'RESI', num])
    return atoms, resis


# a numerical parameter in SHELXL's free format: optional sign, digits with an optional point (also '.5' and '2.'),
# optional exponent with e or E. Written from the format, not taken from the implementation (float()).
NUM_RE = re.compile(r'^[+-]?(\d+\.?\d*|\.\d+)([eE][+-]?\d+)?$')


def is_number(tok):
    return bool(NUM_RE.match(tok))


def split_restraint(line):
    sp = line.split()
    return sp[0], [t for t in sp[1:] if not is_number(t)]


def parse_report(name):
    """'c1' -> ('C1', 0); 'C1_3' -> ('C1', 3)   (same reading as Lean's parseReport)"""
    nm, us, sfx = name.partition('_')
    if not us:
        return (nm.upper(), 0)
    n = 0
    for ch in sfx:
        n = 10 * n + (ord(ch) - 48 if ord(ch) >= 48 else 0)
    return (nm.upper(), n)


MARK = 'Atom list has no -->'


def read_case(case, tmp=None):
    """read the rendered file in the form the case asks for — read_string, read_file, reload — on an object that may
    have read other structures before (`prior`: different residues, classes, atoms, restraints)"""
    from shelxfile import Shelxfile
    shx = Shelxfile()
    how = case.get('read', 'string')
    prior = list(case.get('prior') or [])
    if how == 'twice':
        # same structure with every second atom left out and a restraint on an atom that does not exist
        prior.append(dict(case, blocks=[[b[0], b[1], b[2][::2], b[3]] for b in case['blocks']],
                          restraints=['SADI C77 N88'] + list(case['restraints']), read='string', prior=None,
                          layout=[None] + list(case.get('layout') or [])))
        how = 'string'
    needs_file = how in ('file', 'reload') or any(p.get('read') == 'file' for p in prior)
    ctxm = tempfile.TemporaryDirectory() if needs_file else contextlib.nullcontext()
    with ctxm as tmp:
        path = Path(tmp) / 'c17.res' if needs_file else None
        for p in prior:
            if p.get('read') == 'file':
                path.write_text(render(p))
                shx.read_file(str(path))
            else:
                shx.read_string(render(p))
        text = render(case)
        if how == 'file':
            path.write_text(text)
            shx.read_file(str(path))
        elif how == 'reload':
            # the file the object was read from has changed on disk
            if not prior or prior[-1].get('read') != 'file':
                path.write_text(render(prior[-1]) if prior else text)
                shx.read_file(str(path))
            path.write_text(text)
            shx.reload()
        else:
            shx.read_string(text)
    return shx


def apply_op(shx, op, k):
    from shelxfile.shelx.cards import RESI
    kind = op[0]
    if kind == 'check':
        shx._assign_atoms_to_restraints()
        shx.atoms.get_atom_by_name('C1')        # a look-up: the index is certainly rebuilt now
    elif kind == 'touch':
        shx.atoms.get_atom_by_name(op[1])
    elif kind == 'delItem':
        a = shx.atoms.all_atoms[op[1]]
        del shx.atoms[a.atomid]
    elif kind == 'delete':
        shx.atoms.all_atoms[op[1]].delete()
    elif kind == 'rename':
        shx.atoms.all_atoms[op[1]].name = op[2]
    elif kind == 'add':
        shx.add_atom(name=op[1], coordinates=[0.9 - 0.01 * k, 0.8 - 0.02 * k, 0.7 + 0.01 * k], element=op[1][0].upper(),
                     uvals=[0.04, 0.04, 0.04, 0.0, 0.0, 0.0])
    elif kind == 'setResi':
        shx.atoms.all_atoms[op[1]].resi = RESI(shx, ['RESI', str(op[2])])
    else:
        raise ValueError(op)


def driver_ops(ops):
    """the history as the model sees it: the parse ends with one evaluation"""
    return [['check']] + [['lookup'] if op[0] == 'touch' else list(op) for op in ops]


def observe_impl(case):
    shx = read_case(case)
    atoms, _ = structure(case)
    got_atoms = [[a.name, a.resinum] for a in shx.atoms]
    if got_atoms != atoms:
        return dict(error=f'atoms parsed {got_atoms}, file has {atoms}')
    got_restr = [str(r) for r in shx.restraints]
    if len(got_restr) != len(case['restraints']):
        return dict(error=f'restraints parsed {got_restr}, file has {case["restraints"]}')
    # the text of a restraint is not an observable of this property: a difference is reported only if the diagnostics
    # themselves are as they should be (otherwise the diagnostics are the report)
    differs = None
    if [' '.join(g.split()) for g in got_restr] != [' '.join(r.split()) for r in case['restraints']]:
        differs = f'restraints parsed {got_restr}, file has {case["restraints"]}'
    messages = shx.restraint_errors
    ops = case.get('ops')
    lookups = None
    if ops:
        shx.atoms.get_atom_by_name('C1')            # the parse ended with an evaluation; make sure the index is built
        with contextlib.redirect_stdout(io.StringIO()):
            for k, op in enumerate(ops):
                try:
                    apply_op(shx, op, k)
                except Exception as e:
                    return dict(error=f'history op {op} raised {type(e).__name__}: {e}')
            # the name index after the history, before the evaluation rebuilds it
            lookups = [bool(shx.atoms.get_atom_by_name(f'{nm}_{n}')) for nm, n in probes(case)]
            messages = shx._assign_atoms_to_restraints()
            again = shx._assign_atoms_to_restraints()
        if again != messages:
            return dict(error=f'second evaluation differs from the first: {messages} / {again}')
    lists = []
    for m in messages:
        if MARK in m:
            names = m.split(MARK, 1)[1]
            names = re.sub(r'\*\*\*\s*$', '', names.strip()).strip()
            lists.append(sorted({parse_report(n.strip()) for n in names.split(',') if n.strip()}))
    return dict(lists=[[list(p) for p in l] for l in lists], nmsg=len(messages), raw=list(messages),
                atoms_after=[[a.name, a.resinum] for a in shx.atoms], lookups=lookups, restraints_differ=differs)


def probes(case):
    """(NAME, residue) pairs looked up after a history: the first names x every residue of the file"""
    return [[nm, n] for n in sorted({b[1] for b in case['blocks']}) for nm in (case.get('names') or NAMES)[:3]]


def pairset(l):
    return sorted({(str(a), int(b)) for a, b in l})


# ------------------------------------------------------------------------------------------------
# evaluation

def classify_case(kw, toks, spec):
    sfx = kw.partition('_')[2]
    kmode = 'kw=none' if '_' not in kw else 'kw=star' if sfx == '*' else 'kw=num' if sfx.isdigit() else 'kw=class'
    if kmode == 'kw=class':
        kmode += '' if spec['classKnown'] else '-unknown'
    return kmode, sorted({kmode} | {token_kind(t) for t in toks})


def token_kind(t):
    if t in ('<', '>', '='):
        return 'tok=range'
    if t.startswith('$'):
        return 'tok=$E'
    if '_$' in t:
        return 'tok=_$n'
    if t.endswith('_*'):
        return 'tok=_*'
    if '_' in t:
        return 'tok=_n'
    return 'tok=bare'


def layout_tags(case):
    tags = set()
    for lines in case.get('layout') or []:
        if not lines:
            continue
        tags.add(f'layout=lines{min(len(lines), 4)}')
        for k, l in enumerate(lines):
            code, bang, com = l.partition('!')
            if bang:
                where = 'last' if k == len(lines) - 1 else 'wrapped'
                tags.add(f'layout=comment-{where}' + ('-with-=' if '=' in com else ''))
    if case.get('remarks'):
        tags.add('comments-on-RESI-and-atom-lines')
    return sorted(tags)


def signature(kmode, toks, pairs, direction, stream):
    """site of the divergence: the kind of the token the first differing (NAME, residue) pair belongs to; for a bare
    token the keyword suffix decides, so it is part of the site"""
    site = 'tok=?'
    if any(is_number(nm) for nm, _ in pairs):
        return f'C17|{stream}|param=number|{direction}'
    for nm, _ in sorted(pairs):
        t = next((t for t in toks if t.upper().split('_')[0] == nm and not t.startswith('$')), None)
        if t is not None:
            site = token_kind(t)
            break
    if site in ('tok=bare', 'tok=?'):
        site = f'{kmode}|{site}'
    return f'C17|{stream}|{site}|{direction}'


def requests_for(case):
    atoms, resis = structure(case)
    reqs = []
    lay = case.get('layout') or []
    for i, line in enumerate(case['restraints']):
        kw, toks = split_restraint(line)
        rq = dict(p='C17', op='check', atoms=atoms, resis=resis, kw=kw, toks=toks)
        if i < len(lay) and lay[i]:
            # the model starts at the physical lines (continuation loop, split, Restraint.__init__); the spec restraint is
            # the one the layout denotes by C05.norm; which tokens are numbers is decided by the format
            rq['lines'] = list(lay[i])
            rq['numeric'] = sorted({t for t in line.split()[1:] if is_number(t)})
        if case.get('ops'):
            rq['ops'] = driver_ops(case['ops'])
            if not reqs:
                rq['probe'] = probes(case)
        reqs.append(rq)
    return reqs


def judge(case, obs, rs):
    """compare one observed case with the driver's answers (one per restraint)"""
    spec_lists = [pairset(r['spec']['missing']) for r in rs]
    model_lists = [None if r['model']['err'] else pairset(r['model']['reported']) for r in rs]
    got = [pairset(l) for l in obs['lists']]
    exp_spec = [l for l in spec_lists if l]
    exp_model = [l for l in model_lists if l]
    anymissing = any(spec_lists)
    open_msg = any(r['spec']['classKnown'] is False for r in rs)   # unknown class: the class message is not constrained
    bad_prop = got != exp_spec or (not anymissing and not open_msg and obs['nmsg'] != 0)
    bad_model = got != exp_model or ((obs['nmsg'] != 0) != any(r['model']['anyMessage'] for r in rs if not r['model']['err']))
    # look-ups after a history: against the model always, against the edited atom list for histories of API edits
    # (theorem lookup_after_history; the plain attribute assignment is outside it, the diagnostics are not)
    stale = []
    # NOT judged: what get_atom_by_name answers between the edit and the next evaluation is not part of this
    # property (the restraint check rebuilds the index); a stale look-up is property C08's subject. The look-ups
    # are still collected and shown in the evidence distribution.
    if obs.get('lookups') is not None and obs['lookups'] != rs[0]['lookup']['spec']:
        stale_unjudged = True  # noqa: F841
    return dict(spec_lists=spec_lists, model_lists=model_lists, got=got, exp_spec=exp_spec, exp_model=exp_model,
                anymissing=anymissing, bad_prop=bad_prop, bad_model=bad_model, stale=stale)


def one(ctx, case):
    """observe and judge a single case (used while minimising a failing one)"""
    obs = observe_impl(case)
    if 'error' in obs:
        return None
    rs = ctx.driver.batch(requests_for(case))
    j = judge(case, obs, rs)
    j['obs'] = obs
    j['rs'] = rs
    return j


def minimise(ctx, case, want_prop):
    """smallest sub-case that still diverges in the same way: one restraint, then the shortest history"""
    def still(c):
        j = one(ctx, c)
        return j is not None and (j['bad_prop'] if want_prop else (j['bad_model'] and not j['bad_prop']))
    case = {k: v for k, v in case.items() if k != 'expect'}
    if len(case['restraints']) > 1:
        lay = case.get('layout') or []
        for i, line in enumerate(case['restraints']):
            c = dict(case, restraints=[line], layout=[lay[i]] if i < len(lay) and lay[i] else None)
            if still(c):
                case = c
                break
    # the physical layout: the plain logical line if that diverges too, else unwrapped lines one by one
    if case.get('layout') and any(case['layout']):
        c = dict(case, layout=None)
        if still(c):
            case = c
    if case.get('layout') and any(case['layout']):
        # drop the comments one by one, then the blanks that are not needed
        for i, lines in enumerate(case['layout']):
            for k in range(len(lines or [])):
                for simpler in (case['layout'][i][k].split('!')[0].rstrip(), ' '.join(case['layout'][i][k].split('!')[0].split())):
                    if k and not simpler.startswith(' '):
                        simpler = ' ' + simpler
                    if simpler == case['layout'][i][k]:
                        continue
                    lay = [list(l) if l else l for l in case['layout']]
                    lay[i][k] = simpler
                    c = dict(case, layout=lay)
                    try:
                        ok = still(c)
                    except Exception:       # the simpler text is no valid layout any more
                        ok = False
                    if ok:
                        case = c
    if not case.get('layout'):
        case = {k: v for k, v in case.items() if k != 'layout'}
    if case.get('remarks'):
        c = {k: v for k, v in case.items() if k != 'remarks'}
        if still(c):
            case = c
    ops = list(case.get('ops') or [])
    changed = True
    while changed and ops:
        changed = False
        for i in range(len(ops)):
            trial = ops[:i] + ops[i + 1:]
            # indices of later ops refer to positions in the atom list: only drop an op if the rest stays meaningful
            c = dict(case, ops=trial)
            try:
                ok = still(c)
            except Exception:
                ok = False
            if ok:
                ops = trial
                case = c
                changed = True
                break
    # earlier reads on the same object: drop them one by one, then fall back to the plain read form
    prior = list(case.get('prior') or [])
    i = 0
    while i < len(prior):
        trial = prior[:i] + prior[i + 1:]
        c = dict(case, prior=trial)
        if still(c):
            prior, case = trial, c
        else:
            i += 1
    if not prior:
        case = {k: v for k, v in case.items() if k != 'prior'}
    if case.get('read', 'string') != 'string':
        c = dict(case, read='string')
        if still(c):
            case = c
    return case


def evaluate(ctx, cases, stream=None):
    reqs = []
    idx = []
    impls = []
    for ci, case in enumerate(cases):
        obs = observe_impl(case)
        impls.append(obs)
        for ri, rq in enumerate(requests_for(case)):
            reqs.append(rq)
            idx.append((ci, ri))
    # a laid-out restraint: C05's `norm` of its physical lines (the specification of wrapping and comments) has to be
    # the logical line the expectation is computed from, else the generator wrote something else than it meant
    laid = [(ci, i, lines) for ci, case in enumerate(cases) for i, lines in enumerate(case.get('layout') or []) if lines]
    if laid:
        for (ci, i, lines), r in zip(laid, ctx.driver.batch([dict(p='C05', op='lines', lines=list(l)) for _, _, l in laid])):
            want = cases[ci]['restraints'][i].split()
            want = [want[0].upper()] + want[1:]
            if r['spec'] != [want]:
                raise RuntimeError(f'C17 generator: layout {lines} reads as {r["spec"]} by C05.norm, meant {want}')
    ans = ctx.driver.batch(reqs)
    ctx.stream('missing')
    ctx.stream('model')
    per_case = {}
    for (ci, ri), r in zip(idx, ans):
        per_case.setdefault(ci, []).append(r)
    for ci, case in enumerate(cases):
        obs = impls[ci]
        rs = per_case.get(ci, [])
        hist = bool(case.get('ops'))
        if hist:
            ctx.stream('history')
        if 'error' in obs:
            ctx.fail('C17|history|error' if hist and 'history op' in obs['error'] or 'second evaluation' in obs['error'] else 'C17|parse',
                     f'generated file / history not processed as constructed: {obs["error"]}',
                     dict(case=case, stream='model', actual=obs), kind='correspondence')
            continue
        if any(not r['spec']['wfData'] for r in rs):
            raise RuntimeError(f'C17 generator left the stated domain (WellFormed false): {case}')
        if hist and obs['atoms_after'] != rs[0]['spec']['atomsAfter']:
            ctx.fail('C17|history|atom-list', f'after {case["ops"]} the atom list is {obs["atoms_after"]}, the model of the edits says '
                     f'{rs[0]["spec"]["atomsAfter"]}', dict(case=case, stream='history', actual=obs['atoms_after'],
                                                             model=rs[0]['spec']['atomsAfter']), kind='correspondence')
            continue
        j = judge(case, obs, rs)
        if case.get('expect') is not None and not hist:
            want = [pairset(e) for e in case['expect']]
            if want != j['spec_lists']:
                raise RuntimeError(f'C17 generator expectation {want} differs from spec {j["spec_lists"]}: {case}')
        kinds = [classify_case(*split_restraint(line), r['spec']) for line, r in zip(case['restraints'], rs)]
        tags = sorted({t for _, tt in kinds for t in tt})
        anymissing = j['anymissing']
        addressed_other = any(a is not None and a != [0] for r in rs for a in r['spec']['addressed'])
        edits = [op[0] for op in (case.get('ops') or []) if op[0] not in ('check', 'touch')]
        ctx.count(['c', case['blocks'], case['restraints'], case.get('layout'), case.get('remarks'), case.get('eqiv'), case.get('where'), case.get('ops'), case.get('read'),
                   [[p['blocks'], p['restraints'], p.get('read')] for p in case.get('prior') or []]],
                  nontrivial=(addressed_other or anymissing) and (not hist or bool(edits)),
                  sample=dict(restraints=case['restraints'], blocks=[[b[0], b[1], b[2]] for b in case['blocks']], ops=case.get('ops'),
                              impl=obs['raw'][:4], spec=j['spec_lists']) if (addressed_other and anymissing) else None,
                  tags=tags + ['missing' if anymissing else 'all-exist', f'nres={len([b for b in case["blocks"] if b[1] > 0])}',
                               f'nrestr={len(case["restraints"])}', 'read=' + case.get('read', 'string'), f'prior-reads={len(case.get("prior") or [])}']
                  + (['number-respelled'] if any(re.search(r'[eE+]|^\.|\.$|^0\d', t) for line in case['restraints'] for t in line.split()[1:] if is_number(t)) else [])
                  + ['kwd=' + line.split()[0].split('_')[0].upper() for line in case['restraints']]
                  + layout_tags(case) + [f'absent-pairs={min(3, max(len(l) for l in j["spec_lists"]))}{"+" if max(len(l) for l in j["spec_lists"]) > 3 else ""}']
                  + ([f'names=pool{NAME_POOLS.index(case["names"])}'] if case.get('names') in NAME_POOLS else [])
                  + (['history'] + ['op=' + e for e in edits] if hist else []))
        if not (j['bad_prop'] or j['bad_model']):
            if obs.get('restraints_differ'):
                ctx.fail('C17|parse', f'generated file not processed as constructed: {obs["restraints_differ"]}',
                         dict(case=case, stream='model', actual=obs), kind='correspondence')
            continue
        # --- a divergence: minimise it (a bounded number of times per run), then name its site -------------
        want_prop = j['bad_prop']
        rcase = case
        # one report per class of divergence: (stream, keyword modes, token kinds, edit ops, direction of the difference)
        fg = {p for l in j['got'] for p in l}
        fe = {p for l in (j['exp_spec'] if want_prop else j['exp_model']) for p in l}
        pre = ('P' if want_prop else 'M', tuple(tags), tuple(sorted(set(edits))), bool(fg - fe), bool(fe - fg))
        seen = ctx.__dict__.setdefault('_c17_seen', set())
        if pre in seen:
            continue
        seen.add(pre)
        if len(seen) > 30:
            continue
        jj = None
        minimised = False
        if len(seen) <= 10:
            rcase = minimise(ctx, case, want_prop)
            jj = one(ctx, rcase)
            minimised = True
        if jj is None or not (jj['bad_prop'] if want_prop else jj['bad_model']):
            rcase, jj, minimised = case, dict(j, obs=obs, rs=rs), False
        robs, rrs = jj['obs'], jj['rs']
        rgot, rspec, rmodel = jj['got'], jj['exp_spec'], jj['exp_model']
        # the restraint whose expectation differs first gives the keyword mode of the signature
        ri, pos = 0, 0
        for i, l in enumerate(jj['spec_lists']):
            if l:
                if pos >= len(rgot) or rgot[pos] != l:
                    ri = i
                    break
                pos += 1
        kmode, _ = classify_case(*split_restraint(rcase['restraints'][ri]), rrs[ri]['spec'])
        flat_got = {p for l in rgot for p in l}
        flat_spec = {p for l in rspec for p in l}
        flat_model = {p for l in rmodel for p in l}
        rtoks = [t for line in rcase['restraints'] for t in split_restraint(line)[1]]
        rops = rcase.get('ops') or []
        payload = dict(case=rcase, stream='history' if rops else 'missing', text=render(rcase), expected=rspec, actual=rgot,
                       messages=robs['raw'], model=rmodel)
        where = f' (residues {[(b[0], b[1]) for b in rcase["blocks"] if b[1]]})' + (f' after the history {rops}' if rops else '') + \
                (f' [read={rcase["read"]}]' if rcase.get('read', 'string') != 'string' else '')
        # site of a history divergence: the last edit before the final evaluation
        redits = [op[0] for op in rops if op[0] not in ('check', 'touch')]
        hsig = ''
        if rops:
            hsig = 'history|' + (redits[-1] if redits else 'evaluate') + '|'
        if minimised and rcase.get('read', 'string') != 'string':
            hsig += f'read={rcase["read"]}|'        # the read form is part of the site only if the plain form does not diverge
        if rcase.get('layout'):
            if minimised:
                hsig += 'layout|'                       # wrapped / commented: the plain logical line does not diverge
            where += f'; written as {rcase["layout"]}'
        if rcase.get('remarks'):
            if minimised:
                hsig += 'line-comments|'
            where += f'; RESI and atom lines carry the comments {rcase["remarks"]}'
        if minimised and rcase.get('prior'):
            hsig += 'after-' + '+'.join('read_' + p.get('read', 'string') for p in rcase['prior']) + '|'
            where += f'; the object had read before: {[(p["restraints"], [(b[0], b[1]) for b in p["blocks"] if b[1]]) for p in rcase["prior"]]}'
        if want_prop:
            if flat_got - flat_spec:
                direction, diff = 'false-warning', flat_got - flat_spec
                what = f'{rcase["restraints"]}: reports {sorted(diff)}, which exist or are not addressed'
            elif flat_spec - flat_got:
                direction, diff = 'missed-warning', flat_spec - flat_got
                what = f'{rcase["restraints"]}: does not report {sorted(diff)}, which exist in no addressed residue'
            elif jj.get('stale'):
                direction, diff = 'stale-name-index', set()
                what = (f'get_atom_by_name answers for {jj["stale"]} as before the edit (atom list now '
                        f'{robs["atoms_after"]})')
            elif rgot != rspec:
                direction, diff = 'grouping', flat_spec
                what = f'{rcase["restraints"]}: reported {rgot}, expected per restraint {rspec}'
            else:
                direction, diff = 'message-without-missing', set()
                what = f'{rcase["restraints"]}: every addressed atom exists, yet messages {robs["raw"]}'
            sig = signature(kmode, rtoks, diff, direction, 'missing')
            if hsig:
                sig = f'C17|{hsig}{direction}'
            ctx.fail(sig, what + where, payload)
        else:
            payload['stream'] = 'model'
            sig = signature(kmode, rtoks, flat_got ^ flat_model, 'differs', 'model')
            if hsig:
                sig = f'C17|model|{hsig}differs'
            ctx.fail(sig, f'{rcase["restraints"]}: implementation reports {rgot} (messages: {robs["nmsg"]}), model {rmodel}' + where,
                     payload, kind='correspondence')


# ------------------------------------------------------------------------------------------------
# generation

def addressed_by_construction(kwmode, tokmode, resnums, classes_of):
    """residues a token addresses — written from the statement, on the structured description"""
    kind, val = tokmode
    if kind in ('$E', 'range', 'sym'):
        return None
    if kind == 'num':
        return [val]
    if kind == 'star':
        return list(resnums)
    k, v = kwmode
    if k == 'none':
        return [0]
    if k == 'num':
        return [v]
    if k == 'star':
        return list(resnums)
    return [n for n in resnums if classes_of[n].upper() == v.upper() and classes_of[n]]


def build_case(rng, kwname, kwmode, tokmodes, resis, fill, absent, casing, params, eqiv=True, where='head', form='class-first',
               strict=False, pool=None):
    """
    resis: [(class, number)] in file order; kwmode: (none|num|star|class, value); tokmodes: [(bare|num|star|$E|range|sym, value)],
    ('same', (kind, value)) = the name of the token before once more;
    fill: 'full' (every name in every residue) | 'minimal' (only what is addressed) ; absent: None, an index into the
    list of addressed pairs, ('k', n) = n of them, or 'all'; casing: dict(names=..., cls_resi=..., cls_kw=..., kw=...);
    pool: the atom names in use (one of NAME_POOLS)
    """
    resnums = [n for _, n in resis]
    classes_of = {n: c for c, n in resis}
    pool = list(pool or NAMES)
    names = list(pool)
    toks = []
    addressed = []           # (NAME, n) in token order
    ni = 0
    for kind, val in tokmodes:
        again = kind == 'same'
        if again:
            kind, val = val
        if kind == 'range':
            toks.append(val)
            continue
        if kind == '$E':
            toks.append('$' + val)
            continue
        if kind == 'name':
            # a fixed name that Python's float() would take for a number (NAN, INF): an atom name all the same
            nm, kind, val = val.upper(), 'bare', None
            w = swapcase(nm, casing.get('names_restr'))
            names = names + [nm] if nm not in names else names
        else:
            if again and ni:
                ni -= 1
            nm = names[ni % len(pool)]
            ni += 1
            w = swapcase(nm, casing.get('names_restr'))
            if again and casing.get('names_restr') is None and nm.lower() != nm and rng.random() < 0.5:
                w = nm.lower()                       # c1 and C1 are the same atom
        if kind == 'sym':
            toks.append(f'{w}_${val}')
            continue
        if kind == 'num':
            toks.append(f'{w}_{val}')
        elif kind == 'star':
            toks.append(f'{w}_*')
        else:
            toks.append(w)
        for n in addressed_by_construction(kwmode, (kind, val), resnums, classes_of):
            addressed.append((nm, n))
    k, v = kwmode
    kwn = swapcase(kwname, casing.get('kw'))
    kw = kwn if k == 'none' else f'{kwn}_{v}' if k == 'num' else f'{kwn}_*' if k == 'star' else f'{kwn}_{swapcase(v, casing.get("cls_kw"))}'
    uniq = []
    for p in addressed:
        if p not in uniq:
            uniq.append(p)
    gone = []
    if isinstance(absent, int) and strict and absent >= len(uniq):
        return None
    if absent == 'all':
        gone = list(uniq)
    elif isinstance(absent, (tuple, list)):
        gone = rng.sample(uniq, min(absent[1], len(uniq)))
    elif absent is not None and uniq:
        gone = [uniq[absent % len(uniq)]]
    present = set()
    all_res = [0] + resnums
    if fill == 'full':
        for n in all_res:
            for nm in names[:3]:
                present.add((nm, n))
    for p in uniq:
        if p[1] in all_res:
            present.add(p)
    for p in gone:
        present.discard(p)
    expect = sorted({p for p in uniq if p not in present})
    blocks = []
    order = [('', 0)] + list(resis)
    seen = set()
    for ci, (cls, n) in enumerate(order):
        nm_here = [swapcase(nm, casing.get('names_atoms')) for nm in names if (nm, n) in present and (nm, n) not in seen]
        for nm in names:
            seen.add((nm, n))
        blocks.append([swapcase(cls, casing.get('cls_resi')), n, nm_here, 'implicit' if n == 0 else form])
    if params and rng.random() < 0.6:
        params = respell(rng, params)
    line = ' '.join(x for x in [kw, params] + toks if x)
    c = dict(blocks=blocks, restraints=[line], eqiv=eqiv, where=where, expect=[[list(p) for p in expect]])
    if pool != NAMES:
        c['names'] = pool
    return c


def residue_layouts(rng, thorough):
    """structures with 0..5 residues of 1..3 classes (a class may be the empty one)"""
    out = [[]]
    for nres in range(1, 6):
        for ncls in range(1, 4):
            if ncls > nres:
                continue
            variants = 8 if thorough else 1
            for v in range(variants):
                nums = rng.sample(NUMBERS, nres)
                cls = rng.sample(CLASSES + [''], ncls)
                assign = [cls[i % ncls] for i in range(nres)]
                if v:
                    rng.shuffle(assign)
                out.append([(assign[i], nums[i]) for i in range(nres)])
    return out


_LAYOUT_SHAPES = [(0, 0)] + [(nres, ncls) for nres in range(1, 6) for ncls in range(1, 4) if ncls <= nres]


def random_layout(rng):
    """one of the structures of residue_layouts (0..5 residues of 1..3 classes), drawn directly"""
    nres, ncls = rng.choice(_LAYOUT_SHAPES)
    if not nres:
        return []
    nums = rng.sample(NUMBERS, nres)
    cls = rng.sample(CLASSES + [''], ncls)
    assign = [cls[i % ncls] for i in range(nres)]
    if rng.random() < 0.5:
        rng.shuffle(assign)
    return [(assign[i], nums[i]) for i in range(nres)]


def kw_modes(resis, rng):
    nums = [n for _, n in resis]
    classes = sorted({c for c, _ in resis if c})
    modes = [('none', None), ('star', None), ('num', 0)]
    if nums:
        modes.append(('num', rng.choice(nums)))
    modes.append(('num', rng.choice([n for n in NUMBERS + [9] if n not in nums])))      # residue that does not exist
    for c in classes:
        modes.append(('class', c))
    modes.append(('class', rng.choice([c for c in CLASSES + ['XYL'] if c not in classes])))   # class without residues
    return modes


TOKEN_PATTERNS = [
    [('bare', None), ('bare', None)],
    [('bare', None), ('num', 'R'), ('bare', None)],
    [('num', 0), ('bare', None)],
    [('star', None), ('bare', None)],
    [('bare', None), ('range', '>'), ('bare', None)],
    [('bare', None), ('range', '<'), ('bare', None)],
    [('$E', 'C'), ('bare', None)],
    [('$E', 'N_*'), ('$E', 'C_R'), ('bare', None)],
    [('bare', None), ('sym', 1)],
    [('sym', 2), ('num', 'R'), ('sym', 1)],
    [('num', 'X'), ('star', None)],
    [('name', 'NAN'), ('bare', None)],
    [('bare', None), ('name', 'inf'), ('num', 'R'), ('name', 'Nan')],
    [('bare', None), ('bare', None), ('num', 'R'), ('star', None), ('range', '>'), ('$E', 'O'), ('sym', 1)],
    # the same name more than once, addressed in the same or in different ways
    [('bare', None), ('same', ('bare', None)), ('bare', None)],
    [('num', 'R'), ('same', ('star', None)), ('same', ('bare', None)), ('same', ('num', 'X'))],
    # as many names as the pool has: several of them can be absent at once
    [('bare', None)] * 5,
    [('bare', None), ('num', 'R'), ('bare', None), ('num', 'R'), ('bare', None), ('num', 0)],
    [('star', None), ('star', None), ('bare', None), ('star', None)],
]


def instantiate(pattern, resis, rng):
    nums = [n for _, n in resis]
    out = []
    for kind, val in pattern:
        if kind == 'same':
            out.append(('same', instantiate([val], resis, rng)[0]))
            continue
        if val == 'R':
            val = rng.choice(nums) if nums else rng.choice(NUMBERS)
        elif val == 'X':
            val = rng.choice([n for n in NUMBERS + [9] if n not in nums])
        if kind == '$E' and isinstance(val, str) and val.endswith('_R'):
            val = val[:-1] + str(rng.choice(nums) if nums else 1)
        out.append((kind, val))
    return out


CASINGS = [dict(), dict(names_restr='lower'), dict(names_atoms='lower'), dict(cls_resi='lower'), dict(cls_kw='lower'),
           dict(kw='lower', names_restr='lower', cls_kw='lower'), dict(cls_resi='lower', cls_kw='lower', names_atoms='lower')]


def grid(rng, thorough):
    """the bounded-exhaustive part: layouts x keyword modes x token patterns x (all present | each single one absent)"""
    KEYWORDS, _ = restraint_keywords()
    kws = list(KEYWORDS)
    i = 0
    for resis in residue_layouts(rng, thorough):
        for kwmode in kw_modes(resis, rng):
            for pattern in TOKEN_PATTERNS:
                tokmodes = instantiate(pattern, resis, rng)
                for fill in ('full', 'minimal'):
                    absents = [None] + (list(range(12)) + [('k', 2), ('k', 3), 'all'] if thorough else
                                        [rng.randrange(8), rng.choice([('k', 2), ('k', 3), 'all'])])
                    for absent in absents:
                        i += 1
                        kwname = kws[i % len(kws)]
                        params = KEYWORDS[kwname][(i // len(kws)) % len(KEYWORDS[kwname])]
                        casing = CASINGS[(i // 3) % len(CASINGS)] if (i % 3 == 0) else {}
                        c = build_case(rng, kwname, kwmode, tokmodes, resis, fill, absent, casing, params,
                                       eqiv=True, where='tail' if i % 5 == 0 else 'head',
                                       form=['class-first', 'num-first', 'alias'][(i // 7) % 3], strict=thorough,
                                       pool=NAME_POOLS[(i // 2) % len(NAME_POOLS)] if i % 2 else None)
                        if c is not None:
                            yield c


def keyword_cross(rng, thorough):
    """every restraint keyword (each parameter form) x every keyword suffix x every token pattern, on a few layouts"""
    KEYWORDS, _ = restraint_keywords()
    layouts = [l for l in residue_layouts(rng, False) if len(l) in (0, 3, 5)]
    layouts = layouts[:1] + rng.sample(layouts[1:], 3 if thorough else 1)
    for resis in layouts:
        for kwname, forms in KEYWORDS.items():
            for params in forms:
                for kwmode in kw_modes(resis, rng):
                    for pi, pattern in enumerate(TOKEN_PATTERNS):
                        tokmodes = instantiate(pattern, resis, rng)
                        for absent in (None, rng.randrange(8)):
                            yield build_case(rng, kwname, kwmode, tokmodes, resis, 'full' if (pi + len(kwname)) % 2 else 'minimal', absent,
                                             CASINGS[(pi + len(params)) % len(CASINGS)], params)


def layout_grid(rng, thorough):
    """the systematic part for the physical layout: a restraint of six atoms (bare, NAME_n) on a structure with two
    residues x where it is wrapped (behind the keyword, in the middle, before the last atom; two, three, four lines)
    x what stands behind the '=' (nothing, blanks, each kind of comment) and behind the last line x which atom is
    absent (each single token in turn — on the first, a middle and the last physical line — or none)"""
    KEYWORDS, _ = restraint_keywords()
    kws = list(KEYWORDS)
    resis = [('CCF3', 1), ('TOL', 2)]
    tokmodes = [('bare', None), ('num', 1), ('bare', None), ('num', 2), ('bare', None), ('bare', None)]
    shapes = [[1, 9], [3, 9], [6, 9], [2, 2, 9], [1, 1, 9], [3, 2, 9], [2, 1, 2, 9]]
    i = 0
    for shape in shapes:
        for comment in COMMENTS:
            for kwmode in [('none', None), ('class', 'CCF3'), ('num', 2), ('star', None)][:4 if thorough else 2]:
                for absent in ([None] + list(range(8)) if thorough else [None, rng.randrange(8), rng.randrange(8)]):
                    i += 1
                    kwname = kws[i % len(kws)]
                    c = build_case(rng, kwname, kwmode if thorough else rng.choice([('none', None), ('class', 'CCF3'), ('num', 2), ('star', None)]),
                                   tokmodes, resis, 'full', absent, CASINGS[i % len(CASINGS)] if i % 4 == 0 else {},
                                   KEYWORDS[kwname][0], where='tail' if i % 3 == 0 else 'head', pool=NAME_POOLS[i % 3])
                    # the parameter tokens shift the cut points: the shape counts tokens of the whole line
                    c['layout'] = [lay_out(rng, c['restraints'][0], shape=shape, comment=comment,
                                           last_comment=COMMENTS[(i // 2) % len(COMMENTS)] if i % 2 else '')]
                    if i % 3 == 1:
                        c['remarks'] = [comment, COMMENTS[(i // 3) % len(COMMENTS)], '']
                    c.pop('expect', None)
                    yield c


def confusable_grid(rng, thorough):
    """the systematic part for names that are easy to confuse: every pool x how the restraint addresses (default, _n,
    _CLASS, _*, NAME_n, NAME_*) x all five names of the pool in one restraint x which of them are absent (none, each
    single one, each pair, all)"""
    KEYWORDS, _ = restraint_keywords()
    kws = list(KEYWORDS)
    resis = [('CCF3', 1), ('', 4), ('CCF3', 11)]
    i = 0
    for pool in NAME_POOLS:
        for kwmode, tokkind in [(('none', None), ('bare', None)), (('num', 4), ('bare', None)), (('class', 'CCF3'), ('bare', None)),
                                (('star', None), ('bare', None)), (('none', None), ('num', 11)), (('num', 1), ('star', None))]:
            tokmodes = [tokkind] * 5
            subsets = [None, 'all'] + [('pick', [a]) for a in range(5)] + [('pick', [a, b]) for a in range(5) for b in range(a + 1, 5)]
            if not thorough:
                subsets = [None, 'all'] + rng.sample(subsets[2:7], 1) + rng.sample(subsets[7:], 3)
            for sub in subsets:
                i += 1
                kwname = kws[i % len(kws)]
                c = build_case(rng, kwname, kwmode, tokmodes, resis, 'full' if i % 2 else 'minimal', None, CASINGS[i % len(CASINGS)] if i % 3 == 0 else {},
                               KEYWORDS[kwname][0], pool=pool)
                if sub is not None:
                    # leave the chosen names out of every residue the restraint addresses
                    gone = {pool[k].upper() for k in (range(5) if sub == 'all' else sub[1])}
                    for blk in c['blocks']:
                        blk[2] = [nm for nm in blk[2] if nm.upper() not in gone]
                c.pop('expect', None)
                yield c


def random_case(rng):
    KEYWORDS, _ = restraint_keywords()
    resis = random_layout(rng)
    if resis and rng.random() < 0.25:
        # a residue continued in a second block further down (registered twice under the same number)
        resis.append(rng.choice(resis))
    n = rng.choice([1, 1, 2, 3])
    cases = []
    for _ in range(n):
        kwname = rng.choice(list(KEYWORDS))
        kwmode = rng.choice(kw_modes(resis, rng))
        tokmodes = instantiate(rng.choice(TOKEN_PATTERNS), resis, rng)
        rng.shuffle(tokmodes)
        cases.append((kwname, kwmode, tokmodes))
    # several restraints share one structure: build each, then merge the atoms that have to be present
    casing = rng.choice(CASINGS)
    fill = rng.choice(['full', 'minimal'])
    pool = rng.choice(NAME_POOLS[:1] * 3 + NAME_POOLS)
    built = [build_case(rng, k, m, t, resis, fill, rng.choice([None, rng.randrange(8), rng.randrange(8), ('k', 2), ('k', 3), 'all']),
                        casing, rng.choice(KEYWORDS[k]), form=rng.choice(['class-first', 'num-first', 'alias']), pool=pool)
             for k, m, t in cases]
    # the physical layout of each restraint: as it is, or wrapped / commented
    layout = [lay_out(rng, b['restraints'][0]) if rng.random() < 0.3 else None for b in built]
    if n == 1:
        if layout[0]:
            built[0]['layout'] = layout
        if rng.random() < 0.15:
            built[0]['remarks'] = rng.sample(COMMENTS[1:], 3) + ['']
        return built[0]
    # merged structure: an atom is present iff it is present in every single-restraint file (so what one restraint
    # misses stays missing); the expectation is left to the spec
    keep = None
    for b in built:
        s = {(nm.upper(), blk[1]) for blk in b['blocks'] for nm in blk[2]}
        keep = s if keep is None else keep & s
    first = built[0]
    blocks = [[blk[0], blk[1], [nm for nm in blk[2] if (nm.upper(), blk[1]) in keep], blk[3]] for blk in first['blocks']]
    c = dict(blocks=blocks, restraints=[b['restraints'][0] for b in built], eqiv=True, where=rng.choice(['head', 'tail']), expect=None)
    if any(layout):
        c['layout'] = layout
    if pool != NAMES:
        c['names'] = pool
    if rng.random() < 0.15:
        c['remarks'] = rng.sample(COMMENTS[1:], 3) + ['']
    return c


def history_case(rng):
    """a parsed file, then 1..6 steps: evaluations / look-ups (they build the cached name index) and edits of the atom list
    through every form the library offers (del atoms[id], Atom.delete(), Atom.name = ..., add_atom) and, rarely, the plain
    assignment atom.resi = RESI(...); the diagnostics are evaluated again at the end"""
    for _ in range(50):
        case = random_case(rng)
        cur = [[n, b[1], True] for b in case['blocks'] for n in b[2]]      # name, residue, parsed from the file
        if len(cur) >= 2:
            break
    resnums = sorted({b[1] for b in case['blocks']})
    NAMES = case.get('names') or globals()['NAMES']
    ops = []
    edits = 0
    n = rng.randint(1, 6)
    while len(ops) < n or not edits:
        kind = rng.choices(['check', 'touch', 'delItem', 'delete', 'rename', 'add', 'setResi'], [2, 1, 3, 3, 3, 2, 0.3])[0]
        if kind in ('delItem', 'delete', 'rename', 'setResi') and not cur:
            kind = 'add'
        if kind == 'check':
            ops.append(['check'])
        elif kind == 'touch':
            ops.append(['touch', rng.choice(NAMES) + rng.choice(['', '_0', f'_{rng.choice(resnums)}'])])
        elif kind in ('delItem', 'delete'):
            # atoms made by add_atom are not lines of the file; deleting those is not part of this property
            cand = [i for i, c in enumerate(cur) if c[2]]
            if not cand:
                continue
            i = rng.choice(cand)
            del cur[i]
            ops.append([kind, i])
            edits += 1
        elif kind == 'rename':
            i = rng.randrange(len(cur))
            nm = rng.choice(NAMES + ['C9', 'N8', NAMES[0].lower(), NAMES[1].lower()])
            if rng.random() < 0.05:
                nm = nm + '_2'                      # refused by the setter ("Illegal atom name"): nothing changes
            else:
                cur[i][0] = nm
            ops.append(['rename', i, nm])
            edits += 1
        elif kind == 'add':
            nm = rng.choice(NAMES + [NAMES[0].lower(), NAMES[2].lower()])
            cur.append([nm, 0, False])
            ops.append(['add', nm])
            edits += 1
        else:
            i = rng.randrange(len(cur))
            nn = rng.choice(resnums)
            cur[i][1] = nn
            ops.append(['setResi', i, nn])
            edits += 1
    case = dict(case, ops=ops, read=rng.choice(['string'] * 8 + ['file', 'twice']))
    case.pop('expect', None)
    return case


def read_history_case(rng):
    """one Shelxfile object reads 1..2 other structures first (other residues, classes, atoms, restraints; read_string or
    read_file), then the structure of the case through read_string, read_file or reload (file changed on disk); the
    diagnostics of the last read are compared with the spec of the last structure"""
    case = random_case(rng)
    prior = []
    for _ in range(rng.choice([1, 1, 2])):
        p = random_case(rng)
        p.pop('expect', None)
        p['read'] = rng.choice(['string', 'file'])
        prior.append(p)
    case['prior'] = prior
    case['read'] = rng.choice(['string', 'file', 'reload'])
    return case


# the inputs of the Lean witnesses (legacy_stale_index_misses_moved_atom, opsA), run on the implementation in every run
_BLOCKS_A = [['', 0, ['C1', 'c2'], 'implicit'], ['ccf3', 1, ['C1', 'c2'], 'class-first'], ['ccf3', 2, ['C1'], 'class-first'],
             ['', 7, ['C1', 'C3'], 'class-first']]
CORPUS = [
    dict(blocks=_BLOCKS_A, restraints=['SADI_1 C1 C2'], eqiv=False, where='head', ops=[['setResi', 2, 0]]),
    dict(blocks=_BLOCKS_A, restraints=['SADI_7 C2 C3'], eqiv=False, where='head', ops=[['setResi', 1, 7]]),
    dict(blocks=_BLOCKS_A, restraints=['SADI_1 C1 C2'], eqiv=False, where='head',
         ops=[['delItem', 3], ['rename', 0, 'C9'], ['add', 'C1'], ['check']]),
]


def run(ctx):
    ctx.rule = ('generated files: residue 0 plus 0..5 RESI blocks of 1..3 classes (one may be the empty class), atoms C1 N2 O3A C14B N5; '
                '1..3 restraints of 13 keywords x keyword suffix (none, _0, _n existing, _n not existing, _CLASS known/unknown, _*) x '
                'token patterns (bare, _n, _0, _*, $E, <, >, _$n, the same name repeated); every addressed atom present, or one, two, three or all of the addressed (NAME, residue) pairs absent; '
                'names from one of 8 pools of five (pairwise different; or differing in one character only: C1A C1B C1C C1\' C1", C1 C10 C11, C1 N1 O1, C9 C09 C009 ...); '
                'restraints as one line or wrapped with = behind any token (2..4 physical lines) with ! comments behind the = and behind the last line '
                '(comments containing =, !, $, <, >, names of absent atoms, keywords), ! comments on RESI and atom lines; case variants of '
                'names, classes and keywords; numerical parameters in every spelling of the free format (sign, .5, 2., zero padding, e/E exponents); atom names NAN / INF; read through read_string / read_file / reload, also on an object that has read 1..2 other structures before; histories of 1..6 '
                'steps (evaluate, look-up, del atoms[id], Atom.delete, rename, add_atom, atom.resi = ...) followed by a new evaluation; '
                'distinct by (blocks, restraint lines, physical layout, comments, history, read form); non-trivial = some token addresses residues other '
                'than [0] or an atom is missing, and for histories at least one edit')
    ctx.assumptions = ['keyword carries at most one "_"; residue numbers on atoms are written without leading zeros (wfTok); '
                       'atom names carry no "_" (wfFile); ASCII', 'all residues = the residues defined by RESI cards (number > 0); '
                       'residue 0 is addressed only by default or by _0 (this is what tests/test_restraints.py fixes for NAME_*)',
                       'a RESI card without class is registered by the code under the class name RESI; no generated restraint uses that class',
                       'histories: the residue registry is not edited; restraints stay as parsed',
                       'layout: blanks and tabs between tokens, continuation lines start with a blank, '
                       'no text other than a ! comment behind the = (C05.norm is the specification; the harness asserts it on every generated layout)']
    thorough = ctx.tier == 'thorough'
    level = 2 if thorough else 1 if ctx.escalated else 0        # escalated: the anchored sources differ from model_map.json
    _, in_source = restraint_keywords()
    ctx.extra['restraint_keywords_in_source'] = in_source
    if set(in_source) - set(KEYWORDS):
        ctx.note(f'restraint keywords in the source that the table of this check does not know: {sorted(set(in_source) - set(KEYWORDS))}')
    if set(KEYWORDS) - set(in_source):
        ctx.broken.append(f'extract: keywords no longer appended to shx.restraints by _parse_cards: {sorted(set(KEYWORDS) - set(in_source))}')
    cases = [dict(c) for c in CORPUS]
    g = list(grid(ctx.rng, thorough))
    if not thorough:
        ctx.rng.shuffle(g)
        g = g[:[1200, 6000][level]]
    else:
        ctx.exhaustive = True
        ctx.extra['grid'] = f'{len(g)} files: layouts x keyword modes x {len(TOKEN_PATTERNS)} token patterns x fill x (present | each single absence, up to 12 | two | three | all absent), names from 8 pools'
    cases += g
    kc = list(keyword_cross(ctx.rng, thorough))
    if not thorough:
        ctx.rng.shuffle(kc)
        kc = kc[:[500, 2000][level]]
    else:
        ctx.extra['keyword_cross'] = f'{len(kc)} files: 13 keywords x parameter forms x keyword suffixes x {len(TOKEN_PATTERNS)} token patterns on 4 layouts'
    cases += kc
    lg = list(layout_grid(ctx.rng, thorough))
    cg = list(confusable_grid(ctx.rng, thorough))
    ctx.extra['layout_grid'] = f'{len(lg)} files: 7 wrap shapes x {len(COMMENTS)} texts behind the "=" x keyword suffixes x absent token'
    ctx.extra['confusable_grid'] = f'{len(cg)} files: {len(NAME_POOLS)} name pools x 6 addressing forms x absent subsets (none, one, pairs, all)'
    cases += lg + cg
    for i in range([600, 5000, 60000][level]):
        c = random_case(ctx.rng)
        if i % 10 == 0:
            c['read'] = 'file' if i % 20 else 'twice'
        cases.append(c)
    for _ in range([1500, 8000, 40000][level]):
        cases.append(history_case(ctx.rng))
    for _ in range([600, 3000, 20000][level]):
        cases.append(read_history_case(ctx.rng))
    for i in range(0, len(cases), 2000):
        evaluate(ctx, cases[i:i + 2000])

"""
C19 — a refinement run never loses the user's model, whatever SHELXL does.

The real `Shelxfile.refine()` is driven against a scripted stand-in for the `shelxl` executable (a shell script that
carries the 'Version 201x/y' marker the finder looks for, placed first on PATH for the duration of a case). A side
channel file tells the stand-in which outcome to play: exit status; <name>.res written from the .ins / emptied /
removed / left alone / filled with garbage / truncated / laid out as SHELXL lays a result out (its own lines after TITL,
REM lines, Q-peaks after END); the process exits with a code or dies by a signal; <name>.lst well-formed (ASCII, 8-bit
code page, CRLF) / missing / a directory / malformed in seven ways (bytes included); what the program PRINTS (banner, a
whole run's output, nothing, 8-bit bytes, binary, a malformed R1 line, 'CANNOT OPEN FILE hkl'). The stand-in uses shell
builtins only (one process per run). Everything happens in a tempfile.mkdtemp() directory outside the worktrees (on
/dev/shm when there is one), removed afterwards; printing is suppressed.

The FILE the user starts from varies in what `write_shelx_file()` does not write back line by line (blank lines,
continuation lines, a second SFAC/FVAR line, SHELXL's own header lines, REM lines, Q-peaks): the list in memory before
the run and the list after the reload then differ in length above and below UNIT.

The BYTES of that file vary too (`file_bytes`: CR LF, lone CR, both, no final line end, UTF-8 outside ASCII, blanks at
line ends; the stand-in can write its result with CR LF), and so do the NAME of the job (dots, a blank, capitals, a
non-ASCII letter) and the way the path is given to `read_file()` (relative, absolute, './', a pathlib.Path): files are
compared by content hash under the case's own name.

Streams (DESIGN 3.2):
  protocol   implementation vs model (`refine Fix.all` in ShelxModel/C19.lean): .res/.shx-bak by content, the .ins parsed
             back, shxsaves/, in-memory ACTA position / cycles / rest of the model, raised or returned
  property   implementation vs `specStep` (clauses ins / res / bak / mem), evaluated by the driver on the OBSERVED states
Observables: content identity (sha) of <name>.res, .ins, .shx-bak, shxsaves/* before and after each call and at the
moment SHELXL runs; the .ins parsed (ACTA absent, cycle number, everything else); `shx.acta` and its index relative to
UNIT; the in-memory line list by keyword (`lay`: the lines of the new result, ACTA directly after UNIT); whether
`refine()` raised (the class is not compared: the property does not say how failure is signalled).
"""
import contextlib
import hashlib
import io
import itertools
import os
import shutil
import tempfile

from .. import gen

NAME = 'c19job'

STANDIN = r'''#!/bin/sh
# scripted stand-in for SHELXL (verification harness C19) -- Version 2019/3
# shell builtins only (one process per run); payloads arrive as printf formats in ./c19_outcome
n="$2"
[ -z "$n" ] && n="$1"
. ./c19_outcome
cpf() {   # byte-exact copy of a file without NUL bytes
  while IFS= read -r l; do printf '%s\n' "$l"; done < "$1" > "$2"
  printf '%s' "$l" >> "$2"
}
[ -f "$n.ins" ] && cpf "$n.ins" "c19_log/ins_$RUN"
[ -f "$n.shx-bak" ] && cpf "$n.shx-bak" "c19_log/bak_$RUN"
: > "c19_log/ran_$RUN"
printf "$CON"
atom="C9$RUN   1   0.5${RUN}0000   0.500000   0.250000   11.00000    0.04000"
case "$RES" in
  good)
    while IFS= read -r l; do
      case "$l" in HKLF*) printf '%s\n' "$atom" ;; esac
      printf '%s\n' "$l"
    done < "$n.ins" > "$n.res" ;;
  crlf)     # the same, written by a Windows build: every line ends in CR LF
    while IFS= read -r l; do
      case "$l" in HKLF*) printf '%s\r\n' "$atom" ;; esac
      printf '%s\r\n' "$l"
    done < "$n.ins" > "$n.res" ;;
  relaid)   # the way SHELXL lays a result out: its own two lines after TITL, REM lines, suggestions and peaks after END
    while IFS= read -r l; do
      case "$l" in
        HKLF*) printf '%s\n' "$atom" ;;
        END*) printf '\nREM  %s in P1\nREM wR2 = 0.1000, GooF = S = 1.081, Restrained GooF = 1.081 for all data\n\n' "$n" ;;
      esac
      printf '%s\n' "$l"
      case "$l" in
        TITL*) printf '    %s.res\n    created by SHELXL-2019/3 at 12:00:0%s on 01-Jan-2020\n' "$n" "$RUN" ;;
        END*) printf '\nWGHT      0.0500      0.1000\n\nREM Highest difference peak  0.5,  deepest hole -0.4,  1-sigma level  0.08\nQ1    1   0.1000  0.2000  0.3000  11.00000  0.05    0.50\n' ;;
      esac
    done < "$n.ins" > "$n.res" ;;
  empty) : > "$n.res" ;;
  missing) rm -f "$n.res" ;;
  garbage) printf 'TITL\n** crashed while writing **\n\n' > "$n.res" ;;
  truncated)   # stops in the middle of the seventh line
    i=0
    while IFS= read -r l; do
      i=$((i+1))
      if [ $i -ge 7 ]; then printf '%s' "${l%???}"; break; fi
      printf '%s\n' "$l"
    done < "$n.ins" > "$n.res" ;;
  untouched) ;;
esac
[ "$RES" != untouched ] && [ -f "$n.res" ] && cpf "$n.res" "c19_log/res_$RUN"
case "$LST" in
  -) ;;
  DIR) mkdir "$n.lst" ;;
  *) printf "$LST" > "$n.lst" ;;
esac
if [ "$EXIT" -lt 0 ]; then
  kill "$EXIT" $$          # death by signal: subprocess reports the negative signal number
  sleep 5
fi
exit $EXIT
'''

LST_GOOD = ''' LATT  -1
 Final Structure Factor Calculation for  x  in P-1

 Total number of l.s. parameters =    91

 wR2 =  0.1000 before cycle   5 for    2000 data and    100 /    100 parameters

 GooF = S =     1.081;     Restrained GooF =      1.081 for       0 restraints

 R1 =  0.0400 for    1800 Fo > 4sig(Fo)  and  0.0500 for all    2000 data
'''

#: <name>.lst as bytes (None: no file; 'DIR': a directory of that name)
LST_BYTES = dict(
    good=LST_GOOD.encode(),
    missing=None,
    short=b' Final Structure Factor Calculation for  x  in P-1\n\n',
    empty=b'',
    nofinal=b' one\n two\n three\n four\n five\n six\n',
    nolatt=LST_GOOD.replace(' LATT  -1\n', '').encode() + b'\n',
    # SHELXL writes the Angstrom and degree signs and copies TITL in the local 8-bit code page
    latin1=(' TITL Verbindung f\xfcr M\xfcller in P-1\n Wavelength 0.71073 \xc5, beta = 94.13\xb0\n' + LST_GOOD).encode('latin1'),
    binary=bytes(range(256)) * 2 + b'\n Final Structure Factor Calculation \xff\xfe\n',
    crlf=LST_GOOD.replace('\n', '\r\n').encode(),
    zeroparam=LST_GOOD.replace('100 /    100 parameters', '100 /      0 parameters').encode(),      # division by zero
    lowratio=LST_GOOD.replace('2000 data and', ' 300 data and').replace(' LATT  -1', ' LATT  1').encode(),  # prints the warning
    dir='DIR')
#: .lst variants by what `check_refinement_results` does with them on the tree as found (only the legacy model looks)
LST_CLASS = dict(good='good', missing='missing', short='raises', empty='raises', nolatt='raises', nofinal='quiet',
                 latin1='good', binary='raises', crlf='good', zeroparam='quiet', lowratio='good', dir='missing')
LST_MAIN = ['good', 'missing', 'short', 'latin1']
LST_MORE = [k for k in LST_BYTES if k not in LST_MAIN]

BANNER = b' +  Copyright(C) George M. Sheldrick 1993-2019     Version 2019/3  +\n'
#: what the program prints (stdout and stderr go through one pipe into `pretty_shx_output`)
CON_BYTES = dict(
    banner=BANNER,
    silent=b'',
    rich=(b' ++++++++++++++++++++++++++++++++++++++++++++++++++++++++++++++++++++\n' + BANNER +
          b' +  c19job             started at 12:00:00 on 01-Jan-2020           +\n\n  Read instructions and data\n'
          b' ** Cell contents from UNIT instruction and atom list do not agree **\n'
          b' ** Extinction (EXTI) or solvent water (SWAT) correction may be required **\n'
          b' ** CANNOT RESOLVE RIGU C1 > C9 **\n ** MERG code changed to 0 **\n ** Bond(s) to C1 ignored **\n'
          b' wR2 =  0.1000 before cycle   1 for    2000 data and    100 /    100 parameters\n'
          b' GooF = S =     1.081;     Restrained GooF =      1.081 for       0 restraints\n'
          b' R1 =  0.0400 for    1800 Fo > 4sig(Fo)  and  0.0500 for all    2000 data\n'
          b' +  c19job             finished at 12:00:01   Total elapsed time: 1.00 secs  +\n'),
    latin1=BANNER + b' ** Bond to C1 ignored: d = 1.54 \xc5, angle 109.5\xb0 **\n',          # 8-bit code page
    binary=BANNER + bytes(range(1, 256)) + b'\n',
    shortr1=BANNER + b' R1 =\n',                                                              # a line cut short
    hkl=BANNER + b' ** CANNOT OPEN FILE c19job.hkl **\n')
#: by what the output filter does with it on the tree as found: nothing / raises an exception / sys.exit() ('no hkl')
CON_CLASS = dict(banner='plain', silent='plain', rich='plain', latin1='raises', binary='raises', shortr1='raises', hkl='nohkl')
CON_MORE = [k for k in CON_BYTES if k != 'banner']

#: how the program ends (`Popen.returncode`): 0, small and large exit codes, death by signal (negative: SEGV, KILL, ABRT, TERM)
EXIT_MAIN = [0, 1, -11]
EXIT_MORE = [3, 127, 255, -9, -6, -15]
RES_OK = ['good', 'relaid', 'empty', 'missing']               # with status 0 (a partly written file is not detectable)
RES_ALL = ['good', 'relaid', 'empty', 'missing', 'untouched', 'garbage', 'truncated']
#: one of each class of outcome: good, status, empty, missing, signal + partial result
CORE_OUT = [(0, 'good'), (0, 'relaid'), (1, 'good'), (0, 'empty'), (0, 'missing'), (-11, 'truncated')]


_FORMATS = {}


def printf_format(data):
    """bytes as a printf(1) format: every byte an octal escape"""
    if data not in _FORMATS:
        _FORMATS[data] = ''.join('\\%03o' % c for c in data)
    return _FORMATS[data]


def exitres(exits):
    return [(ex, res) for ex in exits for res in (RES_OK if ex == 0 else RES_ALL)]


EXITRES = exitres(EXIT_MAIN)
STALE = 'TITL an old backup of something else\nCELL 0.71073 5 5 5 90 90 90\nEND\n'


#: what the user's file contains that `write_shelx_file()` does not write back line by line. Each entry: a list of edits
#: (anchor keyword, 'before'/'after'/'replace', lines). In memory a blank line, a continuation line and a second
#: SFAC/FVAR line are list entries of their own; in the .ins (and in the result SHELXL derives from it) they are gone.
LAYOUTS = {
    'plain': [],
    'blank_zerr': [('ZERR', 'after', [''])],
    'blank_sfac': [('SFAC', 'after', [''])],
    'blank_unit': [('UNIT', 'after', [''])],
    'blank_many': [('TITL', 'after', ['']), ('LATT', 'before', ['', '']), ('UNIT', 'after', ['']), ('FVAR', 'before', ['']),
                   ('END', 'after', ['', ''])],
    'sfac_cont': [('SFAC', 'replace', ['SFAC C H =', ' O'])],
    'sfac_two': [('SFAC', 'replace', ['SFAC C H', 'SFAC O'])],
    'created': [('TITL', 'after', ['    c19job.res', '    created by SHELXL-2018/3 at 14:58:45 on 14-Dec-2018', 'REM a remark']),
                ('END', 'after', ['', 'WGHT      0.0490      0.0000', '',
                                  'REM Highest difference peak  0.4,  deepest hole -0.3,  1-sigma level  0.07',
                                  'Q1    1   0.1000  0.2000  0.3000  11.00000  0.05    0.40'])],
    'symm': [('LATT', 'replace', ['LATT 1', 'SYMM -X, 0.5+Y, 0.5-Z', 'SYMM -X, -Y, -Z'])],
    'cont_after': [('BOND', 'replace', ['CONF C1 C2 =', '   C3 C4', 'BOND'])],
    'mix': [('ZERR', 'after', ['']), ('SFAC', 'replace', ['SFAC C H =', ' O', '']), ('UNIT', 'after', ['', 'REM after unit']),
            ('BOND', 'replace', ['CONF C1 C2 =', '   C3 C4', '', 'BOND']), ('HKLF', 'before', [''])],
}
LAYOUT_NAMES = list(LAYOUTS)


def file_lines(f):
    fs = gen.FileSpec(fvars=[round(0.5 + 0.01 * i, 5) for i in range(f['nfv'])])
    ls = f.get('ls') or ['CGLS' if f['cgls'] else 'L.S.', 10]
    head = [' '.join(str(t) for t in ls), 'BOND', 'FMAP 2', 'PLAN 20', 'WGHT 0.1 0.2']
    acta = f.get('acta_text') or 'ACTA 50'
    if f['acta'] == 'after_unit':
        head.insert(0, acta)
    elif f['acta'] == 'later':
        head.insert(2, acta)
    elif f['acta'] == 'last':                      # the last instruction before FVAR
        head.append(acta)
    fs.header = head
    fs.body = [gen.AtomSpec(f'C{i}', 1, (0.1 * i, 0.2, 0.3), 11.0, (0.03,)) for i in range(1, 5)]
    lines = fs.lines()
    for anchor, how, add in LAYOUTS[f.get('lay') or 'plain']:
        i = next(k for k, ln in enumerate(lines) if ln.startswith(anchor))
        if how == 'after':
            lines[i + 1:i + 1] = add
        elif how == 'before':
            lines[i:i] = add
        else:
            lines[i:i + 1] = add
    return lines


def file_text(f):
    return '\n'.join(file_lines(f)) + '\n'


#: the BYTES of the user's file (what a text-mode round trip, a re-encoding or a line-wise rewrite would not preserve)
ENCODINGS = ['lf', 'crlf', 'cr', 'mixed', 'noeol', 'utf8', 'trail', 'win']
ENC_MORE = ENCODINGS[1:]


def file_bytes(f):
    """the file as bytes: line ends LF / CR LF (Windows builds of SHELXL, ShelXle) / lone CR / both in one file; no line
    end after the last line; characters outside ASCII (UTF-8: the only 8-bit form `read_file()` accepts here); blanks
    and a tab at line ends; 'win' = CR LF + UTF-8 + no final line end"""
    enc = f.get('enc') or 'lf'
    lines = file_lines(f)
    if enc in ('utf8', 'win'):
        lines = [ln + ' f\xfcr M\xfcller, \u03bb = 0.71073 \xc5' if ln.startswith('TITL') else ln for ln in lines]
        i = next(k for k, ln in enumerate(lines) if ln.startswith('FVAR'))
        lines.insert(i, 'REM \u03b2 = 94.13\xb0 \u2013 gemessen bei \u2212173 \xb0C')
    if enc == 'trail':
        lines = [ln + ['', '  ', '\t', ' \t '][k % 4] if ln.strip() and not ln.rstrip().endswith('=') else ln
                 for k, ln in enumerate(lines)]
    eol = dict(crlf='\r\n', cr='\r', win='\r\n').get(enc, '\n')
    if enc == 'mixed':
        text = ''.join(ln + ('\r\n' if k % 3 else '\n') for k, ln in enumerate(lines))
    else:
        text = eol.join(lines) + ('' if enc in ('noeol', 'win') else eol)
    return text.encode('utf-8')


#: the base name of the job: dots, a blank, dash/underscore, capitals, a leading digit, a character outside ASCII in it
NAMES_MORE = ['c19job.v2', 'c19.job_1.2.final', 'c19 job', 'C19-Job_a', '2c19job', 'c19j\xf6b']
#: how the file is given to read_file(): 'NAME.res' / an absolute path / './NAME.res' / a pathlib.Path
OPENS = ['str', 'abs', 'dot', 'path']


def name_of(case):
    return case.get('name') or NAME


def res_arg(case):
    name = name_of(case) + '.res'
    how = case.get('open') or 'str'
    if how == 'abs':
        return os.path.abspath(name)
    if how == 'dot':
        return os.path.join('.', name)
    if how == 'path':
        import pathlib
        return pathlib.Path(name)
    return name


def sha(b):
    return hashlib.sha1(b).hexdigest()[:12]


def read(path):
    try:
        with open(path, 'rb') as fh:
            return fh.read()
    except OSError:
        return None


#: parse results by content (the parser is a function of the text; a fresh object is used for every text)
_PARSED = {}


class Labels:
    """content identity: every distinct byte string gets a label; the table holds what the parser says about it"""

    def __init__(self):
        self.by_sha = {}
        self.table = {}
        self.texts = []      # ACTA texts -> small ids

    def acta_id(self, text):
        if text not in self.texts:
            self.texts.append(text)
        return self.texts.index(text)

    def label(self, data, hint='x'):
        if data is None:
            return None
        h = sha(data)
        if h not in self.by_sha:
            lab = f'{hint}{len(self.by_sha)}'
            self.by_sha[h] = lab
            doc, lay = self.parse2(data)
            self.table[lab] = dict(label=lab, size=len(data), doc=doc, dow=dow_of(data), lay=lay)
        return self.by_sha[h]

    def parse2(self, data):
        """(document, line list) of a file's content; ACTA texts numbered per case"""
        h = hashlib.sha1(data).digest()
        if h not in _PARSED:
            from shelxfile import Shelxfile
            shx = Shelxfile()
            with contextlib.redirect_stdout(io.StringIO()):
                try:
                    shx.read_string(data.decode('latin1'))
                except BaseException:
                    pass
            raw = Labels()
            _PARSED[h] = (doc_of(shx, raw, data), lay_of(shx, raw), raw.texts)
        doc, lay, texts = _PARSED[h]
        ren = {i: self.acta_id(t) for i, t in enumerate(texts)}
        if doc['acta'] is not None:
            doc = dict(doc, acta=dict(doc['acta'], text=ren[doc['acta']['text']]))
        return doc, [ACTA_MARK + str(ren[int(t[len(ACTA_MARK):])]) if t.startswith(ACTA_MARK) else t for t in lay]

    def parse(self, data):
        return self.parse2(data)[0]

    def raw(self, data, hint='x'):
        lab = self.label(data, hint)
        return None if lab is None else dict(raw=lab)


UNIT_MARK = '@UNIT'
ACTA_MARK = '@ACTA:'


def lay_of(shx, labels):
    """the line list of the object, by keyword: the entry that is `shx.unit`, the entry that is `shx.acta` (with the id of
    its text), '' for an entry that prints as nothing, else the first word (upper case, four characters)"""
    out = []
    try:
        for e in shx._reslist:
            if e is shx.unit:
                out.append(UNIT_MARK)
            elif shx.acta is not None and e is shx.acta:
                out.append(ACTA_MARK + str(labels.acta_id(' '.join(str(e).split()))))
            else:
                w = str(e).split()
                out.append(w[0].upper()[:4] if w else '')
    except Exception:
        return ['?']
    return out


def dow_of(data):
    """does the file have a second FVAR line? (only the legacy model, `fix.dow = false`, looks at this: before the C04
    repair such lines were recorded by index in `delete_on_write`)"""
    return sum(1 for ln in data.decode('latin1').splitlines() if ln[:4].upper() == 'FVAR') > 1


def ls_params_of_text(data):
    """nrf and nextra of the L.S./CGLS instruction as the FILE states them (by construction, not through the library):
    `L.S. n`, `L.S. n nrf`, `L.S. n nrf nextra`; parameters that are not given have SHELXL's default 0"""
    for ln in data.decode('latin1').splitlines():
        tok = ln.split()
        if tok and tok[0].upper() in ('L.S.', 'CGLS'):
            tail = [int(t) for t in tok[2:4]]
            return (tail + [0, 0])[:2]
    return None


def ls_params_of_obj(shx):
    """the same of the object in memory"""
    out = []
    for name in ('nrf', 'nextra'):
        v = getattr(shx.cycles, name, None)
        if v is None:
            v = getattr(shx.cycles, '_' + name)
        out.append(0 if v in ('', None) else int(v))
    return out


def doc_of(shx, labels, data=None):
    """the document as the property sees it: the object through its API, a file (`data`) additionally by its text"""
    try:
        acta = None
        if shx.acta is not None:
            acta = dict(text=labels.acta_id(' '.join(str(shx.acta).split())), off=shx.index_of(shx.acta) - shx.index_of(shx.unit))
        # Q-peaks without their U and at the precision they are printed with (known finding of C01: golden files pin it)
        atoms = [(a.name, a.sfac_num, round(a.x, 4), round(a.y, 4), round(a.z, 4), round(a.sof, 5), [round(u, 2) for u in a.uvals[1:2]])
                 if getattr(a, 'qpeak', False) else
                 (a.name, a.sfac_num, round(a.x, 5), round(a.y, 5), round(a.z, 5), round(a.sof, 5), [round(u, 5) for u in a.uvals])
                 for a in shx.atoms.all_atoms]
        rest = (atoms, [round(f.fvar_value, 5) for f in shx.fvars.fvars],
                [float(v) for v in shx.unit.values], [e.upper() for e in shx.sfac_table.elements_list],
                str(shx.wght).split(), str(shx.hklf).split())
        ls = ls_params_of_obj(shx) if data is None else ls_params_of_text(data)
        kw = 'CGLS' if shx.cycles.cgls else 'L.S.'
        return dict(acta=acta, cycles=int(shx.cycles.number), rest=f'{sha(repr(rest).encode())}/{kw} n {ls[0]} {ls[1]}')
    except Exception as e:  # not a usable model (empty / garbage file)
        return dict(acta=None, cycles=-1, rest='unusable')


def observe(shx, labels, pre_res, name=NAME):
    saves = []
    if os.path.isdir('shxsaves'):
        for fn in sorted(os.listdir('shxsaves')):
            lab = labels.raw(read(os.path.join('shxsaves', fn)), 's')
            if lab and lab not in saves:
                saves.append(lab)
    if pre_res in saves:  # set semantics: the copy of the pre-run file first, if it is there
        saves.remove(pre_res)
        saves.insert(0, pre_res)
    ins = read(name + '.ins')
    return dict(fs=dict(res=labels.raw(read(name + '.res'), 'r'), ins=None if ins is None else dict(written=labels.parse(ins)),
                        bak=labels.raw(read(name + '.shx-bak'), 'b'), hkl=os.path.exists(name + '.hkl'), saves=saves),
                mem=dict(doc=doc_of(shx, labels), dow=False, skew=0, lay=lay_of(shx, labels)))


def play(case, bindir, root):
    """run the case on the real code; returns (labels, init, per-call records)"""
    from shelxfile import Shelxfile
    work = tempfile.mkdtemp(prefix='case_', dir=root)
    old_cwd = os.getcwd()
    old_path = os.environ.get('PATH', '')
    labels = Labels()
    steps = []
    name = name_of(case)
    try:
        os.chdir(work)
        os.environ['PATH'] = bindir + os.pathsep + old_path
        text = file_bytes(case['file'])
        with open(name + '.res', 'wb') as fh:
            fh.write(text)
        if case.get('hkl', True):
            with open(name + '.hkl', 'w') as fh:
                fh.write('   1   0   0    1.00    1.00\n   0   0   0    0.00    0.00\n')
        if case.get('stale_bak'):
            with open(name + '.shx-bak', 'w') as fh:
                fh.write(STALE)
        os.mkdir('c19_log')
        out = io.StringIO()
        with contextlib.redirect_stdout(out):
            shx = Shelxfile()
            shx.read_file(res_arg(case))
        init = observe(shx, labels, None, name)
        init['mem']['dow'] = dow_of(text)
        for k, call in enumerate(case['calls']):
            if 'op' in call:
                rec = between(shx, call, labels, out, case)
                if rec is not None:
                    steps.append(dict(rec, item=call, k=k))
                continue
            lst = LST_BYTES[call['lst']]
            with open('c19_outcome', 'w') as fh:
                fh.write(f'EXIT={call["exit"]}\nRES={call["res"]}\nRUN={k}\n'
                         f"LST='{'-' if lst is None else lst if lst == 'DIR' else printf_format(lst)}'\n"
                         f"CON='{printf_format(CON_BYTES[call.get('con', 'banner')])}'\n")
            if os.path.isdir(name + '.lst'):          # the list file of the run before: SHELXL starts a new one
                os.rmdir(name + '.lst')
            elif os.path.exists(name + '.lst'):
                os.remove(name + '.lst')
            pre_res = labels.raw(read(name + '.res'), 'r')
            raised = None
            ret = None
            with contextlib.redirect_stdout(out):
                try:
                    ret = shx.refine(call['cycles'], backup_before=call['backup'])
                except BaseException as e:  # SystemExit included
                    if isinstance(e, KeyboardInterrupt):
                        raise
                    raised = type(e).__name__
            os.chdir(work)
            ran = os.path.exists(f'c19_log/ran_{k}')
            rec = dict(item=call, k=k, obs=observe(shx, labels, pre_res, name), raised=raised, ret=ret, ran=ran,
                       ins_at_run=None, bak_at_run=None, pre_res=pre_res)
            if ran:
                d = read(f'c19_log/ins_{k}')
                rec['ins_at_run'] = None if d is None else dict(written=labels.parse(d))
                rec['bak_at_run'] = labels.raw(read(f'c19_log/bak_{k}'), 'b')
            # what the stand-in did to <name>.res, as the model's Outcome (its own copy, taken when it ran)
            if not ran or call['res'] == 'untouched':
                rec['res_out'] = 'untouched'
            elif call['res'] == 'missing':
                rec['res_out'] = 'removed'
            elif read(f'c19_log/res_{k}') is None:     # it was started without the <name>.ins it derives the result from
                rec['res_out'] = 'untouched'
            else:
                rec['res_out'] = dict(wrote=labels.label(read(f'c19_log/res_{k}'), 'g'))
            steps.append(rec)
    finally:
        os.chdir(old_cwd)
        os.environ['PATH'] = old_path
        shutil.rmtree(work, ignore_errors=True)
    return labels, init, steps


def between(shx, op, labels, out, case):
    """what the user does to the object between two refine() calls: `reload` = shx.reload() of the .res as it is;
    `reread` = the .res is rewritten (another program, an editor) and read with read_file(). Returns None when the
    step is not possible (no usable .res to reload)."""
    write = None
    name = name_of(case)
    if op['op'] == 'reload':
        cur = read(name + '.res')
        if cur is None or labels.parse(cur)['cycles'] == -1:
            return None
    else:
        data = file_bytes(op['file'])
        with open(name + '.res', 'wb') as fh:
            fh.write(data)
        write = labels.label(data, 'u')
    raised = None
    with contextlib.redirect_stdout(out):
        try:
            if op['op'] == 'reload':
                shx.reload()
            else:
                shx.read_file(res_arg(case))
        except BaseException as e:
            if isinstance(e, KeyboardInterrupt):
                raise
            raised = type(e).__name__
    return dict(op=True, write=write, raised=raised, obs=observe(shx, labels, None, name))


def request(case, labels, init, steps):
    rs = []
    for rec in steps:
        call = rec['item']
        if rec.get('op'):
            rs.append(dict(op='load', write=rec['write'], obs=dict(st=rec['obs'])))
            continue
        rs.append(dict(cycles=call['cycles'], backup=call['backup'], exit=call['exit'], res=rec['res_out'],
                       lst=LST_CLASS[call['lst']], con=CON_CLASS[call.get('con', 'banner')],
                       obs=dict(st=rec['obs'], raised=rec['raised'] is not None)))
    return dict(p='C19', op='seq', table=list(labels.table.values()), init=init, steps=rs)


def outcome_class(call, spec):
    if not spec['started']:
        return 'not-started'
    if not spec['failed']:
        return 'ok'
    if call['exit'] != 0:
        return ('signal' if call['exit'] < 0 else 'exit>0') + ',res=' + call['res']
    return 'res=' + call['res']


def evaluate(ctx, cases, stream=None):
    ctx.stream('protocol')
    ctx.stream('property')
    core_root = tempfile.mkdtemp(prefix='c19_')
    shm = '/dev/shm'      # the working directories on a memory file system when there is one: thousands come and go
    work_root = tempfile.mkdtemp(prefix='c19_', dir=shm) if os.path.isdir(shm) and os.access(shm, os.W_OK) else core_root
    try:
        bindir = os.path.join(core_root, 'bin')
        os.mkdir(bindir)
        exe = os.path.join(bindir, 'shelxl')
        with open(exe, 'w') as fh:
            fh.write(STANDIN)
        os.chmod(exe, 0o755)
        played = [play(case, bindir, work_root) for case in cases]
    finally:
        shutil.rmtree(core_root, ignore_errors=True)
        shutil.rmtree(work_root, ignore_errors=True)
    answers = ctx.driver.batch([request(case, *p) for case, p in zip(cases, played)])
    for case, (labels, init, steps), ans in zip(cases, played, answers):
        judge(ctx, case, init, steps, ans)


def squeeze(lay):
    """the line list without the entries that print as nothing (the comparison does not depend on placeholders)"""
    return None if lay is None else [t for t in lay if t != '']


def judge(ctx, case, init, steps, ans):
    f = case['file']
    pre = init
    any_ran = False
    for rec, mod, spec in zip(steps, ans['model'], ans['spec']):
        call, k = rec['item'], rec['k']
        obs = rec['obs']
        sub = dict(case, calls=case['calls'][:k + 1])
        if rec.get('op'):
            mst = mod['st']
            diffs = [(key, a, b) for key, a, b in (('res', mst['fs']['res'], obs['fs']['res']),
                                                   ('mem', mst['mem']['doc'], obs['mem']['doc']),
                                                   ('lines', squeeze(mod.get('lay')),
                                                    squeeze(obs['mem']['lay']) if mod.get('lay') is not None else None),
                                                   ('raised', mod['exc'] is not None, rec['raised'] is not None)) if a != b]
            ctx.count(['call', sub], nontrivial=False, tags=[f'between={call["op"]}'])
            if diffs:
                what = '; '.join(f'{k_}: model {m} / implementation {o}' for k_, m, o in diffs)
                ctx.fail(f'C19|model|between={call["op"]}|{"+".join(d[0] for d in diffs)}', f'step {k + 1} ({call}): {what}',
                         dict(case=sub, step=k, stream='protocol', expected=[d[1] for d in diffs], actual=[d[2] for d in diffs],
                              model=mst), kind='correspondence')
                return
            pre = obs
            continue
        any_ran = any_ran or rec['ran']
        acta = 'present' if pre['mem']['doc']['acta'] else 'absent'       # in the model right before this call
        oc = outcome_class(call, spec)
        where = f'{oc}|lst={call["lst"]}|backup={"on" if call["backup"] else "off"}|acta={acta}'
        if call.get('con', 'banner') != 'banner':
            where += f'|prints={call["con"]}'
        hyp = mod['hyp']
        inside = hyp['plausible']
        # the property's split into failed / succeeded applies (observed state); outside it only the model is compared
        dom = spec['plausible']
        if inside and not mod['meets_spec']:
            raise RuntimeError(f'C19: model differs from spec inside the hypotheses of history_meets_spec: {sub}')
        mst = mod['st']
        base = dict(case=sub, step=k, call=call, observed=dict(obs=obs, raised=rec['raised'], ret=rec['ret'], ran=rec['ran']),
                    model=dict(st=mst, exc=mod['exc']), spec=spec, pre=pre)
        tags = [f'outcome={oc}', f'lst={call["lst"]}', f'backup={call["backup"]}', f'acta={acta}', f'step={k}',
                f'cycles={"keep" if call["cycles"] is None else "set"}', f'raised={rec["raised"]}',
                f'con={call.get("con", "banner")}', f'layout={f.get("lay") or "plain"}', f'acta_at={f["acta"]}',
                f'bytes={f.get("enc") or "lf"}', f'name={"plain" if name_of(case) == NAME else "other"}',
                f'open={case.get("open") or "str"}']
        ctx.count(['call', sub], nontrivial=rec['ran'], tags=tags,
                  sample=dict(stream='protocol', calls=sub['calls'], acta=f['acta'], raised=rec['raised'],
                              res_after=obs['fs']['res'], bak_after=obs['fs']['bak'], mem_acta=obs['mem']['doc']['acta'])
                  if rec['ran'] and k > 0 else None)

        # ---- property: the specification's clauses on the observed states -------------------------------------
        if not spec['ins'] or (rec['ran'] and rec['ins_at_run'] != obs['fs']['ins']):
            sig = f'C19|ins|{where}|fvar-lines={2 if f["nfv"] > 7 else 1}|cycles={"keep" if call["cycles"] is None else "set"}'
            got = obs['fs']['ins'] and obs['fs']['ins']['written']
            ctx.fail(sig, f'the .ins handed to SHELXL is not the current model without ACTA and with cycles '
                          f'{spec["want_ins"]["cycles"]}: parsed back it is {got}, expected {spec["want_ins"]} '
                          f'(call {k + 1}: {call})', dict(base, stream='property', expected=spec['want_ins'], actual=got))
        if dom and not spec['res']:
            clause = 'restore' if (spec['failed'] and call['backup']) else 'stale' if spec['failed'] else 'result'
            ctx.fail(f'C19|{clause}|{where}',
                     f'call {k + 1} ({call}, SHELXL {"failed" if spec["failed"] else "succeeded"}): <name>.res is '
                     f'{obs["fs"]["res"]} afterwards; before the run it was {pre["fs"]["res"]}, SHELXL left {rec["res_out"]}',
                     dict(base, stream='property', expected='pre-run content' if spec['failed'] and call['backup'] else
                          'pre-run content or what SHELXL left' if spec['failed'] else 'what SHELXL left', actual=obs['fs']['res']))
        if (dom and not spec['bak']) or (rec['ran'] and call['backup'] and rec['bak_at_run'] != rec['pre_res']):
            ctx.fail(f'C19|backup|{where}',
                     f'call {k + 1} ({call}): no byte-identical backup of the pre-run .res ({rec["pre_res"]}) at run time '
                     f'({rec["bak_at_run"]}) / in shxsaves ({obs["fs"]["saves"]}) / beside a good result ({obs["fs"]["bak"]})',
                     dict(base, stream='property', expected=rec['pre_res'], actual=dict(at_run=rec['bak_at_run'], after=obs['fs'])))
        if dom and not spec['mem']:
            ok_run = spec['started'] and not spec['failed']
            clause = 'reload' if ok_run else 'memory'
            ctx.fail(f'C19|{clause}|{where}',
                     f'call {k + 1} ({call}): ' + (f'after a good run the object is {obs["mem"]["doc"]} (raised: {rec["raised"]}), '
                                                   f'expected the parsed result with ACTA directly after UNIT: {spec["want_doc"]}'
                                                   if ok_run else
                                                   f'after a run that did not complete refine() raised {rec["raised"]} and the object is '
                                                   f'{obs["mem"]["doc"]}; it was {pre["mem"]["doc"]}'),
                     dict(base, stream='property', expected=spec['want_doc'] if ok_run else pre['mem']['doc'], actual=obs['mem']['doc']))
        if dom and spec.get('lines') is False:
            ok_run = spec['started'] and not spec['failed']
            ctx.fail(f'C19|lines|{where}',
                     f'call {k + 1} ({call}): the lines in memory are {squeeze(obs["mem"]["lay"])}; expected ' +
                     ('those of the new result' if ok_run else f'those the object had ({squeeze(pre["mem"]["lay"])})') +
                     (' with the ACTA card directly after UNIT' if acta == 'present' else ''),
                     dict(base, stream='property', expected=squeeze(mod.get('lay')), actual=squeeze(obs['mem']['lay'])))
        if spec['started'] != rec['ran']:
            ctx.fail(f'C19|started|{where}', f'call {k + 1}: SHELXL {"was" if rec["ran"] else "was not"} started, '
                                              f'specification says started={spec["started"]}', dict(base, stream='property'))

        # ---- correspondence: the model's prediction, on the same observables ----------------------------------
        diffs = []
        for key in ('res', 'bak'):
            if mst['fs'][key] != obs['fs'][key]:
                diffs.append((key, mst['fs'][key], obs['fs'][key]))
        mi, oi = mst['fs']['ins'], obs['fs']['ins']
        if mi is None or oi is None:
            if mi != oi:
                diffs.append(('ins', mi, oi))
        elif mi.get('written') != oi['written']:
            diffs.append(('ins', mi, oi))
        if (mod['exc'] is not None) != (rec['raised'] is not None):
            diffs.append(('raised', mod['exc'], rec['raised']))
        if mst['mem']['doc'] != obs['mem']['doc']:
            diffs.append(('mem', mst['mem']['doc'], obs['mem']['doc']))
        if mod.get('lay') is not None and squeeze(mod['lay']) != squeeze(obs['mem']['lay']):
            diffs.append(('lines', squeeze(mod['lay']), squeeze(obs['mem']['lay'])))
        msaved = bool(mst['fs']['saves']) and rec['pre_res'] is not None and mst['fs']['saves'][0] == rec['pre_res'] \
            and spec['started'] and call['backup']
        osaved = rec['pre_res'] in obs['fs']['saves'] if spec['started'] and call['backup'] else msaved
        if msaved != osaved:
            diffs.append(('shxsaves', mst['fs']['saves'], obs['fs']['saves']))
        if diffs:
            what = '; '.join(f'{k_}: model {m} / implementation {o}' for k_, m, o in diffs)
            ctx.fail(f'C19|model|{"+".join(d[0] for d in diffs)}|{where}', f'call {k + 1} ({call}): {what}',
                     dict(base, stream='protocol', expected=[d[1] for d in diffs], actual=[d[2] for d in diffs]), kind='correspondence')
            return  # later calls start from different states
        pre = obs


def mk_file(acta, nfv=3, cgls=False, ls=None, acta_text=None, lay=None, enc=None):
    f = dict(acta=acta, nfv=nfv, cgls=cgls)
    if enc and enc != 'lf':
        f['enc'] = enc
    if ls:
        f['ls'] = ls
        f['cgls'] = ls[0] == 'CGLS'
    if acta_text:
        f['acta_text'] = acta_text
    if lay and lay != 'plain':
        f['lay'] = lay
    return f


def mk_call(exit, res, lst='good', backup=True, cycles=None, con='banner'):
    c = dict(exit=exit, res=res, lst=lst, backup=backup, cycles=cycles)
    if con != 'banner':
        c['con'] = con
    return c


#: every parameter form of the instruction: n; n nrf; n nrf nextra; zeros and a negative nrf in each slot; both keywords
LS_FORMS = [['L.S.', 10], ['L.S.', 10, 2], ['L.S.', 10, 0, 54], ['L.S.', 10, 3, 54], ['L.S.', 0], ['L.S.', 10, 0],
            ['L.S.', 10, 2, 0], ['L.S.', 10, -1], ['L.S.', 0, 0, 9], ['CGLS', 10], ['CGLS', 10, 0, 54], ['CGLS', 5, -2, 0],
            ['CGLS', 0, 0, 7], ['CGLS', 8, 4]]


def ls_cases(thorough):
    """the .ins is the model with ONLY the cycle number changed: every form of L.S./CGLS x cycles given / not given,
    over two calls (what the first call leaves in the object is what the second one writes)"""
    out = []
    ok = dict(exit=0, res='good', lst='good', backup=True)
    bad = dict(exit=1, res='good', lst='good', backup=True)
    for i, (ls, cyc) in enumerate(itertools.product(LS_FORMS, [None, 0, 7])):
        for acta in (['none', 'later'] if thorough else [['none', 'later'][i % 2]]):
            first = dict(ok if i % 3 else bad, cycles=cyc)
            out.append(dict(file=mk_file(acta, ls=ls, lay=LAYOUT_NAMES[i % len(LAYOUT_NAMES)] if i % 4 == 1 else None),
                            stale_bak=False, hkl=True, calls=[first, dict(ok, cycles=None if cyc is not None else 3)]))
    return out


def layout_cases(thorough):
    """every shape of the user's file x every place of ACTA x one outcome of each kind, then a good run on the same
    object: the list in memory before a run and the list after the reload differ in length above / below UNIT"""
    out = []
    outs = CORE_OUT if thorough else [(0, 'good'), (1, 'good'), (0, 'empty')]
    for i, (lay, acta, (ex, res)) in enumerate(itertools.product(LAYOUT_NAMES, ['later', 'after_unit', 'last'], outs)):
        for backup in ([True, False] if thorough else [i % 4 != 3]):
            second = mk_call(0, 'relaid' if i % 2 else 'good', backup=backup, cycles=5)
            out.append(dict(file=mk_file(acta, nfv=9 if i % 5 == 2 else 3, lay=lay), stale_bak=False, hkl=True,
                            calls=[mk_call(ex, res, backup=backup, cycles=[4, None][i % 2]), second]))
    for i, lay in enumerate(LAYOUT_NAMES):     # and a model without ACTA
        out.append(dict(file=mk_file('none', lay=lay), stale_bak=False, hkl=True,
                        calls=[mk_call(*outs[i % len(outs)], cycles=4), mk_call(0, 'good')]))
    return out


def console_cases(thorough):
    """whatever the program prints x one outcome of each kind"""
    out = []
    for i, (con, (ex, res), backup) in enumerate(itertools.product(CON_MORE, CORE_OUT, [True, False])):
        for acta in (['none', 'later'] if thorough else [['later', 'none', 'after_unit'][i % 3]]):
            out.append(dict(file=mk_file(acta), stale_bak=(i % 4 == 1), hkl=True,
                            calls=[mk_call(ex, res, lst=LST_MAIN[i % len(LST_MAIN)], backup=backup, cycles=[None, 6][i % 2], con=con)]))
    return out


def bytes_cases(thorough):
    """the bytes of the file the user starts from (line ends, final line end, UTF-8, trailing blanks) x one outcome of each
    kind x backup, then a second call on what the first left; and results written with CR LF by the program, followed by
    a run that fails: what is backed up, restored and left alone is compared by content, byte for byte"""
    out = []
    for i, (enc, (ex, res), backup) in enumerate(itertools.product(ENC_MORE, CORE_OUT, [True, False])):
        for acta in (['none', 'later', 'after_unit'] if thorough else [['later', 'none', 'after_unit'][i % 3]]):
            second = mk_call(*[(1, 'good'), (0, 'good'), (0, 'empty'), (0, 'crlf')][i % 4], backup=(i % 3 != 2))
            out.append(dict(file=mk_file(acta, enc=enc, nfv=9 if i % 7 == 3 else 3,
                                         lay=LAYOUT_NAMES[i % len(LAYOUT_NAMES)] if i % 5 == 1 else None),
                            stale_bak=(i % 4 == 1), hkl=True,
                            calls=[mk_call(ex, res, lst=LST_MAIN[i % len(LST_MAIN)], backup=backup, cycles=[None, 6][i % 2]), second]))
    for i, ((ex, res), backup, acta) in enumerate(itertools.product(CORE_OUT[2:] + [(3, 'garbage'), (1, 'untouched'), (0, 'crlf')],
                                                                    [True, False], ['none', 'later'])):
        out.append(dict(file=mk_file(acta, enc=ENCODINGS[i % len(ENCODINGS)]), stale_bak=False, hkl=True,
                        calls=[mk_call(0, 'crlf', backup=backup, cycles=4), mk_call(ex, res, backup=(i % 3 != 0))]))
    return out


def name_cases(thorough):
    """the base name of the job (dots, a blank, capitals, ...) x how the file is given to read_file() x one outcome of
    each kind x backup, then a good run on the same object"""
    out = []
    for i, (name, (ex, res), backup) in enumerate(itertools.product(NAMES_MORE, CORE_OUT, [True, False])):
        for how in (OPENS if thorough else [OPENS[i % len(OPENS)]]):
            out.append(dict(file=mk_file(['later', 'none', 'after_unit', 'last'][i % 4], enc=ENCODINGS[i % len(ENCODINGS)] if i % 3 == 0 else None),
                            stale_bak=(i % 4 == 1), hkl=True, name=name, open=how,
                            calls=[mk_call(ex, res, lst=LST_MAIN[i % len(LST_MAIN)], backup=backup, cycles=[5, None][i % 2]),
                                   mk_call(0, ['good', 'relaid', 'crlf'][i % 3], backup=(i % 5 != 4))]))
    for i, (how, (ex, res), backup) in enumerate(itertools.product(OPENS[1:], CORE_OUT, [True, False])):   # the usual name
        out.append(dict(file=mk_file(['later', 'none'][i % 2]), stale_bak=False, hkl=True, open=how,
                        calls=[mk_call(ex, res, backup=backup, cycles=3), mk_call(0, 'good', backup=backup)]))
    return out


BETWEEN = [dict(op='reload'),
           dict(op='reread', file=mk_file('none', nfv=4)),
           dict(op='reread', file=mk_file('later', nfv=4, acta_text='ACTA 45', lay='blank_sfac')),
           dict(op='reread', file=mk_file('after_unit', nfv=5, ls=['L.S.', 6, 0, 12], lay='sfac_cont')),
           dict(op='reread', file=mk_file('later', nfv=2, enc='win'))]
BETWEEN_OUT = [(0, 'good', 'good'), (1, 'good', 'good'), (0, 'empty', 'good'), (-11, 'truncated', 'missing')]


def between_cases(rng, thorough, n_long):
    """one object, refine() - the user re-reads the model (with / without ACTA, another ACTA) - refine() again:
    what a call does depends on the model as it is right before it and on nothing an earlier call kept"""
    out = []
    n = 0
    for i, (a, op, b) in enumerate(itertools.product(BETWEEN_OUT, BETWEEN, BETWEEN_OUT)):
        for acta in (['later', 'none'] if thorough else [['later', 'none', 'later', 'last'][i % 4]]):
            for backs in ([(True, True), (True, False), (False, True), (False, False)] if thorough else [(True, n % 2 == 0)]):
                n += 1
                c1 = dict(exit=a[0], res=a[1], lst=a[2], backup=backs[0], cycles=4)
                c2 = dict(exit=b[0], res=b[1], lst=b[2], backup=backs[1], cycles=None)
                out.append(dict(file=mk_file(acta, lay='blank_zerr' if i % 3 == 0 else None), stale_bak=False, hkl=True,
                                calls=[c1, op, c2]))
    for _ in range(n_long):     # longer ones: call, re-read, call, re-read, call
        calls = []
        for j in range(3):
            o = rng.choice(BETWEEN_OUT)
            calls.append(dict(exit=o[0], res=o[1], lst=o[2], backup=rng.random() < 0.7, cycles=rng.choice([None, 2, 9])))
            if j < 2:
                calls.append(rng.choice(BETWEEN))
        out.append(dict(file=mk_file(rng.choice(['later', 'none', 'after_unit']), lay=rng.choice(LAYOUT_NAMES)),
                        stale_bak=False, hkl=True, calls=calls))
    return out


def singles(thorough):
    """the finite grid of the quantifier for one call (quick: every pair of dimensions, the rest rotating)"""
    out = []
    cyc3 = [None, 0, 7]
    both = [True, False]
    # outcome x list file x backup x ACTA (x cycles)
    if thorough:
        for (ex, res), lst, backup, acta, cyc in itertools.product(EXITRES, list(LST_BYTES), both, ['none', 'later'], cyc3):
            i = len(out)
            out.append(dict(file=mk_file(acta, cgls=(i % 5 == 0)), stale_bak=(i % 2 == 1), hkl=True,
                            calls=[mk_call(ex, res, lst, backup, cyc)]))
    else:
        for (ex, res), lst, backup, acta in itertools.product(EXITRES, LST_MAIN, both, ['none', 'later']):
            i = len(out)
            out.append(dict(file=mk_file(acta, cgls=(i % 5 == 0)), stale_bak=(i % 2 == 1), hkl=True,
                            calls=[mk_call(ex, res, lst, backup, cyc3[i % 3])]))
        for lst, (ex, res), backup in itertools.product(LST_MORE, CORE_OUT, both):
            i = len(out)
            out.append(dict(file=mk_file(['none', 'later'][i % 2]), stale_bak=(i % 4 == 1), hkl=True,
                            calls=[mk_call(ex, res, lst, backup, cyc3[i % 3])]))
    # every other way of ending, with every state of the result file
    for (ex, res), backup in itertools.product(exitres(EXIT_MORE), both):
        for lst, acta in (itertools.product(['good', 'short'], ['none', 'later']) if thorough else
                          [(['good', 'short', 'binary'][len(out) % 3], ['none', 'later'][len(out) % 2])]):
            i = len(out)
            out.append(dict(file=mk_file(acta), stale_bak=(i % 2 == 1), hkl=True,
                            calls=[mk_call(ex, res, lst, backup, None if i % 3 else 5)]))
    # the other directory states / file shapes, on the outcome classes
    for (ex, res), backup, acta in itertools.product(EXITRES, both, ['none', 'later', 'after_unit']):
        for stale in (both if thorough else [len(out) % 2 == 0]):
            out.append(dict(file=mk_file(acta), stale_bak=stale, hkl=True, calls=[mk_call(ex, res, 'good', backup, 3)]))
    for (ex, res), backup, acta in itertools.product(EXITRES if thorough else CORE_OUT, both, ['none', 'later']):
        out.append(dict(file=mk_file(acta, nfv=9), stale_bak=False, hkl=True,      # a second FVAR line (absorbed by the parser)
                        calls=[mk_call(ex, res, 'good', backup, 3)]))
    for backup, acta in itertools.product(both, ['none', 'later']):
        out.append(dict(file=mk_file(acta), stale_bak=False, hkl=False,           # no reflections: SHELXL is not started
                        calls=[mk_call(0, 'good', 'good', backup, 3)]))
    return out


SEQ_OUT = [(0, 'good', 'good'), (0, 'good', 'short'), (0, 'empty', 'good'), (0, 'missing', 'good'), (1, 'good', 'good'),
           (1, 'untouched', 'missing'), (1, 'missing', 'nolatt'), (3, 'garbage', 'good'),
           (-11, 'good', 'good'), (-9, 'truncated', 'missing'), (0, 'relaid', 'latin1')]


def seq_alphabet(outs):
    return [dict(exit=ex, res=res, lst=lst, backup=b, cycles=None) for (ex, res, lst) in outs for b in (True, False)]


def with_cycles(calls):
    cyc = [4, None, 6]
    return [dict(c, cycles=cyc[i % 3]) for i, c in enumerate(calls)]


def random_cases(rng, n):
    """everything at once: any file shape, 1-3 calls with any outcome, any list file, any output, re-reads between"""
    out = []
    cons = ['banner'] * 3 + CON_MORE
    for _ in range(n):
        calls = []
        for j in range(rng.choice([1, 2, 2, 3])):
            if j and rng.random() < 0.3:
                calls.append(rng.choice(BETWEEN))
            ex = rng.choice([0, 0, 0] + EXIT_MAIN + EXIT_MORE)
            calls.append(mk_call(ex, rng.choice((RES_OK if ex == 0 else RES_ALL) + ['crlf']), rng.choice(list(LST_BYTES)),
                                 rng.random() < 0.7, rng.choice([None, 0, 2, 9]), rng.choice(cons)))
        out.append(dict(file=mk_file(rng.choice(['none', 'later', 'after_unit', 'last']), nfv=rng.choice([1, 3, 9]),
                                     ls=rng.choice(LS_FORMS), lay=rng.choice(LAYOUT_NAMES),
                                     acta_text=rng.choice([None, 'ACTA', 'ACTA 45 NOHKL']),
                                     enc=rng.choice(['lf'] * 3 + ENC_MORE)),
                        stale_bak=rng.random() < 0.2, hkl=rng.random() < 0.95, calls=calls))
        if rng.random() < 0.4:
            out[-1]['name'] = rng.choice(NAMES_MORE)
        if rng.random() < 0.4:
            out[-1]['open'] = rng.choice(OPENS[1:])
    return out


def run(ctx):
    ctx.rule = ('one case = a freshly read file (ACTA absent / directly after UNIT / two lines later / last before FVAR; one or '
                'two FVAR lines; L.S. or CGLS in every parameter form; 11 shapes: blank lines at six places, SFAC continued or '
                'repeated, SYMM lines, a continuation line behind UNIT, SHELXL\'s own header lines and Q-peaks; bytes LF / CR LF / CR / mixed / no final line end / UTF-8 / trailing blanks; base name c19job or one with '
                'dots, a blank, capitals, a leading digit, a non-ASCII letter; path relative / absolute / ./ / pathlib.Path) in a directory '
                '(with or without an old .shx-bak, with or without .hkl) + 1..3 refine() calls (optionally with a '
                'reload()/read_file() of a rewritten .res between them), each with an outcome of the stand-in (status 0 / exit '
                '1,3,127,255 / killed by signal 6,9,11,15 x .res written from .ins / in SHELXL\'s layout / empty / removed / '
                'written with CR LF / untouched / garbage / truncated x .lst good / 8-bit / CRLF / missing / a directory / short / empty / no-LATT / '
                'no-final / binary / zero parameters / low ratio x output banner / full / none / 8-bit / binary / short R1 / '
                '"cannot open hkl"), backup on/off, cycles None/0/2..9; one evaluation per call, distinct by the history up to '
                'it; non-trivial = the stand-in was actually started in that call')
    ctx.assumptions = ['result files are empty or at least 10 bytes long, and a program that prints "CANNOT OPEN FILE ...hkl" '
                       'has failed in the property\'s sense (hypothesis `plausible`; outside it only the model is compared)',
                       'debug=False, verbose=False (debug mode re-raises by design)',
                       'cwd is the directory of the .res file (refine() writes <stem>.ins relative to cwd)',
                       'between calls the model is changed through reload()/read_file() only (add_line/replace_line work on raw '
                       'lines that bypass shx.acta: C04/C08 territory)',
                       'the stand-in derives a good .res from the .ins it was given (SHELXL never adds ACTA); with status 0 it '
                       'always writes a result (an untouched .res that still holds ACTA is not a result)',
                       'the user\'s file has at most one ACTA line']
    thorough = ctx.tier == 'thorough'
    # edited source (a mirrored function's digest changed): the quick grid plus more random histories, still within the
    # quick budget - every run of the stand-in is a process
    more = 2 if ctx.escalated and not thorough else 1
    cases = singles(thorough)
    n_single = len(cases)
    alpha = seq_alphabet(SEQ_OUT)
    if thorough:
        pairs = list(itertools.product(alpha, repeat=2))
        small = seq_alphabet([SEQ_OUT[i] for i in (0, 1, 2, 3, 8, 5)])
        triples = list(itertools.product(small, repeat=3))
        ctx.extra['sequences'] = f'all {len(pairs)} pairs over {len(alpha)} call kinds and all {len(triples)} triples over {len(small)}, each with and without ACTA'
        ctx.exhaustive = True
    else:
        pairs = ctx.rng.sample(list(itertools.product(alpha, repeat=2)), 70 * more)
        triples = [tuple(ctx.rng.choice(alpha) for _ in range(3)) for _ in range(50 * more)]
        # histories that need a particular order: good run with backup then crash without; crash then good run
        triples += [(alpha[0], alpha[9], alpha[0]), (alpha[8], alpha[0], alpha[1]), (alpha[6], alpha[0], alpha[9])]
        ctx.extra['sequences'] = f'{len(pairs)} sampled pairs and {len(triples)} triples over {len(alpha)} call kinds'
    for i, seq in enumerate(list(pairs) + list(triples)):
        for acta in (['none', 'later'] if thorough else [['later', 'none', 'after_unit', 'last'][i % 4]]):
            calls = with_cycles(seq)
            if i % 3 == 2:      # something printed in one of the calls
                calls[i % len(calls)] = dict(calls[i % len(calls)], con=CON_MORE[(i // 3) % len(CON_MORE)])
            cases.append(dict(file=mk_file(acta, lay=LAYOUT_NAMES[i % len(LAYOUT_NAMES)] if i % 2 else None),
                              stale_bak=(i % 7 == 3), hkl=True, calls=calls))
    extra = (bytes_cases(thorough) + name_cases(thorough) + layout_cases(thorough) + console_cases(thorough) + ls_cases(thorough) +
             between_cases(ctx.rng, thorough, 120 if thorough else 30 * more))
    rnd = random_cases(ctx.rng, 1500 if thorough else 60 * more)
    ctx.extra['single_calls'] = n_single
    ctx.extra['ls_forms'] = f'{len(LS_FORMS)} forms of L.S./CGLS x cycles None/0/7 x ACTA, two calls each'
    ctx.extra['between'] = 'refine / reload or read_file of a rewritten .res (no ACTA, another ACTA, ACTA after UNIT) / refine'
    ctx.extra['layouts'] = f'{len(LAYOUT_NAMES)} file shapes x 3 places of ACTA x outcome classes, two calls each'
    ctx.extra['console'] = f'{len(CON_MORE)} kinds of output x {len(CORE_OUT)} outcome classes x backup'
    ctx.extra['bytes'] = (f'{len(ENC_MORE)} byte forms of the file (CR LF, CR, mixed, no final line end, UTF-8, trailing blanks, all of it) '
                          f'x {len(CORE_OUT)} outcome classes x backup, two calls each; results written with CR LF then a failure')
    ctx.extra['names'] = f'{len(NAMES_MORE)} base names (dots, blank, capitals, digit first, non-ASCII) x {len(OPENS)} ways to give the path x outcome classes x backup'
    ctx.extra['random'] = len(rnd)
    cases = extra + cases + rnd        # the systematic multi-step histories first, random cases last
    for i in range(0, len(cases), 400):
        evaluate(ctx, cases[i:i + 400])

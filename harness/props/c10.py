"""
C10 — symmetry-operator strings are parsed and printed exactly.

Streams (DESIGN 3.2):
  parse      SymmetryElement([c0, c1, c2]).matrix[i, j] / .trans[i]     vs  model `parseComp`, spec `denote`   (theorem parse_denote)
  card       Shelxfile.read_string with SYMM lines -> symmcards          vs  model `symmCard` + `parseComp`, spec `denote` (card_components)
  roundtrip  SymmetryElement(op.to_shelxl().split(',')) against op       vs  model `toShelxl`/`parseComp`              (print_parse_id)
  eq         a == b                                                      vs  model `eqModel`, spec `LatticeEq`         (eq_iff_mod_lattice)
  hist       histories on a pool of operator OBJECTS, however they were made: parsed (also with centric=True), read off
             `symmcards` of a file with any LATT, derived with apply_latt_symm() from any object (also from derived ones),
             re-parsed from their own text, with printing/comparing (to_shelxl, repr, str, to_cif, ==) between any two
             steps. After every step every object must still be the operator it has to be; at the end every object must
             survive print -> parse and every pair must compare as the lattice rule says (==, != , both directions).
                                                                          vs  model `runModel`, spec `specRun`/`LatticeEq`
                                                                              (history_refines, history_roundtrip)
Observed: matrix entries, translations (1e-12 against the exact rational), the truth value of `==` / `!=`.
Not observed: printed text as such, exception classes and messages, hashes, `centric`, `ID`, `symms`.
"""
import itertools
from fractions import Fraction

from .. import core

AXES = 'xyz'
TOL = 1e-12


# ------------------------------------------------------------------------------------------------
# the grammar (Python side; independent of the Lean `print`: the driver confirms that both agree)

def frac(n, d):
    return dict(t='frac', n=[int(c) for c in str(n)], d=[int(c) for c in str(d)])


def dec(text):
    """'0.25' '.5' '1.5' '1' (as written)"""
    if '.' in text:
        ip, fp = text.split('.')
        return dict(t='dec', ip=[int(c) for c in ip], fp=[int(c) for c in fp])
    return dict(t='int', ip=[int(c) for c in text])


def num_text(v):
    j = lambda ds: ''.join(str(d) for d in ds)
    if v['t'] == 'frac':
        return j(v['n']) + '/' + j(v['d'])
    if v['t'] == 'int':
        return j(v['ip'])
    return j(v['ip']) + '.' + j(v['fp'])


def num_value(v):
    j = lambda ds: int(''.join(str(d) for d in ds) or '0')
    if v['t'] == 'frac':
        return Fraction(j(v['n']), j(v['d']))
    if v['t'] == 'int':
        return Fraction(j(v['ip']))
    return Fraction(j(v['ip'])) + Fraction(j(v['fp']), 10 ** len(v['fp']))


def item_text(it):
    return it['s'] + (it['a'].upper() if it['k'] == 't' else num_text(it['num']))


def canonical(items):
    return ''.join(item_text(i) for i in items)


def reference(items):
    """what the component denotes (exact): coefficients of x, y, z and the translation"""
    m = [0, 0, 0]
    t = Fraction(0)
    for it in items:
        sg = -1 if it['s'] == '-' else 1
        if it['k'] == 't':
            m[AXES.index(it['a'])] += sg
        else:
            t += sg * num_value(it['num'])
    return m, t


def layout(rng, text, mode):
    """blanks anywhere, letters in either case"""
    if mode == 'canonical':
        return text
    out = []
    for ch in text:
        if mode in ('blanks', 'both') and rng.random() < 0.35:
            out.append(' ' * rng.randint(1, 2))
        if mode in ('lower', 'both') and ch.isalpha() and rng.random() < (1.0 if mode == 'lower' else 0.6):
            ch = ch.lower()
        out.append(ch)
    if mode in ('blanks', 'both') and rng.random() < 0.3:
        out.append(' ')
    return ''.join(out)


BOUNDED_NUMS = [frac(n, d) for d in (2, 3, 4, 6, 8, 12) for n in range(1, d)] + \
               [frac(3, 2), frac(4, 3), frac(5, 4), frac(13, 12)] + \
               [dec(s) for s in ('0.5', '.5', '0.25', '0.75', '0.125', '0.375', '1.5', '0.3333', '0.6667', '0.16667',
                                 '0.83333', '0.0', '1', '2', '1.0', '0.05')]


def term_orders():
    for k in range(4):
        for axes in itertools.permutations(AXES, k):
            yield axes


def bounded_grammar():
    """every component of the quantifier's bounded grammar: a subset of signed x,y,z in any order, an optional
    translation from BOUNDED_NUMS before, after or between the terms, every choice of signs ('' only in front)"""
    for axes in term_orders():
        k = len(axes)
        placements = [None] + list(range(k + 1))
        for pos in placements:
            nums = [None] if pos is None else BOUNDED_NUMS
            n_items = k + (0 if pos is None else 1)
            if n_items == 0:
                continue
            sign_sets = [('', '+', '-')] + [('+', '-')] * (n_items - 1)
            for num in nums:
                for signs in itertools.product(*sign_sets):
                    items = []
                    ax = list(axes)
                    for idx in range(n_items):
                        if pos is not None and idx == pos:
                            items.append(dict(k='n', s=signs[idx], num=num))
                        else:
                            items.append(dict(k='t', s=signs[idx], a=ax.pop(0)))
                    yield items


def random_component(rng):
    """beyond the bounded table: numerals of any length (the theorem is not bounded)"""
    axes = rng.sample(AXES, rng.randint(0, 3))
    items = [dict(k='t', s='', a=a) for a in axes]
    r = rng.random()
    if r < 0.85 or not items:
        if rng.random() < 0.5:
            d = rng.choice([2, 3, 4, 5, 6, 7, 8, 9, 10, 12, 16, 24, 48, 96, 100, 360, 999])
            n = rng.randint(0, 3 * d)
            v = frac(n, d)
            if rng.random() < 0.1:
                v['n'] = [0] + v['n']
                v['d'] = [0] + v['d']
        else:
            ip = rng.choice(['0', '', '1', '2', '00', '12'])
            fp = ''.join(rng.choice('0123456789') for _ in range(rng.randint(1, 6)))
            v = dec(ip + '.' + fp)
        items.insert(rng.randint(0, len(items)), dict(k='n', s='', num=v))
    for i, it in enumerate(items):
        it['s'] = rng.choice(['', '+', '-'] if i == 0 else ['+', '-'])
    return items


def klass(items):
    """input class for signatures / distribution"""
    nums = [i for i, it in enumerate(items) if it['k'] == 'n']
    k = len(items) - len(nums)
    if not nums:
        return f'terms={k}|trans=none'
    p = nums[0]
    where = 'only' if k == 0 else 'before' if p == 0 else 'after' if p == len(items) - 1 else 'between'
    it = items[p]
    sg = {'': 'bare', '+': 'plus', '-': 'minus'}[it['s']]
    return f'terms={k}|trans={it["num"]["t"]}|{where}|tsign={sg}'


# ------------------------------------------------------------------------------------------------
# implementation side

def observe_op(op):
    """the property's observables of a SymmetryElement (an entry that cannot be read is None)"""
    def get(f):
        try:
            return f()
        except Exception:  # noqa
            return None
    m = [[get(lambda: op.matrix[i, j]) for j in range(3)] for i in range(3)]
    t = [get(lambda: op.trans[i]) for i in range(3)]
    return m, t


def build(strings):
    from shelxfile.misc.dsrmath import SymmetryElement
    try:
        return SymmetryElement(list(strings)), None
    except Exception as e:  # noqa
        return None, type(e).__name__


def read_symm_file(lines):
    """a minimal valid file with the given SYMM lines; returns the operators after the identity"""
    from shelxfile import Shelxfile
    text = '\n'.join(['TITL c10', 'CELL 0.71073 10.0 11.0 12.0 90 95 90', 'ZERR 4 0.001 0.001 0.001 0 0.01 0', 'LATT -1'] +
                     list(lines) + ['SFAC C H', 'UNIT 4 4', 'FVAR 1.0', 'C1 1 0.1 0.2 0.3 11.0 0.03', 'HKLF 4', 'END']) + '\n'
    shx = Shelxfile()
    try:
        shx.read_string(text)
        ops = list(shx.symmcards)[1:]
    except Exception as e:  # noqa
        return None, type(e).__name__
    return ops, None


def row_matches(m_row, t, want_m, want_t):
    if t is None or isinstance(t, bool) or any(x is None for x in m_row):
        return False
    try:
        ok_m = all(float(a) == float(b) for a, b in zip(m_row, want_m)) and len(m_row) == 3
        return ok_m and core.close(float(t), want_t, TOL, 0)
    except (TypeError, ValueError):
        return False


def mod1_close(a, b):
    d = float(a) - float(b)
    return abs(d - round(d)) < 1e-9


# ------------------------------------------------------------------------------------------------
# evaluation

def evaluate(ctx, cases, stream=None):
    by = {}
    for c in cases:
        by.setdefault(c.get('stream', stream or 'parse'), []).append(c)
    if 'parse' in by:
        eval_parse(ctx, by['parse'])
    if 'card' in by:
        eval_card(ctx, by['card'])
    if 'roundtrip' in by:
        eval_roundtrip(ctx, by['roundtrip'])
    if 'eq' in by:
        eval_eq(ctx, by['eq'])
    if 'hist' in by:
        eval_hist(ctx, by['hist'])


def driver_components(ctx, comps):
    """comps: list of dict(text=…, items=…) -> driver answers; checks that the generator stayed inside the grammar"""
    ans = ctx.driver.batch([dict(p='C10', op='parse', s=c['text'], items=c['items']) for c in comps])
    for c, r in zip(comps, ans):
        m, t = reference(c['items'])
        if not (r['valid'] and r['shelxl'] and r['in_layout']) or r['print'] != canonical(c['items']) or \
                r['spec']['m'] != m or r['spec']['t'] != t:
            raise core.LeanError(f'harness error: generated component outside the grammar or spec disagrees with the '
                                 f'reference: {c} -> {r}')
    return ans


def check_row(ctx, stream, case, comp, got_m, got_t, r, via):
    """one parsed component against spec (property) and model (correspondence)"""
    cls = klass(comp['items'])
    spec_m, spec_t = r['spec']['m'], r['spec']['t']
    payload = dict(case=case, stream=stream, component=comp['text'], expected=dict(m=spec_m, t=str(spec_t)),
                   actual=dict(m=got_m, t=got_t), model=r['model'] if not r['model']['ok'] else
                   dict(m=r['model']['m'], t=str(r['model']['t'])))
    if not row_matches(got_m, got_t, spec_m, float(spec_t)):
        try:
            what = 'matrix' if [float(x) for x in got_m] != [float(x) for x in spec_m] else 'trans'
        except (TypeError, ValueError):
            what = 'matrix'
        ctx.fail(f'C10|{stream}|{cls}|{what}', f'{via}: component {comp["text"]!r} parsed to row {got_m} + {got_t}, '
                                               f'denotes {spec_m} + {spec_t}', payload)
    elif not r['model']['ok'] or not row_matches(got_m, got_t, r['model']['m'], float(r['model']['t'])):
        ctx.fail(f'C10|{stream}|{cls}|model', f'{via}: component {comp["text"]!r}: implementation {got_m} + {got_t} '
                                              f'differs from the model {r["model"]}', payload, kind='correspondence')


def eval_parse(ctx, cases):
    ctx.stream('parse')
    comps = [c for case in cases for c in case['comps']]
    ans = driver_components(ctx, comps)
    k = 0
    for case in cases:
        rs = ans[k:k + 3]
        k += 3
        op, exc = build([c['text'] for c in case['comps']])
        for i, (comp, r) in enumerate(zip(case['comps'], rs)):
            cls = klass(comp['items'])
            ctx.count(['parse', comp['text']], nontrivial=len(comp['items']) > 1,
                      tags=[cls, 'layout=' + comp.get('layout', '?')],
                      sample=dict(stream='parse', text=comp['text'], spec=[r['spec']['m'], str(r['spec']['t'])]))
        if op is None:
            # find the component that raises on its own (the others replaced by plain letters)
            culprits = []
            for i, comp in enumerate(case['comps']):
                trial = ['X', 'Y', 'Z']
                trial[i] = comp['text']
                if build(trial)[0] is None:
                    culprits.append((i, comp))
            for i, comp in culprits or [(0, case['comps'][0])]:
                ctx.fail(f'C10|parse|{klass(comp["items"])}|raise', f'SymmetryElement raises {exc} on component {comp["text"]!r} '
                         f'(denotes {rs[i]["spec"]["m"]} + {rs[i]["spec"]["t"]})',
                         dict(case=case, stream='parse', component=comp['text'], expected=dict(m=rs[i]['spec']['m'], t=str(rs[i]['spec']['t'])),
                              actual=f'raise {exc}', model=str(rs[i]['model'])))
            continue
        m, t = observe_op(op)
        for i, (comp, r) in enumerate(zip(case['comps'], rs)):
            check_row(ctx, 'parse', case, comp, m[i], t[i], r, 'SymmetryElement')


def eval_card(ctx, cases):
    ctx.stream('card')
    all_ans = driver_components(ctx, [c for case in cases for line in case['lines'] for c in line['comps']])
    all_cards = ctx.driver.batch([dict(p='C10', op='card', line=line['text']) for case in cases for line in case['lines']])
    pos = 0
    for case in cases:
        nl = len(case['lines'])
        ans = all_ans[3 * pos:3 * (pos + nl)]
        cards = all_cards[pos:pos + nl]
        pos += nl
        ops, exc = read_symm_file([line['text'] for line in case['lines']])
        for li, line in enumerate(case['lines']):
            rs = ans[3 * li:3 * li + 3]
            ctx.count(['card', line['text']], nontrivial=True, tags=['card', 'kw=' + line['text'][:4]],
                      sample=dict(stream='card', line=line['text']))
            one = dict(stream='card', lines=[line])
            if ops is None or len(ops) != len(case['lines']):
                # which line is it? replay each alone
                if len(case['lines']) > 1:
                    eval_card(ctx, [one])
                else:
                    ctx.fail(f'C10|card|{"raise" if ops is None else "count"}', f'reading {line["text"]!r}: '
                             f'{"raises " + str(exc) if ops is None else "gives %d operators" % len(ops)}',
                             dict(case=one, stream='card', expected=[[r['spec']['m'], str(r['spec']['t'])] for r in rs], actual=exc))
                continue
            m, t = observe_op(ops[li])
            model = cards[li]
            for i, (comp, r) in enumerate(zip(line['comps'], rs)):
                r = dict(r)
                # the model of the card path: symmCard splits the line, parseComp reads each piece
                r['model'] = model['model'][i] if len(model['model']) == 3 else dict(ok=False, err='split')
                check_row(ctx, 'card', one, comp, m[i], t[i], r, f'SYMM line {line["text"]!r}')


def frac_json(q):
    q = Fraction(q)
    return dict(n=q.numerator, d=q.denominator)


def finite_decimal(q):
    d = Fraction(q).denominator
    while d % 2 == 0:
        d //= 2
    while d % 5 == 0:
        d //= 5
    return d == 1 and (q == 0 or 1e-4 <= abs(q) < 1e15) and len(str(float(q))) < 16


def eval_roundtrip(ctx, cases):
    ctx.stream('roundtrip')
    comps = [c for case in cases for c in case['comps']]
    ans = driver_components(ctx, comps)
    k = 0
    pending = []   # (case, cls, rows, printed, payload, index of first 'parse' request, index of 'print' request or None)
    reqs = []
    for case in cases:
        rs = ans[k:k + 3]
        k += 3
        texts = [c['text'] for c in case['comps']]
        rows = [(r['spec']['m'], r['spec']['t']) for r in rs]
        cls = 'den=' + str(max(t.denominator for _, t in rows)) + ('|neg' if any(t < 0 for _, t in rows) else '')
        ctx.count(['roundtrip', texts], nontrivial=any(t != 0 for _, t in rows), tags=['roundtrip', cls],
                  sample=dict(stream='roundtrip', op=texts))
        op, exc = build(texts)
        if op is None:
            continue  # reported by the parse stream
        payload = dict(case=case, stream='roundtrip', expected=[[m, str(t)] for m, t in rows])
        try:
            printed = op.to_shelxl()
            op2, exc2 = build(printed.split(','))
        except Exception as e:  # noqa
            printed, op2, exc2 = None, None, type(e).__name__
        if op2 is None:
            ctx.fail(f'C10|roundtrip|{cls}|raise', f'operator {texts} printed as {printed!r} cannot be parsed back ({exc2})',
                     dict(payload, actual=f'{printed!r}: raise {exc2}'))
            continue
        m1, t1 = observe_op(op)
        m2, t2 = observe_op(op2)
        same = all(row_matches(m2[i], t2[i], m1[i], float(t1[i] or 0)) for i in range(3))
        try:
            eq = bool(op2 == op)
        except Exception as e:  # noqa
            eq = f'raise {type(e).__name__}'
        if not same or eq is not True:
            ctx.fail(f'C10|roundtrip|{cls}|{"differs" if not same else "not=="}',
                     f'operator {texts} printed as {printed!r} parses back to {m2} + {t2} (was {m1} + {t1}); == gives {eq}',
                     dict(payload, actual=dict(printed=printed, m=m2, t=t2, eq=eq)))
            continue
        pieces = printed.split(',')
        if set(printed) - MODEL_ALPHABET:
            # str(float) of |t| < 1e-4 is in exponent notation ('-8.4e-05-X'): outside the alphabet on which float() is
            # modelled; the implementation's own round trip has been checked above
            continue
        i_parse = len(reqs)
        reqs += [dict(p='C10', op='parse', s=s) for s in pieces]
        i_print = None
        if all(finite_decimal(t) for _, t in rows):
            i_print = len(reqs)
            reqs.append(dict(p='C10', op='print', rows=[dict(m=m, t=frac_json(t)) for m, t in rows]))
        pending.append((cls, rows, printed, payload, i_parse, len(pieces), i_print))
    out = ctx.driver.batch(reqs) if reqs else []
    for cls, rows, printed, payload, i_parse, n, i_print in pending:
        # correspondence 1: the model's parser reads the implementation's text to the same rows
        back = out[i_parse:i_parse + n]
        ok = n == 3 and all(b['model']['ok'] and row_matches(b['model']['m'], float(b['model']['t']), rows[i][0], float(rows[i][1]))
                            for i, b in enumerate(back))
        if not ok:
            ctx.fail(f'C10|roundtrip|{cls}|model-parse', f'the model does not read the printed text {printed!r} as {rows}',
                     dict(payload, actual=printed, model=str(back)), kind='correspondence')
        # correspondence 2: the model's text (exact decimals only) is read by the implementation to the same rows
        if i_print is not None:
            r = out[i_print]
            op3, exc3 = build(r['text'].split(','))
            ok = op3 is not None
            if ok:
                m3, t3 = observe_op(op3)
                ok = all(row_matches(m3[i], t3[i], rows[i][0], float(rows[i][1])) for i in range(3))
            if not ok:
                ctx.fail(f'C10|roundtrip|{cls}|model-print', f'the implementation does not read the model text {r["text"]!r} as {rows}',
                         dict(payload, actual=str(exc3), model=r['text']), kind='correspondence')


def eq_strings(case, which):
    """the three component strings of operator a / b of an eq case"""
    out = []
    for i in range(3):
        q = Fraction(*case[which][i])
        letters = case['letters_b'][i] if which == 'b' else case['letters_a'][i]
        if q == 0 and letters:
            out.append(letters)
        elif case.get('decimal') and finite_decimal(q):
            out.append(f'{float(q)!r}{("" if letters.startswith("-") else "+") + letters if letters else ""}')
        else:
            head = f'{q.numerator}/{q.denominator}' if q.denominator != 1 else f'{q.numerator}'
            out.append(head + (('' if letters.startswith('-') else '+') + letters if letters else ''))
    return out


LETTER_ROWS = {'X': [1, 0, 0], '-X': [-1, 0, 0], 'Y': [0, 1, 0], '-Y': [0, -1, 0], 'Z': [0, 0, 1], '-Z': [0, 0, -1],
               'X-Y': [1, -1, 0], '-X+Y': [-1, 1, 0], '': [0, 0, 0]}


def eval_eq(ctx, cases):
    ctx.stream('eq')
    reqs = []
    for case in cases:
        a = [dict(m=LETTER_ROWS[case['letters_a'][i]], t=frac_json(Fraction(*case['a'][i]))) for i in range(3)]
        b = [dict(m=LETTER_ROWS[case['letters_b'][i]], t=frac_json(Fraction(*case['b'][i]))) for i in range(3)]
        reqs.append(dict(p='C10', op='eq', a=a, b=b))
    ans = ctx.driver.batch(reqs)
    for case, r in zip(cases, ans):
        sa, sb = eq_strings(case, 'a'), eq_strings(case, 'b')
        diffs = [Fraction(*case['a'][i]) - Fraction(*case['b'][i]) for i in range(3)]
        same_m = case['letters_a'] == case['letters_b']
        den = max(Fraction(*q).denominator for q in case['a'] + case['b'])
        want = 'equal' if r['spec'] else 'differ'
        kind = 'matrix' if not same_m else 'lattice' if r['spec'] else 'fraction'
        neg = '|neg' if any(Fraction(*q) < 0 for q in case['a'] + case['b']) else ''
        ctx.count(['eq', sa, sb], nontrivial=same_m and any(d != 0 for d in diffs), tags=['eq', f'must-{want}', f'den={den}', kind, 'eq-frac-comps=%d' % sum(1 for d in diffs if d.denominator != 1)],
                  sample=dict(stream='eq', a=sa, b=sb, spec=r['spec']))
        oa, ea = build(sa)
        ob, eb = build(sb)
        if oa is None or ob is None:
            continue  # parse stream's business
        nfrac = sum(1 for d in diffs if d.denominator != 1)
        payload = dict(case=case, stream='eq', a=sa, b=sb, expected=r['spec'], model=r['model'])
        for direction, (p, q, x, y) in (('', (oa, ob, sa, sb)), ('|reversed', (ob, oa, sb, sa))):
            try:
                got = bool(p == q)
            except Exception as e:  # noqa
                got = f'raise {type(e).__name__}'
            if got != r['spec']:
                ctx.fail(f'C10|eq|must-{want}|{kind}|ncomp={nfrac}|den={den}{neg}{direction}',
                         f'{x} == {y} gives {got}; the translations differ by {[str(d) for d in diffs]} '
                         f'({nfrac} component(s) not by a whole number), matrices {"equal" if same_m else "different"}: '
                         f'must be {r["spec"]}', dict(payload, actual=got))
                break
            elif got != r['model']:
                ctx.fail(f'C10|eq|must-{want}|{kind}|ncomp={nfrac}|den={den}{neg}{direction}|model',
                         f'{x} == {y}: implementation {got}, model {r["model"]}', dict(payload, actual=got), kind='correspondence')
                break


# ------------------------------------------------------------------------------------------------
# histories on operator objects (stream `hist`)

OBSERVATIONS = ('to_shelxl', 'repr', 'str', 'to_cif', 'eq')
MODEL_ALPHABET = set('0123456789./+-XYZxyz, ')
EQ_DEN_LIMIT = 10 ** 8      # eq_iff_mod_lattice: translations on a grid 1/N with tol * N <= 1 (tol = 1e-9)


def snap(x):
    """the exact rational that a float read off a library-made operator stands for (None: not recognisable)"""
    try:
        q = Fraction(float(x)).limit_denominator(10 ** 6)
    except (TypeError, ValueError, OverflowError):
        return None
    return q if abs(float(q) - float(x)) < 1e-13 else None


def observe_exact(op):
    """matrix entries (must be -1, 0, 1) and translations as exact rationals, or None"""
    m, t = observe_op(op)
    try:
        mi = [[int(v) for v in row] for row in m]
        if any(float(v) != w or w not in (-1, 0, 1) for row, ri in zip(m, mi) for v, w in zip(row, ri)):
            return None
    except (TypeError, ValueError):
        return None
    ts = [snap(x) for x in t]
    if any(x is None for x in ts):
        return None
    return mi, ts


def symm_file_text(latt, lines):
    return '\n'.join(['TITL c10', 'CELL 0.71073 10.0 11.0 12.0 90 95 90', 'ZERR 4 0.001 0.001 0.001 0 0.01 0', f'LATT {latt}'] +
                     list(lines) + ['SFAC C H', 'UNIT 4 4', 'FVAR 1.0', 'C1 1 0.1 0.2 0.3 11.0 0.03', 'HKLF 4', 'END']) + '\n'


def observe_fast(op):
    """observe_op without the per-entry guards (same values; falls back to the guarded form when anything is odd)"""
    try:
        m, t = op.matrix, op.trans
        return [[m[i, j] for j in range(3)] for i in range(3)], [t[0], t[1], t[2]]
    except Exception:  # noqa
        return observe_op(op)


def safe(f):
    try:
        return f()
    except Exception as e:  # noqa
        return f'raise {type(e).__name__}'


def short_prov(p):
    """provenance of the source inside the provenance of a derived object, kept to one level"""
    return p if '(' not in p else p[:p.index('(')] + '(..)'


def run_history(case):
    """executes the calls of one history on the real objects; everything that is compared later is recorded as plain data"""
    from shelxfile import Shelxfile
    from shelxfile.misc.dsrmath import SymmetryElement
    pool, prov, printed, prog, text, trouble, timeline, kinds = [], [], [], [], [], [], [], []

    def add(obj, how, request, line):
        text.append(f'o{len(pool)} = {line}')
        pool.append(obj)
        prov.append(how)
        printed.append(False)
        prog.append(request)

    for si, st in enumerate(case['steps']):
        k = st['k']
        kind = k
        try:
            if k == 'parse':
                texts = [c['text'] for c in st['comps']]
                cen = bool(st.get('centric'))
                obj = SymmetryElement(texts, centric=True) if cen else SymmetryElement(texts)
                add(obj, 'centric' if cen else 'parsed', dict(k='parse', s=texts, items=[c['items'] for c in st['comps']], centric=cen),
                    f'SymmetryElement({texts!r}{", centric=True" if cen else ""})')
            elif k == 'file':
                shx = Shelxfile()
                shx.read_string(symm_file_text(st['latt'], [ln['text'] for ln in st['lines']]))
                for n, op in enumerate(list(shx.symmcards)):
                    ex = observe_exact(op)
                    if ex is None:
                        trouble.append(dict(kind='unreadable', step=si, what=f'symmcards[{n}] of LATT {st["latt"]} + '
                                            f'{[ln["text"] for ln in st["lines"]]} has matrix/translation {observe_op(op)}'))
                        continue
                    add(op, 'file', dict(k='given', rows=[dict(m=ex[0][i], t=frac_json(ex[1][i])) for i in range(3)]),
                        f'symmcards[{n}] of a file with LATT {st["latt"]} and {[ln["text"] for ln in st["lines"]]}')
            elif pool:
                i = st['i'] % len(pool)
                if k == 'latt':
                    j = st['j'] % len(pool)
                    obj = pool[i].apply_latt_symm(pool[j])
                    add(obj, f'latt({short_prov(prov[i])})' + ('+printed' if printed[i] else ''), dict(k='latt', i=i, j=j),
                        f'o{i}.apply_latt_symm(o{j})')
                elif k == 'reparse':
                    obj = SymmetryElement(pool[i].to_shelxl().split(','))
                    src_printed = printed[i]
                    printed[i] = True
                    add(obj, f'reparse({short_prov(prov[i])})' + ('+printed' if src_printed else ''), dict(k='reparse', i=i),
                        f"SymmetryElement(o{i}.to_shelxl().split(','))")
                else:
                    how = st['how']
                    kind = 'observe:' + how
                    if how == 'to_shelxl':
                        pool[i].to_shelxl()
                        printed[i] = True
                        text.append(f'o{i}.to_shelxl()')
                    elif how == 'repr':
                        repr(pool[i])
                        printed[i] = True
                        text.append(f'repr(o{i})')
                    elif how == 'str':
                        str(pool[i])
                        text.append(f'str(o{i})')
                    elif how == 'to_cif':
                        pool[i].to_cif()
                        text.append(f'o{i}.to_cif()')
                    else:
                        j = st.get('j', 0) % len(pool)
                        pool[i] == pool[j]  # noqa
                        pool[i] != pool[j]  # noqa
                        text.append(f'o{i} == o{j}; o{i} != o{j}')
                    prog.append(dict(k='observe', i=i))
        except Exception as e:  # noqa
            trouble.append(dict(kind='raise', step=si, k=kind, what=f'step {si} ({kind}) raises {type(e).__name__}: {e}'))
            break  # what follows has no meaning without this object
        kinds.append(kind)
        timeline.append([observe_fast(o) for o in pool])
    # the end of every history: each object through print -> parse, and every pair compared
    final = []
    for o in pool:
        rec = dict(printed=None)
        try:
            rec['printed'] = o.to_shelxl()
            back = SymmetryElement(rec['printed'].split(','))
            rec.update(back=observe_op(back), eq1=safe(lambda: bool(back == o)), eq2=safe(lambda: bool(o == back)),
                       ne=safe(lambda: bool(back != o)))
        except Exception as e:  # noqa
            rec['raise'] = type(e).__name__
        final.append(rec)
    eqm = [[safe(lambda: bool(a == b)) for b in pool] for a in pool]
    nem = [[safe(lambda: bool(a != b)) if ia <= ib else None for ib, b in enumerate(pool)] for ia, a in enumerate(pool)]
    after = [observe_fast(o) for o in pool]
    return dict(n=len(pool), prov=prov, prog=prog, text=text, trouble=trouble, timeline=timeline, kinds=kinds, final=final,
                eqm=eqm, nem=nem, after=after)


def rows_match(obs, rows):
    m, t = obs
    return all(row_matches(m[i], t[i], rows[i]['m'], float(rows[i]['t'])) for i in range(3))


def hist_collect(ctx, cases):
    """for every history: the list of (signature, what, payload, kind) of everything that is not as the property says"""
    runs = [run_history(c) for c in cases]
    ans = ctx.driver.batch([dict(p='C10', op='hist', steps=h['prog']) for h in runs])
    out = []
    texts = []      # (case index, object index) -> request index of the model's reading of the printed text
    reqs = []
    for ci, (case, h, r) in enumerate(zip(cases, runs, ans)):
        fails = []
        out.append(fails)
        if not (r['in_grammar'] and r['spec']['ok']):
            raise core.LeanError(f'harness error: generated history outside the grammar: {h["prog"]} -> {r}')
        spec = r['spec']['pool']
        if not r['model']['ok'] or r['model']['pool'] != spec:
            raise core.LeanError(f'model and specification differ inside the hypotheses of history_refines: {h["prog"]} -> {r}')
        n = h['n']
        base = dict(case=case, stream='hist', history=h['text'])
        show = lambda k: [[row['m'], str(row['t'])] for row in spec[k]]
        for t in h['trouble']:
            if t['kind'] == 'raise':
                fails.append((f'C10|hist|raise|{t["k"]}', t['what'] + ' in the history ' + '; '.join(h['text']),
                              dict(base, actual=t['what']), 'property'))
            else:
                fails.append(('C10|hist|file|unreadable-operator', t['what'], dict(base, actual=t['what']), 'property'))
        # 1. every object is, and stays, the operator it has to be
        bad = set()
        snaps = list(zip(h['kinds'], h['timeline'])) + [('final-observation', h['after'])]
        verified = {}
        for si, (kind, snapshot) in enumerate(snaps):
            for k, obs in enumerate(snapshot):
                if k in bad or verified.get(k) == obs:
                    continue
                if rows_match(obs, spec[k]):
                    verified[k] = obs
                    continue
                bad.add(k)
                fresh = k >= (len(snaps[si - 1][1]) if si else 0)
                if fresh:
                    fails.append((f'C10|hist|value|{h["prov"][k]}', f'o{k} is {obs}, '
                                  f'has to be {show(k)}; history: ' + '; '.join(h['text']),
                                  dict(base, object=k, expected=show(k), actual=obs, model=str(r['model']['pool'][k])), 'property'))
                else:
                    fails.append((f'C10|hist|changed|{h["prov"][k]}|by={kind}', f'o{k} was {show(k)} and is {obs} after step {si} ({kind}); '
                                  f'history: ' + '; '.join(h['text']),
                                  dict(base, object=k, expected=show(k), actual=obs, model=str(r['model']['pool'][k])), 'property'))
        # 2. print -> parse gives the same operator
        for k, rec in enumerate(h['final']):
            if k in bad:
                continue
            if 'raise' in rec or 'back' not in rec:
                fails.append((f'C10|hist|roundtrip|{h["prov"][k]}|raise', f'o{k} printed as {rec["printed"]!r} cannot be parsed back '
                              f'({rec.get("raise")}); history: ' + '; '.join(h['text']), dict(base, object=k, expected=show(k),
                                                                                              actual=f'raise {rec.get("raise")}'), 'property'))
                continue
            same = rows_match(rec['back'], spec[k])
            if not same or rec['eq1'] is not True or rec['eq2'] is not True or rec['ne'] is not False:
                why = 'differs' if not same else 'not=='
                fails.append((f'C10|hist|roundtrip|{h["prov"][k]}|{why}',
                              f'o{k} = {show(k)} printed as {rec["printed"]!r} parses back to {rec["back"]}; parsed == o{k}: {rec["eq1"]}, '
                              f'o{k} == parsed: {rec["eq2"]}, parsed != o{k}: {rec["ne"]}; history: ' + '; '.join(h['text']),
                              dict(base, object=k, expected=show(k), actual=dict(printed=rec['printed'], back=rec['back'], eq=[rec['eq1'], rec['eq2']],
                                                                                 ne=rec['ne'])), 'property'))
                continue
            pieces = rec['printed'].split(',')
            if set(rec['printed']) - MODEL_ALPHABET:
                # e.g. '-1.1102230246251565e-16+X' (float noise of a sum, or |t| < 1e-4): str(float) in exponent notation is
                # outside the alphabet on which float() is modelled; the implementation's own round trip was checked above
                continue
            texts.append((ci, k, len(reqs), len(pieces)))
            reqs += [dict(p='C10', op='parse', s=piece) for piece in pieces]
        # 3. every pair compares as the lattice rule says
        seen = set()
        maxden = [max(row['t'].denominator for row in op) for op in spec]
        for a in range(n):
            for b in range(n):
                if a in bad or b in bad:
                    continue
                if maxden[a] * maxden[b] > EQ_DEN_LIMIT and \
                        any((x['t'] - y['t']).denominator > EQ_DEN_LIMIT for x, y in zip(spec[a], spec[b])):
                    continue
                want = r['spec']['eq'][a][b]
                if want != r['model']['eq'][a][b]:
                    raise core.LeanError(f'eqModel and LatticeEq differ inside the hypotheses: {spec[a]} {spec[b]}')
                got, gotne = h['eqm'][a][b], h['nem'][a][b]      # `!=` is asked for a <= b only
                if got == want and gotne in (None, not want):
                    continue
                sig = f'C10|hist|eq|must-{"equal" if want else "differ"}|{h["prov"][a]}~{h["prov"][b]}' + ('' if got != want else '|ne')
                if sig in seen:
                    continue
                seen.add(sig)
                fails.append((sig, f'o{a} == o{b} gives {got}, o{a} != o{b} gives {gotne}; o{a} = {show(a)}, o{b} = {show(b)}: '
                              f'must be {"equal" if want else "different"}; history: ' + '; '.join(h['text']),
                              dict(base, objects=[a, b], expected=want, actual=dict(eq=got, ne=gotne), model=r['model']['eq'][a][b]), 'property'))
    # correspondence: the model's parser reads the text the implementation printed as the same operator
    back = ctx.driver.batch(reqs) if reqs else []
    for ci, k, at, npieces in texts:
        spec = ans[ci]['spec']['pool']
        got = back[at:at + npieces]
        ok = npieces == 3 and all(b['model']['ok'] and row_matches(b['model']['m'], float(b['model']['t']), spec[k][i]['m'], float(spec[k][i]['t']))
                                  for i, b in enumerate(got))
        if not ok:
            h = runs[ci]
            out[ci].append((f'C10|hist|roundtrip|{h["prov"][k]}|model-parse',
                            f'the model does not read the printed text {h["final"][k]["printed"]!r} of o{k} as {spec[k]}',
                            dict(case=cases[ci], stream='hist', history=h['text'], object=k, actual=h['final'][k]['printed'], model=str(got)),
                            'correspondence'))
    return out


def shrink_hist(ctx, case, sig, limit=60):
    """drops steps while the same signature keeps failing (indices are taken modulo the pool size, so every sub-history is one)"""
    steps = list(case['steps'])
    trials = 0
    i = len(steps) - 1
    while i >= 0 and trials < limit and len(steps) > 1:
        cand = steps[:i] + steps[i + 1:]
        trials += 1
        try:
            got = hist_collect(ctx, [dict(case, steps=cand)])[0]
        except core.LeanError:
            got = []
        if any(f[0] == sig for f in got):
            steps = cand
        i -= 1
    return dict(case, steps=steps)


def hist_tags(case):
    tags = {'hist', 'hist-' + case.get('family', 'replay')}
    for st in case['steps']:
        tags.add('hist-step=' + (st['k'] if st['k'] != 'observe' else 'observe:' + st['how']))
        if st['k'] == 'file':
            tags.add(f'hist-file-latt={st["latt"]}')
        if st['k'] == 'parse' and st.get('centric'):
            tags.add('hist-centric')
    if 'latt' in case:
        tags.add(f'hist-latt={case["latt"]}')
    return sorted(tags)


def eval_hist(ctx, cases):
    ctx.stream('hist')
    reported = set()
    for at in range(0, len(cases), 500):
        chunk = cases[at:at + 500]
        for case, fails in zip(chunk, hist_collect(ctx, chunk)):
            key = [[st['k'], st.get('centric'), [c['text'] for c in st.get('comps', [])], st.get('latt'), [ln['text'] for ln in st.get('lines', [])],
                    st.get('i'), st.get('j'), st.get('how')] for st in case['steps']]
            ctx.count(['hist', key], nontrivial=any(st['k'] in ('latt', 'file') or st.get('centric') for st in case['steps']),
                      tags=hist_tags(case), sample=dict(stream='hist', steps=[st['k'] for st in case['steps']]))
            for sig, what, payload, kind in fails:
                if sig not in reported and sig not in ctx.known:
                    reported.add(sig)
                    small = shrink_hist(ctx, case, sig)
                    if small['steps'] != case['steps']:
                        again = [f for f in hist_collect(ctx, [small])[0] if f[0] == sig]
                        if again:
                            sig, what, payload, kind = again[0]
                ctx.fail(sig, what, payload, kind)


# ------------------------------------------------------------------------------------------------
# generation

def comp_of(rng, items, mode):
    text = layout(rng, canonical(items), mode)
    return dict(text=text, items=items, layout=mode)


FLIP = {'X': '-X', '-X': 'X', 'Y': '-Y', '-Y': 'Y', 'Z': '-Z', '-Z': 'Z', 'X-Y': '-X+Y', '-X+Y': 'X-Y'}


def eq_case_vec(rng, a, b, same_matrix=True, decimal=False):
    """operators with translations a and b (three Fractions each), the same letters unless same_matrix is False"""
    letters = [rng.choice(['X', '-X', 'X-Y', '-X+Y']), rng.choice(['Y', '-Y', 'X-Y']), rng.choice(['Z', '-Z'])]
    lb = list(letters)
    if not same_matrix:
        j = rng.randrange(3)
        lb[j] = FLIP[lb[j]]
    pr = lambda q: [q.numerator, q.denominator]
    return dict(stream='eq', a=[pr(Fraction(q)) for q in a], b=[pr(Fraction(q)) for q in b], letters_a=letters, letters_b=lb,
                decimal=decimal)


def eq_case(rng, k1, k2, den, row, same_matrix=True, decimal=False):
    """the translations differ by (k1 - k2)/den in one component, by whole numbers in the others"""
    others = [Fraction(rng.randint(-12, 24), 12) for _ in range(3)]
    a = list(others)
    b = [o + rng.choice([0, 0, 1, -1, 2]) for o in others]
    a[row] = Fraction(k1, den)
    b[row] = Fraction(k2, den)
    return eq_case_vec(rng, a, b, same_matrix, decimal)


def eq_case_diff(rng, diffs, den, same_matrix=True, decimal=False, shifts=True):
    """the translations differ by the vector `diffs` (plus random whole numbers): any number of components at once"""
    a = [Fraction(rng.randint(-den, 2 * den), den) for _ in range(3)]
    b = [x - Fraction(d) - (rng.choice([0, 0, 1, -1, 2, -3]) if shifts else 0) for x, d in zip(a, diffs)]
    if rng.random() < 0.5:
        a, b = b, a
    return eq_case_vec(rng, a, b, same_matrix, decimal)


def run(ctx):
    rng = ctx.rng
    ctx.rule = ('components of the bounded grammar (every order of every subset of signed x,y,z; translation none, n/d for d in '
                '{2,3,4,6,8,12}, decimals, integers; before, after or between the terms; every sign choice), enumerated exhaustively, '
                'each in canonical and in random blank/case layout, plus random components with numerals of any length; operators = '
                'triples of components; distinct by the component text (parse), SYMM line (card), triple (roundtrip), operator pair (eq); '
                'non-trivial = more than one item (parse), non-zero translation (roundtrip), equal matrices with different translations (eq); '
                'eq pairs: one-component differences k1/12 vs k2/12 and k/8 exhaustively, every difference VECTOR on the twelfths and eighths '
                'grids in [-1,1]^3 (several components at once, all sign combinations, cancelling sums) plus whole-number shifts, random mixed '
                'denominators; both directions a == b and b == a; histories on operator objects: 6 hand-written + random sources x '
                'centric x LATT 2..7 (every centring vector) x {nothing, to_shelxl, repr, str, to_cif, ==} before the copies are made, with '
                'copies of copies, whole-number shifts, re-parsed texts and a copy made after everything was printed; the `symmcards` of '
                'files with LATT +-1..7 and 0-2 SYMM lines followed by random calls; random histories of parse(centric)/apply_latt_symm/'
                're-parse/observe steps; distinct by the step list; non-trivial = has a derived, centric or file-made object')
    ctx.assumptions = ['translations compared at 1e-12 against the exact rational (the code computes float(n)/float(d))',
                       'eq: translations are multiples of 1/N with N <= 1e9 (hypothesis of eq_iff_mod_lattice for the tolerance 1e-9)',
                       'alphabet of the grammar only (hypothesis under which float()/eval are modelled); texts with exponent notation '
                       '(float noise of summed translations) are checked on the implementation only',
                       'hist: pairs whose exact translation difference has a denominator > 1e8 are not compared (same hypothesis)',
                       'hist: operators taken from symmcards are taken as given (which operators a file yields is C11)']
    thorough = ctx.tier == 'thorough' or ctx.escalated
    table = list(bounded_grammar())
    ctx.extra['bounded_grammar_components'] = len(table)
    ctx.exhaustive = True
    # histories on operator objects: the systematic ones before everything else (every source x centric x lattice x
    # observation made before the copies are derived; the operators every lattice type leaves in `symmcards`), the
    # random ones at the end
    hist_systematic, hist_random = hist_cases(ctx, table)
    evaluate(ctx, hist_systematic)
    modes = ['canonical', 'both'] + (['blanks', 'lower', 'both'] if thorough else [])
    comps = []
    for mode in modes:
        for items in table:
            comps.append(comp_of(rng, items, mode))
    for _ in range(ctx.budget(3000, 60000)):
        comps.append(comp_of(rng, random_component(rng), rng.choice(['canonical', 'blanks', 'lower', 'both'])))
    rng.shuffle(comps)
    while len(comps) % 3:
        comps.append(comp_of(rng, rng.choice(table), 'canonical'))
    cases = [dict(stream='parse', comps=comps[i:i + 3]) for i in range(0, len(comps), 3)]
    for i in range(0, len(cases), 5000):
        evaluate(ctx, cases[i:i + 5000])

    # SYMM lines in files
    cards = []
    pool = [c for c in comps if ',' not in c['text']]
    nlines = ctx.budget(1500, 20000)
    lines = []
    for i in range(nlines):
        cs = [rng.choice(pool) for _ in range(3)]
        kw = rng.choice(['SYMM', 'symm', 'Symm', 'SYMM'])
        sep = [rng.choice([',', ', ', ' ,', ' , ', ',  ']) for _ in range(2)]
        text = kw + rng.choice([' ', '  ', '   ']) + cs[0]['text'].strip() + sep[0] + cs[1]['text'] + sep[1] + cs[2]['text']
        lines.append(dict(text=text.rstrip(), comps=cs))
    for i in range(0, len(lines), 20):
        cards.append(dict(stream='card', lines=lines[i:i + 20]))
    evaluate(ctx, cards)

    # round trip of operators
    rts = []
    nice = [items for items in table if len(items) >= 2]
    for _ in range(ctx.budget(3000, 40000)):
        src = nice if rng.random() < 0.8 else [random_component(rng) for _ in range(3)]
        rts.append(dict(stream='roundtrip', comps=[comp_of(rng, rng.choice(src), 'canonical') for _ in range(3)]))
    for i in range(0, len(rts), 5000):
        evaluate(ctx, rts[i:i + 5000])

    # equality: all pairs k1/12, k2/12 with k in -24..24 (must-equal iff k1 = k2 mod 12), eighths, decimals, different matrices
    eqs = []
    for k1 in range(-24, 25):
        for k2 in range(-24, 25):
            eqs.append(eq_case(rng, k1, k2, 12, rng.randrange(3)))
    for k1 in range(-16, 17):
        for k2 in range(-16, 17):
            eqs.append(eq_case(rng, k1, k2, 8, rng.randrange(3), decimal=True))
    for _ in range(ctx.budget(500, 10000)):
        den = rng.choice([3, 6, 12, 5, 7, 10, 100, 24])
        k1 = rng.randint(-3 * den, 3 * den)
        k2 = k1 + den * rng.randint(-3, 3) if rng.random() < 0.6 else rng.randint(-3 * den, 3 * den)
        eqs.append(eq_case(rng, k1, k2, den, rng.randrange(3), same_matrix=rng.random() < 0.8))
    # differences in several components at once: every difference vector on the twelfths grid in [-1, 1]^3 (all sign
    # combinations; sums that are whole numbers or zero, e.g. (1/2,-1/2,0), (1/3,2/3,0), (1/3,1/3,1/3), (1/6,1/3,1/2);
    # whole-number vectors = must-equal with shifts in several components), each plus random whole numbers
    grid = range(-12, 13)
    for k0 in grid:
        for k1 in grid:
            for k2 in grid:
                eqs.append(eq_case_diff(rng, [Fraction(k0, 12), Fraction(k1, 12), Fraction(k2, 12)], 12))
    # the same on the eighths grid with decimal spelling, without extra shifts
    for k0 in range(-8, 9):
        for k1 in range(-8, 9):
            for k2 in range(-8, 9):
                eqs.append(eq_case_diff(rng, [Fraction(k0, 8), Fraction(k1, 8), Fraction(k2, 8)], 8, decimal=True, shifts=False))
    # other and mixed denominators; cancelling pairs/triples on purpose; different matrices with whole-number vectors
    for _ in range(ctx.budget(3000, 60000)):
        dens = [rng.choice([2, 3, 4, 5, 6, 7, 8, 10, 12, 24, 100]) for _ in range(3)]
        r = rng.random()
        if r < 0.35:        # two components cancel exactly (d, -d) or add up to a whole number (d, n - d)
            i, j = rng.sample(range(3), 2)
            d = Fraction(rng.randint(1, 3 * dens[i]), dens[i]) * rng.choice([1, -1])
            diffs = [Fraction(0)] * 3
            diffs[i] = d
            diffs[j] = rng.randint(-2, 2) - d
            if rng.random() < 0.3:
                diffs[3 - i - j] = Fraction(rng.randint(-2, 2))
        elif r < 0.55:      # three components add up to a whole number
            d0 = Fraction(rng.randint(-2 * dens[0], 2 * dens[0]), dens[0])
            d1 = Fraction(rng.randint(-2 * dens[1], 2 * dens[1]), dens[1])
            diffs = [d0, d1, rng.randint(-2, 2) - d0 - d1]
            rng.shuffle(diffs)
        elif r < 0.75:      # whole numbers in every component (must be equal unless the matrix differs)
            diffs = [Fraction(rng.randint(-3, 3)) for _ in range(3)]
        else:
            diffs = [Fraction(rng.randint(-2 * d, 2 * d), d) for d in dens]
        den = 1
        for d in diffs:
            den = den * d.denominator // __import__('math').gcd(den, d.denominator)
        eqs.append(eq_case_diff(rng, diffs, max(den, 2) if den <= 600 else 12, same_matrix=rng.random() < 0.85))
    for i in range(0, len(eqs), 10000):
        evaluate(ctx, eqs[i:i + 10000])

    evaluate(ctx, hist_random)


# ------------------------------------------------------------------------------------------------
# generation of histories

def T(a, sg=''):
    return dict(k='t', s=sg, a=a)


def NUM(num, sg=''):
    return dict(k='n', s=sg, num=num)


# operators written out by hand (items): identity, 2_1 screw, 3_1 screw, CIF-like spellings, negative translations
HIST_SOURCES = [
    [[T('x')], [T('y')], [T('z')]],
    [[T('x', '-')], [NUM(frac(1, 2)), T('y', '+')], [NUM(frac(1, 2)), T('z', '-')]],
    [[T('y', '-')], [T('x'), T('y', '-')], [NUM(frac(1, 3)), T('z', '+')]],
    [[NUM(frac(1, 4)), T('x', '-')], [NUM(frac(3, 4)), T('y', '+')], [T('z'), NUM(dec('0.25'), '+')]],
    [[T('x', '-'), T('y', '+')], [T('x', '-')], [T('z'), NUM(frac(2, 3), '+')]],
    [[NUM(dec('0.5')), T('z', '+')], [T('x', '-'), NUM(frac(5, 6), '-')], [T('y')]],
]

# the centring vectors of the SHELXL lattice types (LATT N, International Tables), independent of the code's table
CENTRINGS = {2: [(Fraction(1, 2), Fraction(1, 2), Fraction(1, 2))],
             3: [(Fraction(2, 3), Fraction(1, 3), Fraction(1, 3)), (Fraction(1, 3), Fraction(2, 3), Fraction(2, 3))],
             4: [(Fraction(0), Fraction(1, 2), Fraction(1, 2)), (Fraction(1, 2), Fraction(0), Fraction(1, 2)),
                 (Fraction(1, 2), Fraction(1, 2), Fraction(0))],
             5: [(Fraction(0), Fraction(1, 2), Fraction(1, 2))],
             6: [(Fraction(1, 2), Fraction(0), Fraction(1, 2))],
             7: [(Fraction(1, 2), Fraction(1, 2), Fraction(0))]}


def vector_items(rng, v):
    """a pure translation written as three components: fractions, or decimals where they are exact"""
    out = []
    for q in v:
        q = Fraction(q)
        sg = '-' if q < 0 else ''
        a = abs(q)
        if a.denominator == 1:
            num = dec(rng.choice([str(a.numerator), f'{a.numerator}.0']))
        elif finite_decimal(a) and rng.random() < 0.5:
            num = dec(repr(float(a)))
        else:
            num = frac(a.numerator, a.denominator)
        out.append([NUM(num, sg)])
    return out


def respell(items):
    """the same component written in another order (the first item moved to the end, e.g. '1/2+Y' -> '+Y+1/2')"""
    if len(items) < 2:
        return [dict(it, s=it['s'] or '+') for it in items]
    out = [dict(it) for it in items[1:] + items[:1]]
    for it in out[1:]:
        it['s'] = it['s'] or '+'
    return out


def parse_step(rng, triple, centric=False, mode='canonical'):
    return dict(k='parse', centric=centric, comps=[comp_of(rng, items, mode) for items in triple])


def systematic_history(rng, source, centric, latt, pre):
    """parse -> [observe] -> centred copies with every vector of the lattice -> print a copy -> copy of the copy ->
    whole-number shift -> re-parsed texts -> the first copy once more after everything has been printed"""
    vs = CENTRINGS[latt]
    nv = len(vs)
    steps = [parse_step(rng, source, centric, rng.choice(['canonical', 'both']))]
    steps += [parse_step(rng, vector_items(rng, v)) for v in vs]
    steps.append(parse_step(rng, vector_items(rng, (1, -2, 3))))
    if pre:
        steps.append(dict(k='observe', i=0, how=pre, j=1))
    steps += [dict(k='latt', i=0, j=j) for j in range(1, nv + 1)]          # objects nv+2 .. 2nv+1
    steps.append(dict(k='observe', i=nv + 2, how='repr'))
    steps.append(dict(k='latt', i=nv + 2, j=1))                             # the first vector twice
    steps.append(dict(k='latt', i=0, j=nv + 1))                             # moved by whole numbers: still the same operator
    steps.append(dict(k='reparse', i=0))
    steps.append(dict(k='reparse', i=nv + 2))
    steps.append(dict(k='latt', i=0, j=1))                                  # after everything has been printed
    steps.append(dict(k='latt', i=nv + 2, j=nv))
    # the source once more, spelled differently (other item order, blanks, case): another object, the same operator
    steps.append(parse_step(rng, [respell(c) for c in source], centric, 'both'))
    return dict(stream='hist', family='sys', latt=latt, steps=steps)


def file_step(rng, latt, nice, nlines):
    lines = []
    for _ in range(nlines):
        cs = [comp_of(rng, rng.choice(nice), 'canonical') for _ in range(3)]
        lines.append(dict(text='SYMM ' + ', '.join(c['text'] for c in cs), comps=cs))
    return dict(k='file', latt=latt, lines=lines)


def random_steps(rng, n):
    steps = []
    for _ in range(n):
        r = rng.random()
        if r < 0.45:
            steps.append(dict(k='latt', i=rng.randrange(100), j=rng.randrange(100)))
        elif r < 0.6:
            steps.append(dict(k='reparse', i=rng.randrange(100)))
        else:
            steps.append(dict(k='observe', i=rng.randrange(100), how=rng.choice(OBSERVATIONS), j=rng.randrange(100)))
    return steps


def file_history(rng, latt, nice, nlines):
    """the operators a file leaves in `symmcards` (any lattice, centric or not), then calls on them"""
    return dict(stream='hist', family='file', latt=abs(latt), steps=[file_step(rng, latt, nice, nlines)] + random_steps(rng, rng.randint(2, 6)))


def random_operator(rng, nice):
    r = rng.random()
    if r < 0.5:
        return [rng.choice(nice) for _ in range(3)]
    if r < 0.65:
        return rng.choice(HIST_SOURCES)
    if r < 0.85:
        latt = rng.choice(sorted(CENTRINGS))
        return vector_items(rng, rng.choice(CENTRINGS[latt]))
    if r < 0.9:
        return vector_items(rng, [rng.randint(-3, 3) for _ in range(3)])
    return [random_component(rng) for _ in range(3)]


def random_history(rng, nice):
    steps = []
    if rng.random() < 0.1:
        steps.append(file_step(rng, rng.choice([1, -1, 2, -2, 3, -3, 5, -7]), nice, rng.randint(0, 1)))
    for _ in range(rng.randint(1, 3)):
        steps.append(parse_step(rng, random_operator(rng, nice), rng.random() < 0.3, rng.choice(['canonical', 'canonical', 'both'])))
    for st in random_steps(rng, rng.randint(3, 10)):
        steps.append(st)
        if rng.random() < 0.12:
            steps.append(parse_step(rng, random_operator(rng, nice), rng.random() < 0.3))
    return dict(stream='hist', family='random', steps=steps)


def hist_cases(ctx, table):
    rng = ctx.rng
    nice = [items for items in table if len(items) >= 2]
    cases = []
    sources = HIST_SOURCES + [[rng.choice(nice) for _ in range(3)] for _ in range(ctx.budget(1, 20))]
    for source in sources:
        for centric in (False, True):
            for latt in sorted(CENTRINGS):
                for pre in (None,) + OBSERVATIONS:
                    cases.append(systematic_history(rng, source, centric, latt, pre))
    for latt in (1, -1, 2, -2, 3, -3, 4, -4, 5, -5, 6, -6, 7, -7):
        for nlines in (0, 1, 2):
            cases.append(file_history(rng, latt, nice, nlines))
    more = []
    for _ in range(ctx.budget(60, 1500)):
        more.append(file_history(rng, rng.choice([1, -1, 2, -2, 3, -3, 4, -4, 5, -5, 6, -6, 7, -7]), nice, rng.randint(0, 2)))
    for _ in range(ctx.budget(1200, 20000)):
        more.append(random_history(rng, nice))
    return cases, more

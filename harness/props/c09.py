"""
C09 — occupancies and sum formulae follow the SHELXL free-variable rule.

Streams (DESIGN 3.2):
  occ   Atom.fvar / Atom.occupancy   vs  model `occupancy`, spec `specOcc`      (theorem occ_eq_rule)
  sum   sum_formula_exact_as_dict()  vs  model `sumExact`, spec `specSum`        (theorem sum_exact_spec)
  unit  sum_formula (numbers)        vs  model `unitFormula`, spec `specUnit`    (theorem unit_formula_spec)
Only what the property states is observed; where the rule leaves the value open (m = -1, free variable
not defined) nothing is compared.
"""
import re
from fractions import Fraction

from .. import core, gen


def make_case(rng, exhaustive_codes=None):
    nfv = rng.choice([1, 2, 3, 4, 5, 8, 12, 30, 99])
    fvars = [round(rng.uniform(0.05, 1.5), 5)] + [round(rng.uniform(0.05, 0.95), 5) for _ in range(nfv - 1)]
    nel = rng.randint(1, 5)
    sfac = rng.sample(gen.ELEMENTS, nel)
    if rng.random() < 0.5 and 'H' not in sfac:
        sfac[rng.randrange(nel)] = 'H'
    z = rng.choice([1, 2, 4, 8, 3, 6, 16, 1.5, 2.5, 4, 2])
    unit = [rng.choice([1, 2, 4, 8, 12, 16, 24, 36, 48, 96, 0.5, 2.5, 1200]) for _ in sfac]
    atoms = []
    used = set()
    ncodes = rng.randint(3, 14)
    for i in range(ncodes):
        if exhaustive_codes:
            code = exhaustive_codes.pop()
        else:
            code = rand_code(rng, nfv)
        s = rng.randrange(nel) + 1
        via = rng.choices(['atom', 'part', 'afix'], [6, 3, 1])[0]
        atoms.append(dict(name=gen.atom_name(rng, sfac[s - 1], used), sfac=s, code=code, via=via, q=False,
                          partn=rng.choice([1, 2, 3, -1, -2, 1, 2])))
    if rng.random() < 0.5:
        for k in range(rng.randint(1, 3)):
            atoms.append(dict(name=f'Q{k + 1}', sfac=1, code=11.0, via='atom', q=True))
    case = dict(fvars=fvars, sfac=sfac, unit=unit, z=z, atoms=atoms)
    if nfv >= 2 and rng.random() < 0.4:
        # history on one object: observe, change a free variable through the FVAR object, observe again
        case['fv_edit'] = [rng.randrange(1, nfv), round(rng.uniform(0.05, 0.95), 5)]
    return case


def rand_code(rng, nfv):
    r = rng.random()
    if r < 0.15:
        m = rng.choice([0, 1])
    elif r < 0.2:
        m = -1
    elif r < 0.85 and nfv >= 2:
        m = rng.randint(2, nfv) * rng.choice([1, -1])
    else:
        m = rng.randint(-99, 99)
    r = rng.random()
    if r < 0.4:
        p = rng.choice([1.0, 0.5, 0.25, 0.75, 0.3333, 0.6667, 0.16667, 0.125, 0.2])
    elif r < 0.6:
        p = -rng.choice([1.0, 0.5, 0.25, 0.75, 0.3333, 0.6667, 0.16667, 0.125, 0.2])
    elif r < 0.95:
        p = round(rng.uniform(-5, 5), rng.choice([1, 2, 3, 5]))
    else:
        p = rng.choice([-5.0, 4.99999, 0.0, 0.00001])
    if p >= 5:
        p = 4.99999
    return float(Fraction(str(p)) + 10 * m)


def render(case):
    fs = gen.FileSpec(sfac=list(case['sfac']), unit=list(case['unit']), fvars=list(case['fvars']))
    fs.zerr = (case['z'], 0.001, 0.001, 0.001, 0.0, 0.01, 0.0)
    fs.fvar_per_line = 7
    body = []
    k = 0
    for a in case['atoms']:
        k += 1
        xyz = (0.01 * k, 0.02 * k % 1, 0.5 - 0.003 * k)
        if a['q']:
            fs.tail.append(gen.AtomSpec(a['name'], 1, xyz, 11.0, (0.05, 1.5 - 0.01 * k)))
            continue
        if a['via'] == 'atom':
            body.append(gen.AtomSpec(a['name'], a['sfac'], xyz, a['code'], (0.03,)))
        elif a['via'] == 'part':
            body.append(f'PART {a.get("partn", 1 + k % 2)} {a["code"]:.5f}')
            body.append(gen.AtomSpec(a['name'], a['sfac'], xyz, 11.0, (0.03,)))
            body.append('PART 0')
        else:  # inside an AFIX group the atom keeps its own code (C03: only PART supplies one)
            body.append('AFIX 66')
            body.append(gen.AtomSpec(a['name'], a['sfac'], xyz, a['code'], (0.03,)))
            body.append('AFIX 0')
    fs.body = body
    return fs.text()


def observe_impl(case):
    """-> list of (effective case, observation): the file as read, and - for a case with 'fv_edit' - the same object
    again after one free variable was changed (occupancies and sums must follow the CURRENT FVAR list)"""
    from shelxfile import Shelxfile
    shx = Shelxfile()
    shx.read_string(render(case))
    out = [(case, observe_obj(shx, case))]
    if case.get('fv_edit') and 'error' not in out[0][1]:
        i, v = case['fv_edit']
        try:
            shx.fvars.fvars[i].fvar_value = v
            c2 = dict(case, fvars=case['fvars'][:i] + [v] + case['fvars'][i + 1:], history='fvar-edited')
            c2.pop('fv_edit')
            out.append((c2, observe_obj(shx, c2)))
        except Exception:
            pass
    return out


def observe_obj(shx, case):
    names = [a.name for a in shx.atoms]
    want = [a['name'].upper()[:4] for a in case['atoms']]
    if names != want:
        return dict(error=f'parse: atoms {names} expected {want}')
    occ = []
    for a in shx.atoms:
        try:
            occ.append((a.fvar, a.occupancy))
        except Exception as e:  # the property's observable raised
            occ.append(('raise', f'{type(e).__name__}'))
    try:
        sd = [[k, v] for k, v in shx.sum_formula_exact_as_dict().items()]
    except Exception as e:
        sd = f'raise {type(e).__name__}'
    try:
        sf = shx.sum_formula
    except Exception as e:
        sf = f'raise {type(e).__name__}'
    return dict(occ=occ, sumdict=sd, sumformula=sf, Z=shx.Z)


def parse_formula(s):
    """'C2 H1.5 O1,200' -> [(el, number)]"""
    out = []
    for tok in s.split():
        m = re.match(r'^([A-Za-z]+)([-+0-9.,eE]+)$', tok)
        if not m:
            return None
        out.append((m.group(1), float(m.group(2).replace(',', ''))))
    return out


def mclass(m):
    return 'm=0' if m == 0 else 'm=1' if m == 1 else 'm=-1' if m == -1 else 'm>1' if m > 1 else 'm<-1'


def evaluate(ctx, cases, stream=None):
    reqs = []
    idx = []
    impls = []
    expanded = []
    for case in cases:
        for eff, obs in observe_impl(case):
            expanded.append((case, eff, obs))
    replay_of = [c for c, _, _ in expanded]
    cases = [e for _, e, _ in expanded]
    for ci, case in enumerate(cases):
        obs = expanded[ci][2]
        impls.append(obs)
        for ai, a in enumerate(case['atoms']):
            reqs.append(dict(p='C09', op='occ', code=a['code'], fvars=case['fvars']))
            idx.append((ci, ai))
        reqs.append(dict(p='C09', op='sum', fvars=case['fvars'], els=[e.upper() for e in case['sfac']],
                         atoms=[dict(el=case['sfac'][a['sfac'] - 1].upper(), q=a['q'], sof=a['code']) for a in case['atoms']]))
        idx.append((ci, 'sum'))
        reqs.append(dict(p='C09', op='unit', els=[e.upper() for e in case['sfac']], unit=case['unit'], z=case['z']))
        idx.append((ci, 'unit'))
    ans = ctx.driver.batch(reqs)
    ctx.stream('occ')
    ctx.stream('sum')
    ctx.stream('unit')
    for (ci, what), r in zip(idx, ans):
        case = cases[ci]
        obs = impls[ci]
        if 'error' in obs:
            # the file was not read as generated (that is property C02/C03's business, not this one's):
            # nothing of C09 can be observed on it; it is counted, not reported
            if what == 'sum':
                ctx.dist['unobservable: atoms not parsed as generated'] += 1
            continue
        if isinstance(what, int):
            a = case['atoms'][what]
            if a['q']:
                continue
            m, spec = r['spec_m'], r['spec']
            got_m, got = obs['occ'][what]
            tags = [mclass(m), 'p<0' if r['spec_p'] < 0 else 'p>=0', 'history=' + case.get('history', 'read'), 'via=' + a['via'] + ('(negative PART)' if a['via'] == 'part' and a.get('partn', 1) < 0 else ''), 'rule-open' if spec is None else 'rule-fixed']
            ctx.count(['occ', a['code'], case['fvars'][:abs(m)] if abs(m) > 1 else 0, a['via'], case.get('history')], nontrivial=spec is not None and abs(m) > 1,
                      sample=dict(stream='occ', code=a['code'], fvars=case['fvars'][:4], via=a['via'], impl=[got_m, got],
                                  spec=[m, None if spec is None else float(spec)]) if abs(m) > 1 else None, tags=tags)
            sig = f'C09|occ|{mclass(m)}|{"p<0" if r["spec_p"] < 0 else "p>=0"}|via={a["via"]}' + ('|after-fvar-edit' if case.get('history') else '')
            payload = dict(case=(dict(replay_of[ci], atoms=[a]) if 'fv_edit' not in replay_of[ci] else replay_of[ci]), stream='occ', code=a['code'], expected=dict(m=m, occ=None if spec is None else str(spec)),
                           actual=dict(fvar=got_m, occupancy=got), model=dict(m=r['m'], occ=str(r['occ'])))
            if got_m == 'raise':
                ctx.fail(sig + '|raise', f'occupancy of code {a["code"]} raised {got}', payload)
                continue
            if got_m != m:
                ctx.fail(sig + '|fvar', f'code {a["code"]} (on {a["via"]}): free variable number {got_m}, rule says m={m}', payload)
            if spec is not None and not core.close(got, spec, 1e-7, 1e-9):
                ctx.fail(sig + '|occ', f'code {a["code"]} (on {a["via"]}) with FVAR {case["fvars"][:6]}: occupancy {got}, rule says {float(spec)}', payload)
            elif spec is not None and not core.close(got, r['occ'], 1e-7, 1e-9):
                ctx.fail(sig + '|model', f'code {a["code"]}: implementation {got} differs from model {float(r["occ"])}', payload, kind='correspondence')
        elif what == 'sum':
            open_rule = any((not a['q']) and ans_open(case, a) for a in case['atoms'])
            ctx.count(['sum', case['sfac'], [a['code'] for a in case['atoms']], case['fvars']], nontrivial=len(case['atoms']) > 1,
                      tags=['sum', f'nel={len(case["sfac"])}'],
                      sample=dict(stream='sum', sfac=case['sfac'], codes=[a['code'] for a in case['atoms']][:5], impl=obs['sumdict']))
            if open_rule:
                continue
            spec = [(k, float(v)) for k, v in r['spec']]
            payload = dict(case=replay_of[ci], stream='sum', expected=spec, actual=obs['sumdict'], model=[(k, float(v)) for k, v in r['model']])
            got = obs['sumdict']
            if isinstance(got, str) or [k.upper() for k, _ in got] != [k for k, _ in spec] or \
                    any(not core.close(v, w, 1e-6, 1e-9) for (_, v), (_, w) in zip(got, spec)):
                ctx.fail('C09|sum', f'exact sum formula {got} differs from the per-element occupancy sums {spec}', payload)
        else:
            spec = [(k, float(v)) for k, v in r['spec']]
            got = obs['sumformula']
            ctx.count(['unit', case['sfac'], case['unit'], case['z']], nontrivial=True, tags=['unit'],
                      sample=dict(stream='unit', sfac=case['sfac'], unit=case['unit'], z=case['z'], impl=got))
            parsed = parse_formula(got) if isinstance(got, str) else None
            payload = dict(case=replay_of[ci], stream='unit', expected=spec, actual=got)
            if parsed is None or [k.upper() for k, _ in parsed] != [k for k, _ in spec] or \
                    any(not core.close(v, w, 1e-12, 2e-5) for (_, v), (_, w) in zip(parsed, spec)):
                ctx.fail('C09|unit', f'UNIT-based formula {got!r} is not UNIT/Z in SFAC order {spec}', payload)


def ans_open(case, a):
    """does the rule leave this atom's occupancy open (m = -1 or undefined free variable)?"""
    c = Fraction(str(a['code']))
    m = (c + 5) / 10
    m = m.numerator // m.denominator
    return m == -1 or abs(m) > len(case['fvars'])


def run(ctx):
    ctx.rule = ('generated files: 1..99 free variables, 1..5 SFAC elements, 3..14 atoms whose occupation code 10m+p '
                '(m in -99..99, p in [-5,5), <= 5 decimals) sits on the atom, on PART or inside AFIX, optional Q-peaks; '
                'distinct by (code, free variables used, carrier); non-trivial = |m| > 1 with the free variable defined '
                '(occ stream) or more than one atom (sum stream)')
    ctx.assumptions = ['codes carry at most 8 decimals (hypothesis Dec8 of the theorems)', 'SFAC element list duplicate free (hypothesis of sum_exact_spec)']
    n = ctx.budget(150, 4000)
    cases = []
    if ctx.tier == 'thorough' or ctx.escalated:
        # the full grid of the quantifier: every m in -99..99 times p on a grid of [-5, 5)
        grid = [float(Fraction(10 * m) + Fraction(k, 4)) for m in range(-99, 100) for k in range(-20, 20)]
        ctx.rng.shuffle(grid)
        while grid:
            c = make_case(ctx.rng, exhaustive_codes=grid)
            c['fvars'] = [round(ctx.rng.uniform(0.05, 1.5), 5)] + [round(ctx.rng.uniform(0.05, 0.95), 5) for _ in range(98)]
            cases.append(c)
        ctx.extra['grid'] = 'all m in -99..99 x p in {-5, -4.75, ..., 4.75} with 99 free variables'
    for _ in range(n):
        cases.append(make_case(ctx.rng))
    for i in range(0, len(cases), 500):
        evaluate(ctx, cases[i:i + 500])

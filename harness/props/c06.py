"""
C06 — written files are well-formed SHELXL: bounded line length, sound continuation.

Streams (DESIGN 3.2):
  line   misc.wrap_line(s)                       vs  model `wrapLine` (exact text), spec `physLines`/`maxLen <= 80`,
                                                     `shapeOk`, `logical`/`tokens` (theorems wrap_width, wrap_shape,
                                                     wrap_tokens, wrap_nonblank)
  file   Shelxfile.write_shelx_file (temp dir)   vs  model `writeItem` per item of the res list (exact text), spec on
                                                     the physical lines of the file: no line > 80 columns, the
                                                     continuation-joining lexer gives back the token sequence of every
                                                     instruction, no bare-number / empty / parameterless keyword line
  multi  str(FVARs) / repr(SFACTable)            vs  model `renderFvars` / `sfacLine` (theorems fvar_lines_valid, sfac_line_valid)
Observation = the physical lines of the written text, nothing else.

File stream oracles (all on the physical lines of the written file, read by the comment-aware lexer `logicalC` of the
specification: everything behind '!' is ignored, REM is never continued, a blank-led line that continues nothing is a comment):
  width <= 80; every flagged line is followed by a blank-led line (`badContinuations`); no instruction object whose own text
  ends in a continuation mark; lexer(written file) = lexer(unwrapped item texts); every physical line is classified by the
  specification (`lineClasses`: instruction = SHELXL keyword, atom, comment = blank-led / REM / '!', include, continuation) and
  none may be `unknown`; what add_line / replace_line / insert_frag_fend_entry inserted (instructions, blank-led comments,
  commented-out instructions, REM and '!' comments, hand-made continuations, padded text) is in the file as the same kind of
  line; BY CONSTRUCTION: the restraint-like
  instructions of the generated input (whatever its layout: breaks anywhere, '=' marks with comments behind them, '=' and
  '!' inside comments) and the texts handed to add_line / replace_line / Command.set / insert_anis are in the file with
  exactly their tokens; no bare number / empty / parameterless keyword line; file text = model text.
Keyword files (wave 3): every SHELXL keyword in every form, the instructions between the atoms, the atoms and the fixed header
lines, each CONTINUED IN THE INPUT by the generator's own layout (directly behind the keyword, behind every token, greedy, ragged,
comments behind the marks) or with a comment / blanks beyond column 80; read_string / read_file, LF / CRLF, fresh or used object;
written after read, after every edit and after a re-read of the written file. By construction every generated instruction of any
keyword must be in the written file with its tokens (`same_instruction`: numbers by value, words without case).
The comment-aware reading is a harness-level oracle: the theorems are about the plain lexer (`code_eq_self`,
`flaggedC_eq_flagged` show that both agree on comment-free, non-REM lines).
"""
import os
import shutil
import tempfile
from pathlib import Path

from .. import core, gen

COLS = 80
# instructions that SHELXL does not accept without a parameter (used for the "empty keyword line" half of the property)
NEEDS_PARAM = {'CELL', 'ZERR', 'LATT', 'SYMM', 'SFAC', 'UNIT', 'FVAR', 'DFIX', 'DANG', 'EADP', 'EQIV', 'FREE', 'BIND',
               'PART', 'AFIX', 'HFIX', 'EXYZ', 'FLAT', 'SUMP', 'DISP', 'MPLA', 'RTAB'}
ELEMENTS = gen.ELEMENTS + ['Li', 'Be', 'Mg', 'K', 'Ca', 'Ti', 'V', 'Cr', 'Mn', 'Co', 'Ni', 'Ga', 'Ge', 'As', 'Rb', 'Sr', 'Zr', 'Mo',
                           'Ru', 'Rh', 'Pd', 'Ag', 'Cd', 'Sn', 'Sb', 'Te', 'Cs', 'Ba', 'Pt', 'Au', 'Hg', 'Pb']
ALNUM = 'ABCDEFGHIJKLMNOPQRSTUVWXYZabcdefghijklmnopqrstuvwxyz0123456789'
PUNCT = "._$()/,+*'>"


# ------------------------------------------------------------------------------------------------
# generators: single instructions

def word(rng, n, alphabet=ALNUM):
    return ''.join(rng.choice(alphabet) for _ in range(n))


def tok(rng, n):
    """a SHELX-like token of exactly n characters without '-' and '='"""
    if n <= 0:
        return ''
    r = rng.random()
    if r < 0.5:
        return word(rng, n)
    if r < 0.75 and n >= 3:
        return (rng.choice('CNOHS') + str(rng.randint(1, 9999)) + '_' + word(rng, n, '0123456789'))[:n - 1] + rng.choice('0123456789ab')
    return word(rng, n, ALNUM + PUNCT)


def fill_to(rng, n, sep=(1,), maxtok=9, first='SADI'):
    """text of exactly n characters: `first` followed by random tokens separated by blanks (n > len(first) + 2)"""
    s = first
    while True:
        left = n - len(s)
        if left <= 0:
            return s[:n]
        b = rng.choice(sep)
        if left <= b + 1:
            # cannot place another separated token: lengthen the last token
            return s + word(rng, left)
        k = min(rng.randint(1, maxtok), left - b)
        if left - b - k == 1:   # would leave a single column: take it
            k += 1
        s += ' ' * b + tok(rng, k)


def boundary_cases(rng, seps=((1,), (1, 2, 3))):
    """every end column 70..90 of a token x every token length 1..12 x what follows"""
    out = []
    for off in range(70, 91):
        for k in range(1, 13):
            for sep in seps:
                head = fill_to(rng, off - k - 1, sep) + ' ' + tok(rng, k)
                assert len(head) == off, (len(head), off)
                for tail in ('', 'short', 'line', 'two', 'blank'):
                    if tail == '':
                        s = head
                    elif tail == 'short':
                        s = head + ' ' * rng.choice(sep) + tok(rng, rng.randint(1, 6))
                    elif tail == 'blank':
                        s = head + ' ' * rng.randint(1, 4) + (tok(rng, rng.randint(1, 4)) if rng.random() < 0.5 else '')
                    elif tail == 'line':
                        s = head + ' ' + fill_to(rng, rng.randint(60, 90), sep, first=tok(rng, 3))
                    else:
                        # a second boundary on the continuation line: its k2-token ends at column off2 of the piece
                        s = head + ' ' + fill_to(rng, rng.randint(150, 175), sep, first=tok(rng, 2))
                    out.append(dict(kind='line', cls=f'boundary/{tail or "exact"}', s=s))
    return out


def hyphen_token(rng):
    parts = [word(rng, rng.randint(1, 6), 'abcdefghijklmnopqrstuvwxyzABCDEFGH') for _ in range(rng.randint(2, 4))]
    r = rng.random()
    if r < 0.7:
        return '-'.join(parts)
    if r < 0.85:
        return '--'.join(parts)
    return parts[0] + '-' + str(rng.randint(1, 99)) + '-' + parts[1]


def random_line(rng, cls):
    kw = rng.choice(['SADI', 'DFIX 1.54 0.02', 'EADP', 'FLAT', 'SIMU 0.04 0.08', 'RIGU', 'REM', 'TITL', 'DELU', 'SAME', 'ISOR 0.1',
                     'CHIV', 'BIND', 'FREE', 'CONF', 'MPLA', 'HTAB', 'ABCD'])
    if cls == 'short-tokens':
        n = rng.randint(40, 220)
        s = kw + ''.join(' ' + tok(rng, rng.randint(1, 3)) for _ in range(n))
    elif cls == 'names':
        n = rng.randint(8, 60)
        res = rng.choice(['', '', f'_{rng.randint(1, 99)}', '_$1'])
        s = kw + ''.join(' ' + rng.choice(['C', 'N', 'O', 'Cl', 'Fe']) + str(rng.randint(1, 199)) + rng.choice(['', '', 'A', "'"]) + res
                         for _ in range(n))
    elif cls == 'long-token':
        ts = [tok(rng, rng.randint(1, 9)) for _ in range(rng.randint(0, 25))]
        for _ in range(rng.randint(1, 2)):
            ts.insert(rng.randint(0, len(ts)), word(rng, rng.choice([74, 75, 76, 77, 78, 79, 80, 81, 100, 160, 200])))
        s = ' '.join([kw] + ts)
    elif cls == 'hyphen':
        ts = [hyphen_token(rng) if rng.random() < 0.5 else tok(rng, rng.randint(1, 9)) for _ in range(rng.randint(14, 40))]
        s = ' '.join([kw] + ts)
    elif cls == 'minus':
        # numbers with a sign, symmetry operators: hyphens that are never a break opportunity for textwrap either
        ts = [rng.choice(['-0.5', '-x+1/2,', '-y,', '-z+1/2', '-1', '1/2-Z', 'x-y,', '-X+Y,', '-20.50000', '-1.2e-3'])
              for _ in range(rng.randint(14, 40))]
        s = ' '.join([kw] + ts)
    elif cls == 'comment':
        # short and long instructions with short and long comments (the wrap falls in front of, on and behind the '!'),
        # comments that contain '=' and '!' and end in '='
        body = fill_to(rng, rng.choice([rng.randint(8, 60), rng.randint(60, 84), rng.randint(84, 200)]), (1,), first=kw)
        com = ' '.join(hyphen_token(rng) if rng.random() < 0.2 else rng.choice(COMMENTS) if rng.random() < 0.3 else word(rng, rng.randint(1, 8))
                       for _ in range(rng.choice([1, 3, 8, 20, 40])))
        s = body + rng.choice([' ! ', ' !', '  !  ']) + com
    elif cls == 'blank-runs':
        ts = [tok(rng, rng.randint(1, 9)) for _ in range(rng.randint(5, 30))]
        s = kw
        for t in ts:
            s += ' ' * rng.choice([1, 1, 2, 3, 5, 8, 20, 78, 79, 80, 100, 160]) + t
        s = ' ' * rng.choice([0, 0, 1, 4]) + s + ' ' * rng.choice([0, 0, 1, 2, 30, 90])
    elif cls == 'equals':
        # '=' inside tokens / at the very end (outside hypothesis endOk: correspondence only)
        ts = [tok(rng, rng.randint(1, 9)) + rng.choice(['', '', '=', '=x']) for _ in range(rng.randint(12, 40))]
        s = ' '.join([kw] + ts) + rng.choice(['', ' =', '='])
    else:
        ts = [tok(rng, rng.randint(1, 14)) for _ in range(rng.randint(1, 60))]
        s = (' ' * rng.choice([1, 1, 1, 2, 3])).join([kw] + ts)
    return dict(kind='line', cls=cls, s=s)


def threshold_cases(rng):
    """the instruction itself ends on every column 66..80, what follows it (a '!' comment, trailing blanks, both) takes the line
    to 81, 82, 83, 90, 130, 200 columns: whether a line has to be wrapped must depend on its whole length"""
    out = []
    for c in range(66, COLS + 1):
        for total in (81, 82, 83, 90, 130, 200):
            for tail in ('comment', 'blanks', 'comment+blanks', 'bang'):
                code = fill_to(rng, c, (1,), first=rng.choice(['SADI', 'OMIT', 'EQIV $1', 'TEMP', 'MOLE 1', 'DFIX 1.5']))
                if tail == 'blanks':
                    s = code + ' ' * (total - c)
                elif tail == 'bang':            # the comment directly behind the last token
                    if total - c < 2:
                        continue
                    s = code + '!' + fill_to(rng, total - c - 1, (1,), first='x')[:total - c - 1]
                else:
                    k = 2 if tail == 'comment+blanks' else 0
                    if total - c - k < 3:
                        continue
                    s = code + ' !' + fill_to(rng, total - c - 2 - k, (1,), maxtok=7, first=rng.choice(['a', 'see', 'd=1']))[:total - c - 2 - k] + ' ' * k
                assert len(s) == total and len(s.split('!')[0].rstrip()) == c, (c, total, tail, s)
                out.append(dict(kind='line', cls='threshold/' + tail, s=s))
    return out


LINE_CLASSES = ['short-tokens', 'names', 'long-token', 'hyphen', 'minus', 'comment', 'blank-runs', 'equals', 'random']


# ------------------------------------------------------------------------------------------------
# generators: complete files

def restraint_line(rng, names, hy=False):
    kw = rng.choice(['SADI', 'SADI 0.04', 'DFIX 1.54 0.02', 'DANG 2.5', 'EADP', 'FLAT', 'SIMU 0.04 0.08 2.0', 'RIGU', 'DELU', 'ISOR 0.1',
                     'CHIV 0.1', 'SAME', 'BIND', 'FREE', 'CONF', 'MPLA', 'BOND', 'HTAB'])
    n = rng.choice([2, 4, 6, 8, 12, 16, 20, 30, 50])
    if kw in ('BIND', 'FREE', 'HTAB'):      # exactly two atoms in valid SHELXL
        n = 2
    elif kw == 'CONF':
        n = 4
    elif kw == 'MPLA':
        kw = f'MPLA {n}'
    suffix = rng.choice(['', '', '', '_2', '_$1'])
    ats = [rng.choice(names) + suffix for _ in range(n)]
    s = kw + ' ' + ' '.join(ats)
    if rng.random() < 0.2:
        s += ' ! ' + ' '.join(hyphen_token(rng) if hy and rng.random() < 0.3 else word(rng, rng.randint(2, 7)) for _ in range(rng.randint(1, 8)))
    return s


RESTR_KW = {'SADI', 'DFIX', 'DANG', 'EADP', 'FLAT', 'SIMU', 'RIGU', 'DELU', 'ISOR', 'CHIV', 'SAME', 'BIND', 'FREE', 'CONF', 'MPLA',
            'BOND', 'HTAB', 'ANIS'}
KEYWORDS = {'ABIN', 'ACTA', 'AFIX', 'ANIS', 'ANSC', 'ANSR', 'BASF', 'BIND', 'BLOC', 'BOND', 'BUMP', 'CELL', 'CGLS', 'CHIV', 'CONF', 'CONN',
            'DAMP', 'DANG', 'DEFS', 'DELU', 'DFIX', 'DISP', 'EADP', 'END', 'EQIV', 'EXTI', 'EXYZ', 'FEND', 'FLAT', 'FMAP', 'FRAG', 'FREE',
            'FVAR', 'GRID', 'HFIX', 'HKLF', 'HOPE', 'HTAB', 'ISOR', 'LATT', 'LAUE', 'LIST', 'L.S.', 'MERG', 'MOLE', 'MORE', 'MOVE', 'MPLA',
            'NCSY', 'NEUT', 'OMIT', 'PART', 'PLAN', 'PRIG', 'REM', 'RESI', 'RIGU', 'RTAB', 'SADI', 'SAME', 'SFAC', 'SHEL', 'SIMU', 'SIZE',
            'SLIM', 'SPEC', 'STIR', 'SUMP', 'SWAT', 'SYMM', 'TEMP', 'TIME', 'TITL', 'TWIN', 'TWST', 'UNIT', 'WGHT', 'WIGL', 'WPDB', 'XNPD',
            'ZERR', 'BEDE', 'LONE', 'CHAN', 'FLAP', 'RNUM', 'SOCC', 'RANG', 'TANG', 'ADDA', 'STAG', 'REST', 'NOTR'}
COMMENTS = ['target d=1.45', 'esd=0.02', 'see text', 'a=b', 'the C-C and C-O distances', 'x ! y', '=', 'checked = ok =', 'e.s.d. = 0.02 !']


def code_tokens(ln):
    return ln.split('!')[0].split()


def is_dsr(toks):
    """a DSR command: 'REM DSR PUT ...' / 'REM DSR REPLACE ...' (any case) -- the one kind of remark that is continued with ' ='
    (the specification's `isDsr`); its tokens are the instruction's, unlike the free text of an ordinary REM"""
    return len(toks) >= 3 and toks[0].upper() == 'REM' and toks[1].upper() == 'DSR' and toks[2].upper().startswith(('PUT', 'REPLACE'))


def token_exact(toks):
    """the instruction has to be in the written file token for token"""
    kw = keyword_of(toks[0])
    return kw in KEYWORDS and (kw not in NOT_TOKEN_EXACT or is_dsr(toks))


DSR_FRAGMENTS = ['TOLUENE', 'OC(CF3)3', 'CF3', 'THF', 'benzene', 'PPh3', 'ETHER', 'Cp*', 'OTf', 'dme', 'nbu4n', 'ch2cl2']


def dsr_command(rng, names, n=None, spelling=None):
    """a command of DSR (manual: REM DSR PUT|REPLACE fragment WITH atoms ON atoms|Q-peaks PART n OCC n RESI [n] [class] DFIX|
    SPLIT ...), as DSR users write it into the res file. n: exact length of the joined text (single blanks) or None"""
    spelling = spelling or rng.choice(['upper', 'upper', 'lower', 'mixed'])
    k = rng.randint(2, 7)
    src = [rng.choice(['C', 'O', 'F', 'N']) + str(i + 1) for i in range(k)]
    tgt = [rng.choice(names + [f'Q{rng.randint(1, 40)}']) for _ in range(k)]
    toks = ['REM', 'DSR', rng.choice(['PUT', 'REPLACE']), rng.choice(DSR_FRAGMENTS), 'WITH'] + src + ['ON'] + tgt
    for opt in rng.sample([['PART', str(rng.choice([1, 2, -1]))], ['OCC', str(rng.choice([-21, 21, -31, 10.5]))],
                           ['RESI'] + rng.choice([[], [str(rng.randint(1, 99))], [str(rng.randint(1, 99)), 'CCF3'], ['TOL']]),
                           ['DFIX'], ['SPLIT'], ['INVERT'], ['REPLACE'] if toks[2] == 'PUT' else ['DFIX']], rng.randint(0, 5)):
        toks += [t for t in opt if t not in toks[5:] or t[0].isdigit() or t[0] == '-']
    f = dict(upper=str.upper, lower=str.lower, mixed=lambda t: t)[spelling]
    toks = [f(t) for t in toks[:3]] + toks[3:4] + [f(t) if t.isalpha() and t not in names else t for t in toks[4:]]
    if n is not None:
        # further target atoms (DSR accepts any number of pairs for the fit; here: names of the file) up to exactly n columns
        on = next(i for i, t in enumerate(toks) if t.upper() == 'ON') + 1 + k
        head, tail = ' '.join(toks[:on]), toks[on:]
        rest = (' ' + ' '.join(tail)) if tail else ''
        if n >= len(head) + len(rest) + 2:
            head = pad_names(rng, head, n - len(rest), names + ['Q1', 'Q12', 'Q5'])
        toks = (head + rest).split()
    return ' '.join(toks)


def layout_input(rng, ln, force=False, modes=None, cmodes=None, wide=None):
    """physical lines (<= 80 columns) of one instruction of the INPUT file, the generator's own layout, independent of the
    code under test: breaks between any two tokens (mode 'keyword': directly behind the keyword, mode 'every': behind every
    token, i.e. many continuation lines), ' =' / '  =' marks, 1..5 blanks in front of continuation lines,
    '!' comments behind continuation marks and on the last line, with and without '=' or '!' in the comment text
    (a mark inside a comment is not a mark, so a comment is only ever put behind the code of its physical line).
    wide = 'comment' / 'blanks': the instruction is on one line and fits into 80 columns, but a trailing comment / trailing
    blanks reach beyond column 80 (SHELXL ignores them; the writer must not reproduce them beyond column 80)"""
    dsr = is_dsr(ln.split())
    if ln.startswith(('TITL', 'REM')) and not dsr:
        return [ln[:COLS]]
    code, _, comment = ln.partition(' !')
    toks = code.split()
    if dsr:
        # DSR and the library recognise the command on its first physical line (REM DSR PUT|REPLACE): no break in front of the
        # fourth token; a remark has no '!' comments
        wide, cmodes = None, ['none']
        modes = [m for m in (modes or ['greedy', 'ragged', 'early', 'every']) if m != 'keyword'] or ['every']
    if wide and len(' '.join(toks)) <= COLS:
        text = ' '.join(toks)
        if wide == 'blanks':
            return [text + ' ' * (COLS - len(text) + rng.choice([1, 2, 3, 10, 60]))]
        c = comment.strip() or rng.choice(COMMENTS)
        text += rng.choice([' ! ', ' !', '  ! ']) + c
        while len(text) <= COLS:
            text += ' ' + rng.choice(COMMENTS + ['and', 'more', 'words', 'x'])
        return [text]
    mode = rng.choice(modes or ['greedy', 'greedy', 'ragged', 'ragged', 'early'])
    cmode = rng.choice(cmodes or ['none', 'none', 'last', 'marks', 'first', 'all'])
    if len(code) <= COLS and not force and rng.random() < 0.5:
        mode = 'single'
    if mode == 'every' and len(toks) > 14:
        mode = 'ragged'

    def limit():
        return COLS - 3 if mode in ('greedy', 'keyword') else 10 ** 6 if mode == 'single' else 0 if mode == 'every' else rng.randint(24, COLS - 3)

    def close(cur, last, k):
        text = cur if last else cur + rng.choice([' =', ' =', '  ='])
        want = cmode == 'all' or (cmode == 'last' and last) or (cmode == 'marks' and not last) or (cmode == 'first' and k == 0 and not last)
        if last and comment and cmode == 'none':
            want = True
        if want:
            c = comment.strip() if (last and comment) else rng.choice(COMMENTS)
            cand = text + rng.choice([' ! ', ' !', '  ! ']) + c
            if len(cand) <= COLS:
                text = cand
        return text

    first_min = 3 if dsr else 1 if mode in ('keyword', 'every') else 2
    res, cur, lim = [], toks[0], (0 if mode == 'keyword' else limit())
    for t in toks[1:]:
        cand = cur + ' ' * (1 if mode == 'single' else rng.choice([1, 1, 1, 2])) + t
        if len(cand) > lim and len(cur.split()) >= (first_min if not res else 1):
            res.append(close(cur, False, len(res)))
            cur = ' ' * rng.choice([1, 2, 3, 3, 5]) + t
            lim = limit()
        else:
            cur = cand
    res.append(close(cur, True, len(res)))
    assert all(len(x) <= COLS for x in res), res
    if wide and len(res) > 1:
        # a physical line of the continued instruction reaches beyond column 80 by trailing blanks / by its comment only
        k = rng.randrange(len(res))
        if wide == 'blanks':
            res[k] += ' ' * (COLS - len(res[k]) + rng.choice([1, 2, 3, 10, 60]))
        else:
            if '!' not in res[k]:
                res[k] += rng.choice([' ! ', ' !', '  ! ']) + rng.choice(COMMENTS)
            while len(res[k]) <= COLS:
                res[k] += ' ' + rng.choice(COMMENTS + ['and', 'more', 'words', 'x'])
    return res


def pad_names(rng, text, n, names):
    """the instruction `text` with further atom names behind it, exactly n characters long (n >= len(text) + 2)"""
    while n - len(text) >= 2:
        left = n - len(text) - 1
        cand = [a for a in names if len(a) == left or len(a) <= left - 2]
        t = rng.choice(cand) if cand else 'C' + '1' * (left - 1)
        text += ' ' + t
    return text


def edit_op(rng, names, restr, natoms):
    """one step of an edit history; every API that puts text into the file gets short and long texts"""
    r = rng.random()
    text = restraint_line(rng, names)
    if rng.random() < 0.5:      # long texts: the class the writer has to wrap
        while len(text) <= COLS:
            text = restraint_line(rng, names)
    # what kind of line(s) the text is: an instruction, a blank-led comment, a commented-out instruction, a REM / '!'
    # comment, an instruction with a hand-made continuation, a comment line followed by an instruction
    kind = rng.choice(['instruction', 'instruction', 'instruction', 'comment', 'commented-out', 'rem', 'bang', 'hand-continued',
                       'comment+instruction', 'padded', 'keyword', 'keyword-continued', 'long-comment', 'long-blanks',
                       'rem-long', 'dsr', 'dsr', 'dsr-continued'])
    short = restraint_line(rng, names).split(' !')[0]
    while len(short) > 60:
        short = restraint_line(rng, names).split(' !')[0]
    words = ' '.join(word(rng, rng.randint(2, 8), 'abcdefghijklmnopqrstuvwxyz') for _ in range(rng.randint(2, 7)))
    if kind == 'comment':
        text = ' ' * rng.choice([1, 2, 4]) + words.capitalize()
    elif kind == 'commented-out':
        text = ' ' + short
    elif kind == 'rem':
        text = 'REM ' + words
    elif kind == 'bang':
        text = '! ' + words
    elif kind == 'hand-continued':
        toks = text.split(' !')[0].split()
        k = rng.randint(2, max(2, min(len(toks) - 1, 10)))
        text = ' '.join(toks[:k]) + ' =\n' + ' ' * rng.choice([1, 3, 5]) + ' '.join(toks[k:k + 12])
    elif kind == 'comment+instruction':
        text = ' ' + words + '\n' + short
    elif kind == 'padded':
        text = short + ' ' * rng.choice([1, 3])
    elif kind in ('keyword', 'keyword-continued'):
        # any instruction of SHELXL, as one line or with a hand-made continuation (directly behind the keyword, behind every token …)
        text = rng.choice(keyword_forms(rng, names))[2]
        if kind == 'keyword-continued':
            text = '\n'.join(layout_input(rng, text, force=True, modes=LAYOUT_MODES))
    elif kind in ('long-comment', 'long-blanks'):
        # the instruction fits into 80 columns (often just: 75..80), instruction + '!' comment / trailing blanks do not
        code = short if rng.random() < 0.4 else pad_names(rng, rng.choice(['EADP', 'FLAT', 'SIMU 0.04 0.08', 'RIGU', 'DELU', 'ISOR 0.1', 'BOND', 'SAME']),
                                                          rng.randint(75, COLS), names)
        text = layout_input(rng, code, wide='comment' if kind == 'long-comment' else 'blanks')[0]
    elif kind == 'rem-long':
        # a remark of more than 80 columns (free text; ends on / around the wrap limit as well)
        text = fill_to(rng, rng.choice([81, 82, 83, 90, 120, 161, 250]), (1,), first=rng.choice(['REM', 'rem', 'REM DSR was used:', 'Rem  ']))
    elif kind in ('dsr', 'dsr-continued'):
        # a DSR command, as one line of any length or continued by hand
        text = dsr_command(rng, names, n=rng.choice([None, None, rng.randint(76, 84), rng.randint(85, 170), rng.randint(170, 260)]))
        if kind == 'dsr-continued':
            text = '\n'.join(layout_input(rng, text, force=True))
    if r < 0.25:
        return dict(op='add_line', where=rng.choice(['unit', 'fvar', 'atom', 'first']), text=text, text_kind=kind)
    nheader = len(restr)
    if r < 0.4 and nheader:
        return dict(op='replace_line', target=rng.randrange(nheader), text=text, text_kind=kind)
    text = restraint_line(rng, names)
    if r < 0.5 and nheader:
        # Command.set(text): the new text of the same instruction (keyword and numeric parameters kept, new atom list)
        j = rng.randrange(nheader)
        head = []
        for t in code_tokens(restr[j]):
            if head and not (t[0].isdigit() or t[0] in '+-.'):
                break
            head.append(t)
        n = rng.choice([2, 4, 12, 30, 50]) if head[0] not in ('BIND', 'FREE', 'HTAB') else 2
        return dict(op='set', target=j, text=' '.join(head + [rng.choice(names) for _ in range(n)]))
    if r < 0.6:
        k = rng.choice([0, 1, 3, 8, 20, 40])
        return dict(op='insert_anis', atoms=' '.join(rng.choice(names) for _ in range(k)), residue=rng.choice(['', '', 'CCF3', '*']) if k else '')
    if r < 0.65:
        return dict(op='insert_frag', n=rng.randint(1, 6))
    if r < 0.75:
        return dict(op='delete', atom=rng.randrange(natoms), via=rng.choice(['atomid', 'method']))
    if r < 0.85:
        return dict(op='element', atom=rng.randrange(natoms), el=rng.choice(ELEMENTS))
    if r < 0.92:
        return dict(op='isotropic', atom=rng.randrange(natoms))
    return dict(op='rename', atom=rng.randrange(natoms), name=word(rng, rng.randint(1, 4), 'CNOXYZ') + str(rng.randint(1, 9)))


def make_file_case(rng, cls=None):
    cls = cls or rng.choice(['restraints', 'restraints', 'aniso', 'sfac', 'fvars', 'free-text', 'edits', 'edits', 'edits', 'size',
                             'sfac-explicit', 'layout', 'layout', 'layout', 'dsr'])
    nel = rng.randint(1, 5)
    if cls == 'sfac':
        nel = rng.randint(18, 45)
    sfac = rng.sample(ELEMENTS, nel)
    unit = [rng.choice([1, 2, 4, 8, 12, 16, 24, 36, 48, 96, 0.5, 2.5, 1200]) for _ in sfac]
    nfv = rng.choice([1, 2, 3, 6, 7, 8, 13, 14, 15, 21, 50, 99]) if cls != 'fvars' else rng.randint(1, 99)
    fvars = [round(rng.uniform(0.05, 1.5), 5)] + [round(rng.uniform(0.05, 0.95), 5) for _ in range(nfv - 1)]
    used = set()
    atoms = []
    for i in range(rng.randint(3, 14)):
        s = rng.randrange(nel) + 1
        name = gen.atom_name(rng, sfac[s - 1], used)
        aniso = rng.random() < (0.8 if cls == 'aniso' else 0.4)
        big = cls == 'aniso' and rng.random() < 0.3
        xyz = tuple(round(rng.uniform(-3.9, 3.9) if big else rng.uniform(-0.2, 1.2), 6) for _ in range(3))
        if aniso:
            u = tuple([round(rng.uniform(0.01, 0.09), 5) for _ in range(3)] + [round(rng.uniform(-0.02, 0.02), 5) or 0.001 for _ in range(3)])
            if big:
                u = tuple(round(v * rng.choice([1, 10, 100]), 5) for v in u)
        else:
            u = (round(rng.uniform(0.01, 0.09), 5),)
        sof = rng.choice([11.0, 10.5, 21.0, -21.0, 31.0, 10.25]) if nfv >= 3 else 11.0
        atoms.append(dict(name=name, sfac=s, xyz=xyz, sof=sof, u=u))
    names = [a['name'] for a in atoms]
    header = []
    hy = cls == 'free-text'
    if cls in ('restraints', 'edits', 'free-text', 'layout'):
        for _ in range(rng.randint(2, 8)):
            header.append(restraint_line(rng, names, hy))
    if cls == 'free-text':
        for _ in range(rng.randint(1, 4)):
            header.append('REM ' + ' '.join(hyphen_token(rng) if rng.random() < 0.3 else word(rng, rng.randint(1, 9)) for _ in range(rng.randint(10, 40))))
    if cls == 'dsr' or (cls in ('restraints', 'edits', 'free-text', 'layout') and rng.random() < 0.3):
        for _ in range(rng.randint(1, 3) if cls == 'dsr' else 1):
            header.insert(rng.randint(0, len(header)),
                          dsr_command(rng, names, n=rng.choice([None, rng.randint(60, 80), rng.randint(81, 100), rng.randint(100, 260)])))
    if cls == 'size':
        header.append('SIZE ' + ' '.join(str(round(rng.uniform(0.05, 0.6), 3)) for _ in range(rng.choice([1, 2, 3, 3]))))
        header.append('TEMP -173')
    titl = 'verif ' + ' '.join(hyphen_token(rng) if hy and rng.random() < 0.3 else word(rng, rng.randint(2, 9))
                               for _ in range(rng.choice([1, 3, 12, 25]) if cls == 'free-text' else 2))
    explicit = None
    if cls == 'sfac-explicit':
        explicit = 'SFAC ' + rng.choice(['Xx', 'Ge', 'Kr']).upper() + ' ' + ' '.join(f'{rng.uniform(0.1, 30):.4f}' for _ in range(14))
    ops = []
    if cls == 'edits':
        restr = [h for h in header if h.split()[0].upper()[:4] in RESTR_KW]
        ops = [edit_op(rng, names, restr, len(atoms)) for _ in range(rng.randint(1, 4))]
    reread_edits = cls == 'edits' and rng.random() < 0.5
    # the layout of the input file is part of the case (replays do not depend on the generator)
    force = cls in ('layout', 'dsr')
    header_phys = [layout_input(rng, h, force) for h in header]
    if cls == 'dsr':
        extra = dict(via=rng.choice(['read_string', 'read_file']), reread=rng.random() < 0.5, crlf=rng.random() < 0.15, dirty=rng.random() < 0.2)
        if rng.random() < 0.4:
            restr = [h for h in header if h.split()[0].upper()[:4] in RESTR_KW]
            ops = [edit_op(rng, names, restr, len(atoms)) for _ in range(rng.randint(1, 3))]
    else:
        extra = {}
    if reread_edits:
        extra = dict(reread=True)
    return dict(extra, kind='file', cls=cls, titl=titl, sfac=sfac, unit=unit, fvars=fvars, fvar_per_line=rng.choice([7, 7, 3, 10]),
                header=header, header_phys=header_phys, atoms=atoms, explicit=explicit, ops=ops)


# ------------------------------------------------------------------------------------------------
# generators: every SHELXL instruction, in every place of the file, continued in the input

# instructions gen.instruction_forms does not know: the SHELXL-2019 ones, the undocumented ones the program accepts, lists of
# numbers that are long enough to need a continuation line
def extra_forms(rng, names):
    at = lambda n: ' '.join(rng.choice(names) for _ in range(n))
    num = lambda: rng.choice(['{:.3f}', '{:.5f}', '{:.2f}']).format(rng.uniform(0.011, 0.97) * rng.choice([1, 10]))
    out = [('BEDE', 'full', f'BEDE {at(2)} 0.5 {num()} {num()} {num()} {num()} 1.5 2.5'),
           ('LONE', 'short', f'LONE 6 1 0.35 0.36 109.5 {at(3)}'),
           ('LONE', 'long', f'LONE 6 1 0.35 0.36 109.5 {at(rng.choice([18, 30, 45]))}'),
           ('LAUE', 'E', 'LAUE ' + rng.choice(ELEMENTS)),
           ('TIME', 'num1', 'TIME 600'), ('HOPE', 'num1', 'HOPE 3'), ('MOLE', 'num1', 'MOLE 3'),
           ('SHEL', 'num2', 'SHEL 99 0.8'),
           ('BASF', 'long', 'BASF ' + ' '.join(num() for _ in range(rng.choice([12, 20, 30])))),
           ('SUMP', 'long', 'SUMP 1.0 0.01 ' + ' '.join(f'{num()} {k}' for k in range(2, rng.choice([14, 24])))),
           ('OMIT', 'long', f'OMIT {at(rng.choice([18, 30]))}'), ('OMIT', 'hkl', 'OMIT -3 55'),
           ('EQIV', 'op', f'EQIV ${rng.randint(1, 9)} -x+1, -y+1/2, z-1/2'),
           ('CONN', 'long', f'CONN 12 1.5 {at(24)}'), ('HFIX', 'long', f'HFIX 43 {at(24)}'),
           ('ANIS', 'long', f'ANIS {at(30)}'), ('EXYZ', 'long', f'EXYZ {at(22)}'),
           ('TWIN', 'matrix', 'TWIN -1 0 0 0 -1 0 0 0 1 -4'),
           ('HTAB', 'atoms', f'HTAB {at(2)}_$1'), ('RTAB', 'long', f'RTAB Plan {at(20)}')]
    for kw in ('CHAN', 'FLAP', 'RNUM', 'SOCC', 'RANG', 'TANG', 'ADDA', 'STAG', 'REST', 'NOTR'):
        out.append((kw, 'num', f'{kw} ' + ' '.join(str(rng.randint(3, 9)) for _ in range(rng.randint(1, 3)))))
    return out


def keyword_forms(rng, names):
    """[(keyword, form, text)]: every instruction keyword of SHELXL that may stand between UNIT and the atoms, in every form
    (gen.instruction_forms), long atom-list instructions, and the instructions above"""
    forms = []
    for kw, form, text in gen.instruction_forms(rng, names) + gen.long_instructions(rng, 12) + extra_forms(rng, names):
        toks = text.split()
        if kw in ('REM', 'NEUT') or (len(toks) == 1 and keyword_of(toks[0]) in NEEDS_PARAM):
            continue        # free text / changes the meaning of SFAC / not an instruction without its parameters
        if kw in ('DFIX', 'DANG'):
            # the target must be larger than its standard deviation (the library refuses the file otherwise)
            nums = [i for i in range(1, len(toks)) if normtok(toks[i])[0] == 'n' and all(normtok(t)[0] == 'n' for t in toks[1:i])]
            for i, v in zip(nums, (f'{rng.uniform(1.2, 2.9):.3f}', rng.choice(['0.03', '0.015', '2e-2']))):
                toks[i] = v
            text = ' '.join(toks)
        if kw == 'DEFS':
            # plausible default standard deviations (huge ones make the library refuse every DANG/DFIX behind them)
            text = ' '.join(['DEFS'] + [f'0.0{rng.randint(1, 4)}5', '0.15', '0.015', '0.045', '0.9'][:len(toks) - 1])
        forms.append((kw, form, text))
    return forms


def body_script(rng, natoms, names):
    """the atom list with the instructions SHELXL allows between atoms: ('atom', i) / ('ins', text)"""
    out = []
    opened = set()
    for i in range(natoms):
        r = rng.random()
        if r < 0.5:
            ins = rng.choice(['PART 1 21', 'PART 2 -21', 'PART -1', 'PART 1', 'PART 2 10.5', 'AFIX 66', 'AFIX 43', 'AFIX 137 0.98',
                              'AFIX 23 0.97 11 -1.2', 'RESI 1 CCF3', 'RESI CCF3 2', 'RESI 3', 'RESI 4 TOL A', 'MOLE 1',
                              'SAME ' + ' '.join(rng.choice(names) for _ in range(rng.choice([2, 6, 24]))),
                              'HFIX 13 ' + rng.choice(names), 'ANIS 2', 'SPEC 0.2', 'MOVE 1 1 1 -1', 'MOVE 0.5 0 0.5'])
            out.append(('ins', ins))
            opened.add(ins.split()[0])
        out.append(('atom', i))
        if 'AFIX' in opened and rng.random() < 0.5:
            out.append(('ins', 'AFIX 0'))
            opened.discard('AFIX')
        if rng.random() < 0.1:
            out.append(('ins', 'FRAG 17 1 1 1 90 90 90'))
            for k in range(rng.randint(1, 3)):
                out.append(('ins', f'C{k + 1} 1 {0.1 * k:.5f} {1.0 + 0.25 * k:.5f} {-0.5 * k:.5f}'))
            out.append(('ins', 'FEND'))
    for kw in ('AFIX', 'PART', 'RESI'):
        if kw in opened:
            out.append(('ins', f'{kw} 0'))
    return out


# the instructions whose tokens are not kept one to one by any printer (C01 states what happens to them)
NOT_TOKEN_EXACT = {'TITL', 'REM', 'SYMM', 'FVAR', 'END'}


def keyword_of(tok):
    return tok.upper().split('_')[0][:4]


def make_atoms(rng, sfac, n, p_aniso=0.4, nfv=1):
    used = set()
    atoms = []
    for i in range(n):
        k = rng.randrange(len(sfac)) + 1
        name = gen.atom_name(rng, sfac[k - 1], used)
        xyz = tuple(round(rng.uniform(-0.2, 1.2), 6) for _ in range(3))
        if rng.random() < p_aniso:
            u = tuple([round(rng.uniform(0.01, 0.09), 5) for _ in range(3)] + [round(rng.uniform(-0.02, 0.02), 5) or 0.001 for _ in range(3)])
        else:
            u = (round(rng.uniform(0.01, 0.09), 5),)
        sof = rng.choice([11.0, 10.5, 21.0, -21.0, 31.0, 10.25]) if nfv >= 3 else 11.0
        atoms.append(dict(name=name, sfac=k, xyz=xyz, sof=sof, u=u))
    return atoms


LAYOUT_MODES = ['keyword', 'every', 'greedy', 'ragged', 'early']


def make_keyword_case(rng, picks=None, mode=None, wide=None, cls='keywords', ops=0):
    """a complete file in which EVERY line but TITL (the header lines CELL … UNIT, the picked instructions, the instructions
    between the atoms, the atoms themselves, HKLF, the weighting scheme behind END) is laid out by the generator: continued
    directly behind the keyword, behind every token, greedily, raggedly; with comments behind the marks. The physical text of
    the input is part of the case."""
    nel = rng.randint(2, 5)
    sfac = rng.sample(ELEMENTS, nel)
    unit = [rng.choice([1, 2, 4, 8, 12, 16, 24, 36, 48, 96, 0.5, 2.5, 1200]) for _ in sfac]
    nfv = rng.choice([1, 3, 6, 8, 15])
    fvars = [round(rng.uniform(0.05, 1.5), 5)] + [round(rng.uniform(0.05, 0.95), 5) for _ in range(nfv - 1)]
    atoms = make_atoms(rng, sfac, rng.randint(3, 8), nfv=nfv)
    names = [a['name'] for a in atoms]
    if picks is None:
        forms = keyword_forms(rng, names)
        picks = [rng.choice(forms)[2] for _ in range(rng.randint(3, 9))]
        if rng.random() < 0.3:
            picks.insert(rng.randint(0, len(picks)), dsr_command(rng, names, n=rng.choice([None, rng.randint(70, 90), rng.randint(90, 250)])))
    fs = gen.FileSpec(titl='verif ' + word(rng, 5), sfac=list(sfac), unit=list(unit), fvars=list(fvars))
    fs.cell = gen.rand_cell(rng)
    fs.latt = rng.choice([-1, 1, 2, -2])
    fs.symm = [rng.choice(gen.SYMM_OPS)] if rng.random() < 0.3 else []
    fs.header = list(picks)
    fs.fvar_per_line = rng.choice([7, 7, 3, 10])
    specs = [gen.AtomSpec(a['name'], a['sfac'], tuple(a['xyz']), a['sof'], tuple(a['u'])) for a in atoms]
    fs.body = [specs[x] if k == 'atom' else x for k, x in body_script(rng, len(atoms), names)]
    fs.hklf = rng.choice(['HKLF 4', 'HKLF 4', 'HKLF 5 0.5', 'HKLF 4 0.7 0 1 0 -1 0 0 0 0 1'])
    fs.tail = [rng.choice(['WGHT 0.0421 0.5678', 'WGHT 0.1', 'WGHT 0.0312 1.2345 0 0 0 0.3333'])] if rng.random() < 0.6 else []
    logical = fs.lines()
    if rng.random() < 0.3:      # DISP has its place between SFAC and UNIT
        k = next(i for i, ln in enumerate(logical) if ln.startswith('SFAC')) + 1
        logical[k:k] = [f'DISP {el} {rng.uniform(-0.5, 0.5):.4f} {rng.uniform(0.001, 3):.4f} {rng.uniform(1, 900):.2f}' for el in rng.sample(sfac, rng.randint(1, len(sfac)))]
    phys = []
    for ln in logical:
        w = wide if (wide and rng.random() < 0.6) else None
        phys.extend(layout_input(rng, ln, force=rng.random() < 0.8, modes=[mode] if mode else LAYOUT_MODES, wide=w))
    header = [ln for ln in logical if token_exact(ln.split())]
    restr = [h for h in header if keyword_of(h.split()[0]) in RESTR_KW]
    case = dict(kind='file', cls=cls, titl=fs.titl, sfac=sfac, unit=unit, fvars=fvars, fvar_per_line=fs.fvar_per_line,
                header=header, atoms=atoms, explicit=None, input='\n'.join(phys) + '\n', all_known=True,
                via=rng.choice(['read_string', 'read_string', 'read_file']), dirty=rng.random() < 0.25, reread=rng.random() < 0.3,
                crlf=rng.random() < 0.15,
                ops=[edit_op(rng, names, restr, len(atoms)) for _ in range(ops)])
    return case


def systematic_keyword_cases(rng, per_file=7):
    """every keyword in every form, once continued directly behind the keyword and once in another layout"""
    names = ['C1', 'C2', 'O1', 'N1', 'C3', 'C4', 'C5', 'C6']
    out = []
    for mode in ('keyword', None):
        texts = [t for _, _, t in keyword_forms(rng, names) if len(t.split()) > 1]
        for i in range(0, len(texts), per_file):
            c = make_keyword_case(rng, picks=texts[i:i + per_file], mode=mode, cls='keywords/' + (mode or 'mixed'))
            out.append(c)
    return out


def systematic_dsr_cases(rng):
    """DSR commands (PUT / REPLACE x spelling) whose joined text ends on every column 72..92 and on a coarse grid up to 260, in
    every layout of the input (one line where it fits, greedy, ragged, behind every token); four commands per file; read through
    read_string / read_file, written, and written once more after a fresh object has read the written file"""
    sfac = ['C', 'O', 'F']
    out = []
    lens = list(range(72, 93)) + [100, 120, 158, 159, 160, 161, 200, 237, 260]
    specs = [(n, ['greedy', 'ragged', 'every', 'early'][i % 4], ['upper', 'lower', 'mixed'][i % 3]) for i, n in enumerate(lens)]
    for i in range(0, len(specs), 4):
        atoms = make_atoms(rng, sfac, 5)
        names = [a['name'] for a in atoms]
        header, phys = [], []
        for n, mode, sp in specs[i:i + 4]:
            cmd = dsr_command(rng, names, n=n, spelling=sp)
            header.append(cmd)
            phys.append(layout_input(rng, cmd, force=len(cmd) > 76, modes=[mode]))
            if rng.random() < 0.5:
                r = restraint_line(rng, names).split(' !')[0]
                header.append(r)
                phys.append(layout_input(rng, r))
        out.append(dict(kind='file', cls='dsr/systematic', titl='verif dsr', sfac=sfac, unit=[12, 4, 8], fvars=[0.5, 0.6, 0.7], fvar_per_line=7,
                        header=header, header_phys=phys, atoms=atoms, explicit=None, ops=[], via=['read_string', 'read_file'][(i // 4) % 2],
                        reread=True))
    return out


def render_file(case):
    fs = gen.FileSpec(titl=case['titl'], sfac=list(case['sfac']), unit=list(case['unit']), fvars=list(case['fvars']))
    fs.header = list(case['header'])
    fs.fvar_per_line = case['fvar_per_line']
    fs.body = [gen.AtomSpec(a['name'], a['sfac'], tuple(a['xyz']), a['sof'], tuple(a['u'])) for a in case['atoms']]
    phys = case.get('header_phys')
    if phys:
        fs.header = [f'\x00{i}' for i in range(len(phys))]
    lines = fs.lines()
    out = []
    for ln in lines:
        if ln.startswith('\x00'):
            out.extend(phys[int(ln[1:])])
            continue
        if case.get('explicit') and ln.startswith('UNIT '):
            out.append(case['explicit'])
            ln = ln + ' 1'
        # the input file itself obeys the 80 column rule (the generator's own wrapping, independent of the code under test)
        out.extend(wrap_input(ln))
    return '\n'.join(out) + '\n'


def wrap_input(ln):
    if len(ln) <= COLS or (ln.startswith(('TITL', 'REM')) and not is_dsr(ln.split())):
        return [ln[:COLS]] if ln.startswith(('TITL', 'REM')) and not is_dsr(ln.split()) else [ln]
    if ' !' in ln:
        # a continuation mark inside a '!' comment is not a continuation mark (C05): wrap the instruction only and
        # keep the comment on the last physical line if it fits there
        code, _, comment = ln.partition(' !')
        res = wrap_input(code.rstrip())
        if len(res[-1]) + 2 + len(comment) <= COLS and '=' not in comment:
            res[-1] += ' !' + comment
        return res
    toks = ln.split(' ')
    res, cur = [], ''
    for t in toks:
        cand = t if not cur else cur + ' ' + t
        if len(cand) > COLS - 2 and cur:
            res.append(cur + ' =')
            cur = '   ' + t
        else:
            cand = cand
            cur = cand
    res.append(cur)
    return res


def write_and_read(shx, tmp):
    p = Path(tmp) / 'written.res'
    shx.write_shelx_file(str(p))
    return p.read_text()


def merge_cont(parts):
    """token lists of the newline-separated parts of one item -> logical lines: a part whose last token ends in '='
    is continued by the next part (a raw text item keeps the continuation lines of its instruction, C07)"""
    out = []
    cont = False
    for part in parts:
        part = list(part)
        nxt = bool(part) and part[-1].endswith('=')
        if nxt:
            part[-1] = part[-1][:-1]
            if not part[-1]:
                part.pop()
        if cont and out:
            out[-1] = out[-1] + part
        else:
            out.append(part)
        cont = nxt
    return out


def expected_items(shx):
    """the texts the writer is about to print: the items of the res list it does not skip (shelx.py write loop)"""
    items = []
    for num, line in enumerate(shx._reslist):
        if num in shx.delete_on_write or (hasattr(shx, '_is_included') and shx._is_included(line)):
            continue
        if line == '':
            continue
        items.append((type(line).__name__, str(line)))
    return items


def inserted_lines(lx):
    """(class, blank-led, tokens) of the physical lines of an inserted text that are short enough to be written as they are"""
    return [[c, pl.startswith(' '), pl.split()] for c, pl in lx['classes'] if len(pl) <= COLS and c != 'blank']


DIRTY = ('TITL dirty\nCELL 0.71073 7 8 9 90 90 90\nZERR 2 0.001 0.001 0.001 0 0 0\nLATT 2\nSYMM -x, -y, z\nSFAC C N S\nUNIT 4 4 2\n'
         'LONE 6 1 0.35 0.36 109.5 N1 =\n   C1 C2\nSADI C1 C2 =\n  N1 C2\nOMIT -3 =\n 55 ! dirty = comment\nFVAR 0.5 0.25\nPART 1 =\n 21\n'
         'C1 1 0.1 0.2 0.3 21.0 0.05\nC2 1 0.2 0.3 0.4 21.0 0.04 0.05 =\n  0.06 0.01 0.02 0.03\nPART 0\nN1 2 0.3 0.4 0.5 11.0 0.05\n'
         'HKLF 4\nEND\n')


def normtok(t):
    """numbers are compared by value, words without case (a printer may respell 7.077e-01 as 0.7077, SADI_tol as SADI_TOL)"""
    try:
        return ['n', round(float(t), 7)]
    except ValueError:
        return ['s', t.upper()]


def same_instruction(want, got):
    """the written instruction has the tokens of the generated one; a purely numeric instruction may be printed with further
    (default) numbers behind them"""
    w, g = [normtok(t) for t in want], [normtok(t) for t in got]
    if w == g:
        return True
    return len(g) > len(w) and g[:len(w)] == w and all(k == 'n' for k, _ in w[1:] + g[len(w):])


def all_instructions_of(lx):
    return [l for l in (lx['logical'] or []) if l and token_exact(l)]


def observe_file(case, tmp, oplex):
    from shelxfile import Shelxfile
    shx = Shelxfile()
    text = case.get('input') or render_file(case)
    if case.get('crlf'):
        text = text.replace('\n', '\r\n')      # a file that comes from another operating system: same lines
    if case.get('dirty'):
        shx.read_string(DIRTY)          # the object has read another file before (nothing of it may be left)
    if case.get('via') == 'read_file':
        p = Path(tmp) / 'input.res'
        p.write_bytes(text.encode())
        shx.read_file(str(p))
    else:
        shx.read_string(text)
    if len(shx.atoms) != len(case['atoms']):
        return dict(error=f'parse: {len(shx.atoms)} atoms, generated {len(case["atoms"])}', input=text)
    res = dict(input=text, stages=[])
    atoms = list(shx.atoms)
    # by construction: the token sequences of the restraint-like instructions the file must contain (multiset)
    want = [code_tokens(h) for h in case['header'] if h.split()[0].upper()[:4] in RESTR_KW]
    targets = list(want)        # the generated header instructions, addressed by the edit ops by position
    want_lines = []             # by construction: (class, blank-led, tokens) of the physical lines the edit ops inserted
    # by construction: every generated instruction of any keyword (tokens compared as numbers / without case)
    want_kw = [code_tokens(h) for h in case['header'] if token_exact(h.split())]

    def instructions_of(text):
        return [l for l in (oplex[text]['logical'] or []) if l and l[0].upper().split('_')[0][:4] in RESTR_KW]

    def find_item(toks):
        for it in shx._reslist:
            if not (hasattr(shx, '_is_included') and shx._is_included(it)) and it != '' and code_tokens(str(it)) == toks:
                return it
        raise LookupError('instruction not in the file')

    def stage(name, obj):
        try:
            items = expected_items(obj)
            written = write_and_read(obj, tmp)
        except Exception as e:
            res['stages'].append(dict(name=name, error=f'{type(e).__name__}'))
            return None
        st = dict(name=name, items=items, written=written, want=[list(w) for w in want], want_lines=[list(w) for w in want_lines],
                  want_kw=[list(w) for w in want_kw])
        try:
            st['fvars'] = (list(obj.fvars.as_stringlist), str(obj.fvars))
            if not case.get('explicit'):
                st['sfac'] = (list(obj.sfac_table), repr(obj.sfac_table))
        except Exception as e:
            st['multi_error'] = type(e).__name__
        res['stages'].append(st)
        return written

    last = stage('read', shx)
    for k, op in enumerate(case['ops']):
        try:
            if op['op'] == 'add_line':
                pos = dict(unit=lambda: shx.unit.position, fvar=lambda: shx.fvars.position, atom=lambda: atoms[0].index, first=lambda: 0)[op['where']]()
                shx.add_line(pos, op['text'])
                want.extend(instructions_of(op['text']))
                want_kw.extend(all_instructions_of(oplex[op['text']]))
                want_lines.extend(inserted_lines(oplex[op['text']]))
            elif op['op'] in ('replace_line', 'set'):
                old = targets[op['target']]
                if old is None:
                    raise LookupError('target was replaced before')
                obj = find_item(old)
                if op['op'] == 'set':
                    obj.set(op['text'])          # Command objects only; AttributeError otherwise (op skipped)
                    targets[op['target']] = code_tokens(op['text'])
                else:
                    shx.replace_line(obj, op['text'])
                    targets[op['target']] = None
                    want_lines.extend(inserted_lines(oplex[op['text']]))
                want.remove(old)
                want.extend(instructions_of(op['text']))
                if old in want_kw:
                    want_kw.remove(old)
                want_kw.extend(all_instructions_of(oplex[op['text']]))
            elif op['op'] == 'insert_anis':
                shx.insert_anis(atoms=op['atoms'], residue=op['residue'])
                w = (['ANIS' + ('_' + op['residue'] if op['residue'] else '')] + op['atoms'].split()) if op['atoms'] else ['ANIS']
                want.append(w)
                want_kw.append(w)
            elif op['op'] == 'insert_frag':
                dbatoms = [[f'C{i + 1}', 1, f'{0.1 * i:.5f}', f'{1.0 + 0.25 * i:.5f}', f'{-0.5 * i:.5f}'] for i in range(op['n'])]
                shx.insert_frag_fend_entry(dbatoms, [1, 1, 1, 90, 90, 90])
                want_lines.append(['instruction', False, ['FRAG', '17', '1', '1', '1', '90', '90', '90']])
                want_lines.extend(['atom', False, [str(x) for x in a]] for a in dbatoms)
                want_lines.append(['instruction', False, ['FEND']])
                want_kw.extend([['FRAG', '17', '1', '1', '1', '90', '90', '90'], ['FEND']])
            elif op['op'] == 'delete':
                a = atoms[op['atom']]
                if op['via'] == 'atomid':
                    del shx.atoms[a.atomid]
                else:
                    a.delete()
            elif op['op'] == 'element':
                atoms[op['atom']].element = op['el']
                # a new element extends SFAC and UNIT (C04 says how): their tokens are no longer the generated ones
                want_kw[:] = [w for w in want_kw if keyword_of(w[0]) not in ('SFAC', 'UNIT')]
            elif op['op'] == 'isotropic':
                atoms[op['atom']].to_isotropic()
            elif op['op'] == 'rename':
                atoms[op['atom']].name = op['name']
        except Exception as e:   # an edit that raises is another property's business (C04/C08); the file is written as it is
            res.setdefault('op_errors', []).append((k, type(e).__name__))
        last = stage(f'op{k}:{op["op"]}', shx) or last
    if case.get('reread') and last is not None:
        # the written file is itself a valid input: read by a fresh object and written again it must be well-formed as well
        # and still hold the generated instructions
        want_lines = []
        try:
            shx2 = Shelxfile()
            shx2.read_string(last)
            stage('reread', shx2)
        except Exception as e:
            res['stages'].append(dict(name='reread', error=f'{type(e).__name__}'))
    return res


# ------------------------------------------------------------------------------------------------
# evaluation

def width_class(n):
    return 'le80' if n <= COLS else f'{n}'


def evaluate_lines(ctx, cases):
    from shelxfile.misc.misc import wrap_line
    outs = []
    reqs = []
    for c in cases:
        try:
            o = wrap_line(c['s'])
        except Exception as e:
            o = None
            c['_raise'] = type(e).__name__
        outs.append(o)
        reqs.append(dict(p='C06', op='wrap', s=c['s'], **({'out': o} if o is not None else {})))
    ans = ctx.driver.batch(reqs)
    ctx.stream('line')
    for c, o, r in zip(cases, outs, ans):
        cls = c.get('cls', 'replay')
        case = dict(kind='line', cls=cls, s=c['s'])
        hyp = r['hyp']
        ms = r['model_spec']
        n = len(c['s'])
        multi = o is not None and '\n' in o
        ctx.count(['line', c['s']], nontrivial=n > 70,
                  tags=['line:' + cls, 'wrapped' if multi else 'single', f'pieces={min(len(ms["phys"]), 5)}'] +
                       ([] if hyp['noLongTok'] else ['long-token']) + ([] if hyp['endOk'] else ['ends-in-=']),
                  sample=dict(stream='line', s=c['s'][:120], impl=o[:200] if o else o) if multi else None)
        payload = dict(case=case, stream='line', actual=o, model=r['model'])
        if o is None:
            ctx.fail(f'C06|line|{cls.split("/")[0]}|raise={c["_raise"]}', f'wrap_line raised {c["_raise"]} on a {n}-character line', payload)
            continue
        sp = r['impl_spec']
        inside = hyp['noNL'] and hyp['endOk']
        # model vs spec inside the hypotheses of the proved theorems: cannot differ
        if ms['maxlen'] > COLS and ctx.consts_ok:
            raise RuntimeError(f'model violates wrap_width on {c["s"]!r}')
        if inside and ctx.consts_ok and (not ms['shape'] or ms['nonblank'] != [r['nonblank']] or
                                         (hyp['noLongTok'] and ms['logical'] != [r['tokens']])):
            raise RuntimeError(f'model violates its theorems on {c["s"]!r}')
        # implementation vs spec
        if sp['maxlen'] > COLS:
            lens = [len(p) for p in sp['phys']]
            where = 'first' if lens[0] > COLS else 'continuation' if any(x > COLS for x in lens[1:-1]) else 'last'
            ctx.fail(f'C06|line|width|{where}', f'wrap_line wrote a physical line of {sp["maxlen"]} columns (> {COLS}) for a {n}-character instruction',
                     dict(payload, expected=f'<= {COLS} columns', lengths=lens))
        if inside:
            if not sp['shape']:
                ctx.fail('C06|line|shape', 'a broken line does not end in " =" or a continuation does not begin with a blank',
                         dict(payload, expected='every piece but the last ends in " =", every continuation begins with a blank'))
            toks = r['tokens']
            if hyp['noLongTok']:
                if sp['logical'] != [toks]:
                    hy = any('-' in t for t in toks)
                    ctx.fail('C06|line|tokens|' + ('hyphen' if hy else 'plain'),
                             'joining the continuation lines does not give back the token sequence of the instruction' +
                             (' (a token is broken after a hyphen)' if hy else ''),
                             dict(payload, expected=[toks], actual_logical=sp['logical']))
            elif sp['nonblank'] != [r['nonblank']]:
                ctx.fail('C06|line|chars|long-token', 'characters lost or added while splitting an over-long token',
                         dict(payload, expected=r['nonblank'], actual_logical=sp['nonblank']))
        # comment-aware reading (SHELXL ignores everything behind '!'; a line that begins with a blank and continues nothing
        # is a comment line): the code part of the instruction comes back token for token, no dangling continuation.
        # Harness-level oracle (the theorems are about the plain lexer); REM/TITL are free text and never continued.
        codepart = c['s'].split('!')[0]
        if '!' in c['s'] and hyp['noNL'] and hyp['noLongTok'] and not codepart.rstrip().endswith('=') and \
                not c['s'].lstrip().upper().startswith(('REM', 'TITL')) and codepart.split() and not c['s'].startswith(' '):
            if sp['logicalC'] != [r['code_tokens']] or sp['bad_cont']:
                ctx.fail('C06|line|code-tokens|comment', 'read with comments ignored, the written lines do not give back the code part of the instruction',
                         dict(payload, expected=[r['code_tokens']], actual_logical=sp['logicalC']))
        # implementation vs model (exact text: the property is about the text)
        if o != r['model']:
            hy = '-' in c['s']
            ctx.fail('C06|line|model|' + ('hyphen' if hy else cls.split('/')[0]), 'wrap_line output differs from the model wrapLine',
                     dict(payload, expected=r['model']), kind='correspondence')


def overlong_mark_lines(items):
    """{keyword: 'blanks' | 'comment'} of the raw texts about to be written in which a physical line carries a continuation mark
    and is longer than 80 columns only through what stands behind the mark (open finding, see known_findings.jsonl)"""
    out = {}
    for tname, text in items:
        if tname != 'str' or len(text) <= COLS:
            continue
        parts = text.split('\n')
        for p in parts:
            code = p.split('!')[0].rstrip()
            if len(p) > COLS and code.endswith('=') and len(code) <= COLS and p[:3].upper() != 'REM' and parts[0].split():
                out[keyword_of(parts[0].split()[0])] = 'comment' if '!' in p else 'blanks'
    return out


def witness_cases():
    """the inputs of the open findings, in every run (a finding that silently disappears is noticed)"""
    head = ['TITL witness', 'CELL 0.71073 10 11 12 90 95 90', 'ZERR 2 0.001 0.001 0.001 0 0.01 0', 'LATT 1', 'SFAC C H O', 'UNIT 20 20 4']
    tail = ['FVAR 1.0', 'C1 1 0.1 0.2 0.3 11.0 0.05', 'HKLF 4', 'END']
    atoms = [dict(name='C1', sfac=1, xyz=(0.1, 0.2, 0.3), sof=11.0, u=(0.05,))]
    out = []
    for kind, first in (('blanks', 'OMIT C1 C2 =' + ' ' * 80), ('comment', 'OMIT C1 C2 = ! ' + 'comment ' * 10)):
        text = '\n'.join(head + [first, '  C3 C4'] + tail) + '\n'
        out.append(dict(kind='file', cls='finding-witness/' + kind, titl='witness', sfac=['C', 'H', 'O'], unit=[20, 20, 4], fvars=[1.0],
                        fvar_per_line=7, header=['OMIT C1 C2 C3 C4'], atoms=atoms, explicit=None, input=text, all_known=False, ops=[]))
    return out


def first_upper(toks):
    return toks[0].upper()[:4] if toks else ''


def evaluate_files(ctx, cases):
    tmp = tempfile.mkdtemp(prefix='c06_')
    try:
        texts = sorted({o['text'] for c in cases for o in c['ops'] if 'text' in o})
        oplex = dict(zip(texts, ctx.driver.batch([dict(p='C06', op='lex', text=t + '\n') for t in texts]))) if texts else {}
        obs = [observe_file(c, tmp, oplex) for c in cases]
    finally:
        shutil.rmtree(tmp, ignore_errors=True)
    reqs = []
    idx = []
    for ci, (c, ob) in enumerate(zip(cases, obs)):
        for si, st in enumerate(ob.get('stages', [])):
            if 'error' in st:
                continue
            reqs.append(dict(p='C06', op='lex', text=st['written']))
            idx.append((ci, si, 'file', None))
            reqs.append(dict(p='C06', op='lex', text=''.join(t + '\n' for _, t in st['items'])))
            idx.append((ci, si, 'expected', None))
            for k, (tname, text) in enumerate(st['items']):
                reqs.append(dict(p='C06', op='wrap', s=text))
                idx.append((ci, si, 'item', k))
                if tname == 'str' and '\n' in text:
                    reqs.append(dict(p='C06', op='lex', text=text + '\n'))
                    idx.append((ci, si, 'itemlex', k))
            if 'fvars' in st:
                reqs.append(dict(p='C06', op='fvar', vals=st['fvars'][0]))
                idx.append((ci, si, 'fvar', None))
            if 'sfac' in st:
                reqs.append(dict(p='C06', op='sfac', els=st['sfac'][0]))
                idx.append((ci, si, 'sfac', None))
    ans = ctx.driver.batch(reqs) if reqs else []
    ctx.stream('file')
    ctx.stream('multi')
    per = {}
    for key, r in zip(idx, ans):
        per.setdefault(key[:2], []).append((key[2], key[3], r))
    for ci, (c, ob) in enumerate(zip(cases, obs)):
        case = {k: v for k, v in c.items() if not k.startswith('_')}
        cls = c.get('cls', 'replay')
        if 'error' in ob:
            ctx.fail('C06|file|parse', f'generated valid file not parsed as expected: {ob["error"]}', dict(case=case, stream='file', actual=ob), kind='correspondence')
            continue
        nfail0 = None
        for si, st in enumerate(ob['stages']):
            if nfail0 is not None and len(ctx.failures) > nfail0:
                break       # the later stages of the same history repeat the failure of this one
            nfail0 = len(ctx.failures)
            stage = st['name'].split(':')[-1]
            payload = dict(case=case, stream='file', stage=st['name'], input=ob['input'])
            if 'error' in st:
                ctx.fail(f'C06|file|write-raises|{st["error"]}|{stage}', f'write_shelx_file raised {st["error"]} after {st["name"]}', payload)
                continue
            rs = per[(ci, si)]
            marks = overlong_mark_lines(st['items'])

            def known_class(kw, sig):
                # the open finding has a signature of its own, so that any other violation of the same oracle is still reported
                if kw in marks:
                    return f'C06|file|raw-continued|mark-line>80-by-{marks[kw]}'
                return sig
            fr = [r for k, _, r in rs if k == 'file'][0]
            er = [r for k, _, r in rs if k == 'expected'][0]
            items = [r for k, _, r in rs if k == 'item']
            written = st['written']
            ctx.count(['file', ob['input'], st['name'], [o for o in c['ops'][:si]]], nontrivial=fr['maxlen'] > 70 or '=' in written,
                      tags=['file:' + cls, 'stage:' + stage, 'maxlen=' + width_class(fr['maxlen'])] +
                           (['text:' + c['ops'][si - 1]['text_kind']] if 0 < si <= len(c['ops']) and 'text_kind' in c['ops'][si - 1] else []) +
                           [t for t in ('via:' + c.get('via', 'read_string'), 'dirty-object' if c.get('dirty') else None, 'crlf' if c.get('crlf') else None) if t and si == 0],
                      sample=dict(stream='file', cls=cls, stage=st['name'], longest=max(written.split('\n'), key=len)) if si == 0 else None)
            payload['actual'] = written
            # 1. width
            if fr['maxlen'] > COLS:
                kinds = sorted({first_upper(ln.split()) if not ln.startswith(' ') else 'continuation' for ln in fr['long']})
                ctx.fail('C06|file|width|' + ('continuation' if kinds == ['continuation'] else 'first'),
                         f'written file has a physical line of {fr["maxlen"]} columns (> {COLS}): {fr["long"][0]!r}',
                         dict(payload, expected=f'<= {COLS} columns', long=fr['long']))
            # 2a. shape of the file: a line flagged as continued is followed by a line that begins with a blank
            for a, b in fr['bad_cont']:
                kw = first_upper(a.split())
                ctx.fail(known_class(keyword_of(a.split()[0]) if a.split() else '', f'C06|file|shape|{"continuation-not-blank" if b is not None else "dangling-at-eof"}|{kw if not a.startswith(" ") else "continuation"}'),
                         f'the written line {a!r} ends in a continuation mark but ' +
                         (f'the next line {b!r} does not begin with a blank' if b is not None else 'nothing follows'),
                         dict(payload, expected='a continuation line that begins with a blank', lines=[a, b]))
            # 2b. an instruction object whose own text ends in a continuation mark is not a complete instruction
            for (tname, text), ir in zip(st['items'], items):
                if tname != 'str' and ir['cont']:
                    ctx.fail(f'C06|file|item-ends-in-continuation|{first_upper(text.split())}|item={tname}',
                             f'the {tname} object to be written has the text {text[-60:]!r}, which ends in a continuation mark',
                             dict(payload, expected='a complete instruction', item=text))
            # 2c. the (comment-aware) lexer gives back, from the wrapped file, the token sequences of the unwrapped instructions
            # (an ordinary remark is free text and never continued: what the wrapper does to one of more than 80 columns is a
            # remark and a blank-led comment line -- width and line classes are checked, its tokens are not; a DSR command is
            # an instruction in this respect)
            def no_remarks(ls):
                return None if ls is None else [l for l in ls if not (l and keyword_of(l[0]) == 'REM' and not is_dsr(l))]
            exp = no_remarks(er['logical'])
            fr = dict(fr, logical_all=fr['logical'], logical=no_remarks(fr['logical']))
            if fr['logical'] is None:
                ctx.fail('C06|file|dangling-continuation', 'the last physical line of the written file is flagged as continued', payload)
            elif exp is not None and fr['logical'] != exp:
                got = fr['logical']
                k = next((i for i, (a, b) in enumerate(zip(got, exp)) if a != b), min(len(got), len(exp)))
                e, g = (exp[k] if k < len(exp) else None), (got[k] if k < len(got) else None)
                hy = bool(e) and any('-' in t for t in e)
                longtok = bool(e) and any(len(t) > 75 for t in e)
                what = 'hyphen' if hy else 'long-token' if longtok else 'plain'
                ctx.fail(known_class(keyword_of(e[0]) if e else '', f'C06|file|tokens|{what}|{first_upper(e or [])}'),
                         f'joining the continuation lines of the written file does not give back the tokens of instruction {k}: {g} for {e}',
                         dict(payload, expected=e, actual_logical=g))
            # 2d. by construction: the restraint-like instructions of the generated file and of the edit history are in the
            #     written file with exactly their tokens (independent of what the objects say about themselves)
            gotr = sorted(l for l in (fr['logical'] or []) if l and l[0].upper().split('_')[0][:4] in RESTR_KW)
            wantr = sorted(st['want'])
            if fr['logical'] is not None and gotr != wantr:
                missing = [w for w in wantr if w not in gotr]
                extra = [g for g in gotr if g not in wantr]
                kw = first_upper((missing or extra or [['?']])[0])
                hist = '+'.join(sorted({o['op'] for o in c['ops'][:si]})) or 'none'
                ctx.fail(known_class(keyword_of((missing or extra or [['?']])[0][0]), f'C06|file|instruction-tokens|{kw}|history={hist}'),
                         f'after {st["name"]} the written file does not hold the generated instruction(s) with their tokens: '
                         f'missing {missing[:2]}, instead {extra[:2]}',
                         dict(payload, expected=missing, actual_logical=extra))
            # 2g. by construction: every generated instruction of ANY keyword (the instructions the library parses into objects as
            #     well as those it only passes through: LAUE, BEDE, LONE, OMIT, EQIV, TIME, MOLE …; in the header, between the
            #     atoms, behind END), whatever its layout in the input, is in the written file with its tokens (numbers compared
            #     by value, words without case; a numeric instruction may be printed with further default numbers)
            if fr['logical'] is not None and st.get('want_kw'):
                pool = [l for l in fr['logical'] if l]
                missing = []
                for w in st['want_kw']:
                    k = next((i for i, g in enumerate(pool) if same_instruction(w, g)), None)
                    if k is None:
                        missing.append(w)
                    else:
                        pool.pop(k)
                kws = {keyword_of(w[0]) for w in st['want_kw']}
                extra = [g for g in pool if c.get('all_known') and keyword_of(g[0]) in kws and token_exact(g)]
                if missing or extra:
                    w = (missing or extra)[0]
                    kw = keyword_of(w[0])
                    instead = [g for g in pool if keyword_of(g[0]) == kw][:2]
                    hist = '+'.join(sorted({o['op'] for o in c['ops'][:si]})) or 'none'
                    ctx.fail(known_class(kw, f'C06|file|keyword-tokens|{kw}|{"missing" if missing else "extra"}|history={hist}'),
                             f'after {st["name"]} the written file ' +
                             (f'does not hold the generated instruction {" ".join(w)!r} with its tokens; lines with that keyword: {instead}'
                              if missing else f'holds an instruction that was not generated: {" ".join(w)!r}'),
                             dict(payload, expected=missing[:3], actual_logical=instead or extra[:3]))
            # 2e. every physical line is an instruction (SHELXL keyword), an atom, a comment (blank-led, REM, '!'), an include
            #     or a continuation of the line before it -- classified by the specification, not by the library
            hist = '+'.join(sorted({o['op'] for o in c['ops'][:si]})) or 'none'
            unknown = [pl for cl, pl in fr['classes'] if cl == 'unknown']
            if unknown:
                ctx.fail(f'C06|file|line-class|unknown|after={stage}',
                         f'after {st["name"]} the written file has a line that is neither an instruction, an atom, a comment nor a '
                         f'continuation: {unknown[0]!r}', dict(payload, expected='instruction, atom, comment or continuation', lines=unknown[:5]))
            # 2f. by construction: what the edit ops put into the file is there as the same kind of line (a blank-led comment
            #     stays blank-led, a commented-out instruction stays a comment, a hand-made continuation stays one)
            have = [[cl, pl.startswith(' '), pl.split()] for cl, pl in fr['classes']]
            lost = [w for w in st['want_lines'] if w not in have]
            if lost:
                w = lost[0]
                same = [h for h in have if h[2] == w[2]]
                ctx.fail(f'C06|file|inserted-line-class|{w[0]}{"|blank-led" if w[1] else ""}|after={stage}',
                         f'after {st["name"]} the inserted {w[0]} line {" ".join(w[2])!r} ' +
                         (f'is written as {same[0][0]}{" (blank-led)" if same[0][1] else " (at column 1)"}' if same else 'is not in the written file as given'),
                         dict(payload, expected=w, actual_logical=same[:1]))
            # 3. no bare number, no empty line, no keyword without its parameters
            pos = 0
            itemlex = {k: r for kk, k, r in rs if kk == 'itemlex'}
            for kitem, ((tname, text), ir) in enumerate(zip(st['items'], items)):
                if tname == 'str' and kitem in itemlex and itemlex[kitem]['logical'] is not None:
                    # a raw text with its continuation lines: the logical lines as the comment-aware lexer reads them (a mark
                    # in front of a '!' comment is a mark, blank-led lines that continue nothing are comments)
                    parts = [l for l in itemlex[kitem]['logical']]
                    if not any(parts) and text.split():
                        parts = []
                else:
                    parts = merge_cont(ir['parts']) if tname == 'str' else ir['parts']
                if tname == 'str' and text.startswith(' '):
                    continue            # a blank-led text that continues nothing is a comment, whatever it begins with
                for part in parts:
                    if not part and text.split():
                        continue        # an empty line inside / behind a multi-line text (FRAG ... FEND entry): harmless
                    bare = (not part) or part[0][0] in '0123456789.-=' or (part[0][0] == '+' and len(part[0]) > 1 and part[0][1] in '0123456789.')
                    if bare:
                        kind = 'empty-line' if not part else 'bare-number'
                        hist = 'add_line' if any(o['op'] == 'add_line' for o in c['ops'][:si]) else 'none'
                        ctx.fail(f'C06|file|{kind}|item={tname}|history={hist}',
                                 f'the writer emits {"an empty line" if not part else "the bare line " + repr(" ".join(part))} for a {tname} item after {st["name"]}',
                                 dict(payload, expected='an instruction, atom, comment or continuation', item=text))
                    elif len(part) == 1 and part[0].upper()[:4] in NEEDS_PARAM:
                        ctx.fail(f'C06|file|empty-keyword|{part[0].upper()[:4]}|item={tname}' + ('|explicit' if c.get('explicit') else ''),
                                 f'the writer emits the instruction {part[0]} without parameters (item {tname}) after {st["name"]}',
                                 dict(payload, expected='keyword followed by its parameters', item=text))
                    pos += 1
            # 4. correspondence: the file is the model's rendering of the items, text for text
            model_text = ''.join(ir['model'] + '\n' for ir in items)
            if model_text != written:
                ml, wl = model_text.split('\n'), written.split('\n')
                k = next((i for i, (a, b) in enumerate(zip(ml, wl)) if a != b), min(len(ml), len(wl)))
                hy = '-' in (wl[k] if k < len(wl) else '')
                ctx.fail('C06|file|model|' + ('hyphen' if hy else 'plain'), f'written file differs from the model at physical line {k + 1}',
                         dict(payload, expected=ml[k] if k < len(ml) else None, model=model_text, line=wl[k] if k < len(wl) else None),
                         kind='correspondence')
            # 5. the multi-line printers
            for k, _, r in rs:
                if k == 'fvar':
                    vals, text = st['fvars']
                    ctx.count(['fvar', vals], nontrivial=len(vals) > 7, tags=[f'fvar:n={min(len(vals) // 7 * 7, 98)}+'])
                    if text != r['model']:
                        ctx.fail('C06|multi|fvar|model', f'str(FVARs) with {len(vals)} values differs from the model renderFvars',
                                 dict(payload, expected=r['model'], actual=text), kind='correspondence')
                    if vals and not r['lines_ok'] and not ctx.broken:
                        raise RuntimeError('model violates fvar_lines_valid')
                elif k == 'sfac':
                    els, text = st['sfac']
                    ctx.count(['sfac', els], nontrivial=len(els) > 1, tags=[f'sfac:n={min(len(els) // 10 * 10, 40)}+'])
                    if text != r['model'] and len(set(els)) == len(els):
                        ctx.fail('C06|multi|sfac|model', f'repr(SFACTable) with {len(els)} elements differs from the model sfacLine',
                                 dict(payload, expected=r['model'], actual=text), kind='correspondence')


def evaluate(ctx, cases, stream=None):
    if not hasattr(ctx, 'consts_ok'):
        k = ctx.driver.one(dict(p='C06', op='consts'))
        ctx.extra['constants'] = k
        # the decidable statement `consts_ok` of ShelxProps/C06.lean, evaluated on the extracted constants
        ctx.consts_ok = (len(k['sep']) + k['width'] + 2 <= COLS and k['short'] <= COLS and len(k['indent']) < k['width'] and
                         k['suffix'] == ' =\n' and k['sep'] == ' ' and set(k['indent']) <= {' '} and not k['drop_whitespace'] and
                         not k['break_on_hyphens'] and k['break_long_words']) and not ctx.broken
    lines = [c for c in cases if c.get('kind') == 'line']
    files = [c for c in cases if c.get('kind') == 'file']
    if lines:
        evaluate_lines(ctx, lines)
    if files:
        evaluate_files(ctx, files)


def run(ctx):
    ctx.rule = ('line stream: instructions of blank-separated tokens passed through misc.wrap_line; exhaustive grid of a token of length '
                '1..12 ending on every column 70..90 x five kinds of remainder x two separator styles, plus random classes (short tokens, '
                'atom names, tokens > width, hyphenated words, signed numbers, "!" comments, runs of blanks, "=" inside); file stream: '
                'by-construction files (long restraint lists, anisotropic atoms, 1..45 SFAC elements, 1..99 FVARs, free text, SIZE, '
                'explicit SFAC; input layouts with breaks between any two tokens and "!" comments behind continuation marks, with "=" and "!" '
                'in the comment) written with write_shelx_file after read and after every step of an edit history (add_line, replace_line, '
                'Command.set, insert_anis, insert_frag_fend_entry with short and > 80 column texts, delete, element, isotropic, rename); '
                'keyword files: every SHELXL keyword (incl. the pass-through ones LAUE, BEDE, LONE, OMIT, EQIV, TIME, MOLE, HOPE, CHAN …) in every '
                'form, the instructions between atoms (PART, AFIX, RESI, MOLE, SAME, FRAG … FEND with its coordinate lines), the atoms, the '
                'header lines CELL … UNIT, DISP, HKLF and WGHT behind END, each continued in the INPUT directly behind the keyword / behind '
                'every token / greedily / raggedly, with comments behind the marks, or on one line with a comment or blanks beyond column 80; '
                'read through read_string or read_file, with LF or CRLF, by a fresh object or one that has read another file before; written '
                'after read, after every edit and once more after a fresh object has read the written file; line stream also: instruction '
                'ending on every column 66..80 x comment / blanks up to 81..200 columns; distinct by input text (+ history); non-trivial = '
                'instruction longer than 70 characters / file with a line beyond 70 columns or a continuation')
    ctx.assumptions = ['the only white space inside an instruction is the blank (no tabs, which textwrap would expand)',
                       'wrap_tokens: the instruction does not itself end in "=" and no token is longer than width - indent (75); '
                       'over-long tokens are covered char-for-char (wrap_nonblank)']
    rng = ctx.rng
    ctx.extra['grid'] = ('token of length 1..12 ending at every column 70..90, followed by nothing / a short token / blanks / one more line / '
                         'two more lines; instruction ending at every column 66..80 followed by a comment / blanks up to 81..200 columns; every '
                         'SHELXL keyword in every form continued directly behind the keyword and in a second layout')
    def budget(quick, edited, thorough):
        # quick tier on a tree whose mirrored source was edited: more than quick, but still inside the quick tier's wall time
        return thorough if ctx.tier == 'thorough' else edited if ctx.escalated else quick

    n = budget(250, 1500, 4000)
    nk = budget(120, 300, 1500)
    nf = budget(600, 1500, 4000)
    fcls = ['restraints', 'aniso', 'sfac', 'fvars', 'free-text', 'edits', 'size', 'sfac-explicit', 'layout', 'dsr']

    def keyword_case(i):
        return make_keyword_case(rng, wide=[None, None, 'comment', 'blanks'][i % 4], ops=[0, 0, 1, 3][i % 4 if i % 8 < 4 else 0])

    def phases():
        # the small systematic enumerations first (part of the quick budget by construction), the random bulk after; cases are
        # generated phase by phase, so that a tree that fails early does not pay for the generation of the rest
        yield boundary_cases(rng, seps=((1,), (1, 2, 3)) if ctx.budget(0, 1) else ((1, 1, 1, 2),)) + threshold_cases(rng)
        yield systematic_keyword_cases(rng) + systematic_dsr_cases(rng) + witness_cases()
        yield [keyword_case(i) for i in range(min(nk, 40))] + [make_file_case(rng, fcls[i % len(fcls)]) for i in range(4 * len(fcls))]
        for cls in LINE_CLASSES:
            yield [random_line(rng, cls) for _ in range(n)]
        for k in range(40, nk, 200):
            yield [keyword_case(i) for i in range(k, min(nk, k + 200))]
        for k in range(4 * len(fcls), nf, 400):
            yield [make_file_case(rng) for _ in range(k, min(nf, k + 400))]

    for cases in phases():
        for i in range(0, len(cases), 400):
            evaluate(ctx, cases[i:i + 400])
        if ctx.broken and any(f['kind'] == 'property' and f['signature'] not in ctx.known for f in ctx.failures):
            # an obligation is broken (constants lost, theorem no longer checks) and failing inputs of the property are on the
            # table: the failing-input search has done its job (DESIGN 4, step 6)
            ctx.note('exploration stopped after the phase that exhibited failing inputs')
            break

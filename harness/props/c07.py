"""
C07 — writing preserves order, keeps unknown lines verbatim, and is a fixed point.

Streams (DESIGN 3.2):
  order     (keyword, first token) sequence of the written file vs the input, both lexed by the harness's own lexer,
            coalesced by the Lean specification `coalesce` (theorem order_preserved)
  verbatim  every line the generator tagged as not interpreted (unsupported/unknown keyword, TITL/LIST/TEMP/...,
            indented comment, wrapped uninterpreted line) is in the written file unchanged, between the same
            neighbours (theorem raw_verbatim); compared slot by slot with the model's written file (correspondence)
  fixpoint  bytes of the 2nd..nth written file vs the first (theorem write_fixpoint)
  tables    tokens of all SFAC (FVAR) lines of the written file vs the input, in file order (theorem
            table_order_preserved): coalescing keeps content and order, i.e. every element's scattering-factor number
  include   atoms / restraints / logical lines over 1..4 read_file/write cycles with '+name' include files on disk
            (nested to depth 3)
            (theorems include_transparent, include_no_accumulation; the pre-repair model `cycles_old` is reported
            for comparison)
Only what the property states is observed: key sequences, verbatim lines, bytes of successive written files, counts.
"""
import os
import re
import shutil
import tempfile
from pathlib import Path

from .. import core, gen

RESTRAINTS = {'SADI', 'DFIX', 'SIMU', 'DELU', 'RIGU', 'DANG', 'EADP', 'CHIV', 'EXYZ', 'FLAT', 'ISOR', 'NCSY', 'SAME'}
UNSUPPORTED = ['TIME', 'MOLE', 'HOPE', 'CHAN', 'FLAP', 'RNUM', 'SOCC', 'RANG', 'TANG', 'ADDA', 'STAG', 'REST', 'BEDE',
               'LONE', 'LAUE']
RAW_KEPT = ['LIST 4', 'TEMP -100', 'TEMP 23.5', 'EXTI 0.0021', 'OMIT 1 2 3', 'OMIT -3 55', 'EQIV $1 -x, -y, 1-z',
            'ANSR 0.002', 'SPEC', 'TWST', 'BIND C1 C2 C3']
OBJ = ['L.S. 10', 'CGLS 5 2', 'BOND $H', 'BOND', 'FMAP 2', 'PLAN 20', 'PLAN -15 0.5', 'ACTA', 'ACTA 52', 'CONF',
       'SIZE 0.11 0.22 0.33', 'WGHT 0.0512 0.2345', 'MERG 2', 'SHEL 99 0.8', 'HTAB', 'DAMP 0.7 15', 'XNPD -0.001',
       'MORE 1', 'CONN 12', 'ANIS', 'ANIS 3', 'HFIX 43 C1', 'FREE C1 C2', 'BIND C1 C2', 'RTAB omeg C1 C2 C3 C4',
       'MPLA 4 C1 C2 C3 C4', 'TWST 1', 'SPEC 0.2', 'STIR 1.2 0.01', 'DEFS 0.02 0.1 0.01 0.04 1', 'WPDB 1',
       'BLOC 1 C1 C2', 'GRID -1.5 -2 -1 1.5 2 1', 'SWAT 0.1 2.5', 'ABIN 1 2', 'SUMP 1 0.01 1 2 1 3']
REST = ['DFIX 1.5 0.02 C1 C2', 'DFIX_CCF3 1.33 C1 F1', 'DANG 2.5 C1 C3', 'SADI 0.02 C1 C2 C1 C3', 'SADI', 'SAME C1 > C3',
        'SIMU 0.04 0.08 2 C1 > C9', 'DELU C1 C2', 'RIGU', 'RIGU 0.004 0.004 C1 > C5', 'ISOR 0.1 0.2 C1', 'FLAT C1 C2 C3 C4',
        'CHIV 0 0.1 C1', 'EADP C1 C2', 'EXYZ C1 C2', 'NCSY 3 C1 > C4', 'BUMP 0.02']


# ------------------------------------------------------------------------------------------------
# generator: a file is a list of [kind, text]; kind says what the SHELXL rules make of the line (by construction)
#   obj atom sfac fvar  — interpreted instruction / atom (first physical line of it)
#   cont               — continuation line of an interpreted line
#   raw                — first physical line of a line the parser does not interpret
#   rawcont            — continuation line of such a line
#   comment            — indented text line (not an instruction)
#   blank              — empty line
#   incl               — '+name'

def word4(rng):
    while True:
        w = ''.join(rng.choice('ABCDEFGHIJKLMNOPQRSTUVWXYZ') for _ in range(4))
        if w not in ('PART', 'AFIX', 'RESI', 'SAME', 'SADI', 'SIMU', 'SIZE', 'SPEC', 'SHEL', 'STIR', 'SUMP', 'SWAT', 'SYMM',
                     'SFAC', 'FVAR', 'UNIT', 'TITL', 'CELL', 'ZERR', 'LATT', 'HKLF', 'FEND', 'FRAG', 'NEUT', 'DISP', 'ANSC') \
                and w not in [x[:4] for x in OBJ + REST + RAW_KEPT] and w not in UNSUPPORTED and not w.startswith(('REM', 'END')):
            return w


class G:
    def __init__(self, rng):
        self.rng = rng
        self.k = 0

    def uid(self):
        self.k += 1
        return f'u{self.k}'

    def raw_line(self):
        """lines of one uninterpreted logical line (unique text)"""
        r = self.rng
        c = r.random()
        if c < 0.4:
            head = f'{r.choice(UNSUPPORTED)} {r.randint(1, 9)} {self.uid()}' + r.choice(['', '', ' a=b', ' ! x = y', ' ! t ='])
        elif c < 0.75:
            # fewer than five tokens in all: five or more make any non-keyword line an atom line
            head = f'{word4(r)} {r.randint(1, 9)}   {self.uid()}'
            if r.random() < 0.25:
                return [['raw', head + ' ='], ['rawcont', f'     {self.uid()}']]
            return [['raw', head]]
        else:
            base = r.choice(RAW_KEPT)
            if base.startswith(('BIND', 'SPEC', 'TWST')):
                return [['raw', base]]            # no free text possible without changing what the line is
            head = base + f' ! {self.uid()}' if r.random() < 0.5 else base
            return [['raw', head]]
        if r.random() < 0.25:
            return [['raw', head + ' ='], ['rawcont', f'   {r.randint(1, 99)} {self.uid()}']]
        return [['raw', head]]

    def rem(self):
        """comment lines in any case; a '=' inside or at the end of a REM line is text, never a continuation mark"""
        r = self.rng
        kw = r.choice(['REM', 'rem', 'Rem', 'rEM'])
        c = r.random()
        if c < 0.45:
            return [['obj', f'{kw} note {self.uid()}  two  blanks']]
        if c < 0.6:
            return [['obj', f'{kw} R1 = 0.0{r.randint(100, 999)} for {r.randint(100, 9999)} Fo > 4sig(Fo)']]
        if c < 0.8:
            return [['obj', f'{kw} {self.uid()} ' + r.choice(['===', '=', 'scale =', '-----=', 'a = b ='])]]
        if c < 0.9:
            return [['obj', f'{kw} {self.uid()} x=y ! c = d =']]
        return [['obj', kw if r.random() < 0.5 else f'{kw} ={self.uid()}']]

    def with_comment(self, line):
        """a '!' comment behind an instruction; may contain and end in '=' (that is no continuation mark)"""
        return line + self.rng.choice([' ! plain', ' ! d = 1.5', ' ! ends in =', ' !=', '   !  a=b='])

    def comment(self):
        return [['comment', f'  ! comment {self.uid()}' if self.rng.random() < 0.5 else f'   {self.uid()} free text']]

    def long_restraint(self):
        r = self.rng
        atoms = [f'C{i}' for i in range(1, r.randint(14, 30))]
        kw = r.choice(['FLAT', 'SADI 0.02', 'RIGU', 'SIMU', 'DELU 0.01'])
        toks = kw.split() + atoms
        lines, cur = [], ''
        for t in toks:
            if len(cur) + len(t) + 1 > r.randint(55, 74):
                lines.append(cur + r.choice([' =', ' =', '  =  ', ' = ! go on', '= !=']))
                cur = '   ' + t
            else:
                cur = (cur + ' ' + t) if cur else t
        lines.append(cur)
        return [['obj' if i == 0 else 'cont', l] for i, l in enumerate(lines)]

    def instr(self):
        r = self.rng
        c = r.random()
        if c < 0.28:
            return self.raw_line()
        if c < 0.36:
            return self.rem()
        if c < 0.42:
            return self.comment()
        if c < 0.50:
            return [['blank', '']]
        if c < 0.58:
            return self.long_restraint()
        line = r.choice(REST) if c < 0.80 else r.choice(OBJ)
        if r.random() < 0.15:
            line = self.with_comment(line)
        return [['obj', line]]

    def atom(self, name, sfac, aniso, wrap):
        r = self.rng
        x, y, z = (round(r.uniform(-0.9, 0.99), 6) for _ in range(3))
        sof = r.choice([11.0, 10.5, 21.0, -21.0, 0.25, 1.0, 31.0])
        if aniso:
            u = [round(r.uniform(0.01, 0.09), 5) for _ in range(3)] + [round(r.uniform(-0.02, 0.02), 5) for _ in range(3)]
            if all(abs(v) < 0.0001 for v in u[2:]):
                u[2] = 0.033
            a = f'{name:<5}{sfac:>2} {x:>10.6f} {y:>10.6f} {z:>10.6f} {sof:>10.5f} {u[0]:>9.5f} {u[1]:>9.5f}'
            b = f' {u[2]:>9.5f} {u[3]:>9.5f} {u[4]:>9.5f} {u[5]:>9.5f}'
            if wrap:
                return [['atom', a + ' ='], ['cont', '    ' + b]]
            return [['atom', a + b]]
        u = r.choice([round(r.uniform(0.01, 0.09), 5), -1.2, -1.5])
        nd = r.choice([4, 5, 6])
        return [['atom', f'{name:<4} {sfac}  {x:.{nd}f}  {y:.{nd}f} {z:.{nd}f}  {sof:.5f}  {u:.5f}']]


def make_case(rng, with_include):
    g = G(rng)
    L = []
    L.append(['raw', f'TITL {g.uid()} in P2(1)/c'])
    if rng.random() < 0.3:
        L += g.rem()
    L.append(['obj', 'CELL 0.71073 10.123 11.234 12.345 90 95.67 90'])
    L.append(['obj', 'ZERR 4 0.001 0.002 0.003 0 0.01 0'])
    L.append(['obj', f'LATT {rng.choice([1, -1, 2, -7])}'])
    for s in rng.sample(['-x, 1/2+y, 1/2-z', '-X, -Y, Z', '1/2+x, -y, -z', 'y, x, -z'], rng.randint(0, 2)):
        L.append(['obj', 'SYMM ' + s])
        if rng.random() < 0.2:
            L += g.comment()
    nel = rng.randint(1, 6)
    els = rng.sample(gen.ELEMENTS, nel)
    if 'C' not in els:
        els[0] = 'C'
    # both SFAC forms, in any order: 'SFAC elements' lines and 'SFAC E a1 b1 a2 b2 a3 b3 a4 b4 c f' f" mu r wt' lines
    explicit = [rng.random() < 0.22 for _ in els]
    groups, cur = [], []
    for e, ex in zip(els, explicit):
        if ex:
            if cur:
                groups.append(cur)
                cur = []
            groups.append(e)
        else:
            cur.append(e)
            if rng.random() < 0.3:
                groups.append(cur)
                cur = []
    if cur:
        groups.append(cur)
    for i, p in enumerate(groups):
        kw = rng.choice(['SFAC', 'SFAC', 'SFAC', 'sfac', 'Sfac'])
        if isinstance(p, str):
            co = [f'{rng.uniform(0.1, 70):.4f}'.rstrip('0') + str(rng.randint(1, 9)) for _ in range(14)]
            cut = rng.randint(6, 10)
            a = f'{kw} {p.upper() if rng.random() < 0.5 else p} ' + ' '.join(co[:cut])
            L.append(['sfac', a + ' ='])
            L.append(['cont', ' ' * rng.randint(1, 6) + ' '.join(co[cut:])])
        else:
            L.append(['sfac', kw + ' ' * rng.randint(1, 3) + ' '.join(x.upper() if rng.random() < 0.3 else x for x in p)])
        if i < len(groups) - 1 and rng.random() < 0.3:
            L += rng.choice([g.raw_line, g.comment, g.rem])()
    L.append(['obj', 'UNIT ' + ' '.join(str(rng.choice([1, 2, 4, 8, 12, 16, 24, 36.5, 48, 96])) for _ in els)])
    fs = {}
    used_incl = False

    def include_file(depth, atom_ok):
        """writes one include file into fs and returns its name; it may pull in further files (nested)"""
        k = len(fs) + 1
        if rng.random() < 0.12:
            fs[f'missing{k}.dfx'] = None            # unreadable include: nothing is spliced
            return f'missing{k}.dfx'
        name = f'inc{k}.dfx'
        fs[name] = None                              # reserve the name
        content = []
        for _ in range(rng.randint(1, 4)):
            content.append([x[1] for x in rng.choice([lambda: [['obj', rng.choice(REST)]], g.rem, g.raw_line, g.comment,
                                                      g.long_restraint, lambda: [['blank', '']]])()])
        if atom_ok and rng.random() < 0.5:     # atoms only behind FVAR
            content.append([x[1] for x in g.atom(f'X{k}', 1, False, False)])
        while depth < 3 and len(fs) < 5 and rng.random() < 0.45:
            # a nested '+name' line at any place: first, in the middle (lines behind it), last
            content.insert(rng.randint(0, len(content)), ['+' + include_file(depth + 1, atom_ok)])
        fs[name] = [l for block in content for l in block]
        return name

    def maybe_include(atom_ok=False):
        nonlocal used_incl
        if with_include and (not used_incl or rng.random() < 0.3) and len(fs) < 4:
            used_incl = True
            return [['incl', '+' + include_file(1, atom_ok)]]
        return []

    for _ in range(rng.randint(2, 10)):
        L += g.instr()
        if rng.random() < 0.25:
            L += maybe_include()
    # FVAR lines (the first value is the overall scale factor)
    nfv = rng.choice([1, 2, 3, 5, 8, 9, 15])
    fv = [f'{rng.uniform(0.05, 1.2):.5f}' for _ in range(nfv)]
    nfl = rng.choice([1, 1, 2, 3])
    cuts = sorted(rng.sample(range(1, nfv), min(nfl - 1, nfv - 1))) if nfv > 1 else []
    parts = [fv[i:j] for i, j in zip([0] + cuts, cuts + [nfv])]
    for i, p in enumerate(parts):
        L.append(['fvar', 'FVAR ' + ' '.join(p)])
        if i < len(parts) - 1 and rng.random() < 0.4:
            L += rng.choice([g.raw_line, g.comment, g.rem, lambda: [['obj', rng.choice(REST)]]])()
    used = set()
    for i in range(rng.randint(2, 9)):
        r = rng.random()
        if r < 0.12:
            L.append(['obj', rng.choice(['PART 1', 'PART 2 -21', 'PART 0', 'AFIX 66', 'AFIX 0', 'RESI 1 CCF3', 'RESI 0'])])
        elif r < 0.3:
            L += rng.choice([g.raw_line, g.comment, g.rem, lambda: [['blank', '']]])()
        elif r < 0.36:
            L += maybe_include(True)
        s = rng.randrange(len(els)) + 1
        L += g.atom(gen.atom_name(rng, els[s - 1], used), s, rng.random() < 0.5, rng.random() < 0.7)
    if not used_incl and with_include:
        L += maybe_include(True)
    L.append(['obj', 'HKLF 4'])
    if rng.random() < 0.3:
        L += g.rem()
    L.append(['raw', 'END'])
    if rng.random() < 0.5:
        L.append(['blank', ''])
        L.append(['obj', 'WGHT 0.0345 0.1234'])
        for j in range(rng.randint(0, 3)):
            L.append(['atom', f'Q{j + 1}   1   {rng.uniform(0, 1):.4f}   {rng.uniform(0, 1):.4f}   {rng.uniform(0, 1):.4f}  11.00000  0.05    {rng.uniform(0.1, 2):.2f}'])
        if rng.random() < 0.4:
            L += g.raw_line()
    # SHELXL is case-insensitive: keywords in lower / mixed case anywhere
    for item in L:
        if item[0] in ('obj', 'raw', 'fvar') and rng.random() < 0.15:
            toks = item[1].split(' ', 1)
            toks[0] = rng.choice([str.lower, str.capitalize])(toks[0])
            item[1] = ' '.join(toks)
    return dict(lines=L, fs=fs, n=rng.randint(2, 4))


# ------------------------------------------------------------------------------------------------
# the harness's own lexer (independent of the code under test and of the Lean lexer)

def canon_tok(kw, tok):
    if tok is None:
        return None
    if kw == 'SYMM':
        tok = tok.split(',')[0]
    try:
        return repr(float(tok))
    except ValueError:
        return tok.upper()


def logical_lines(lines):
    """[(list of physical lines, key or None)]; key None = text line that is not an instruction (indented, not consumed)"""
    out = []
    i = 0
    while i < len(lines):
        l = lines[i]
        if l == '':
            i += 1
            continue
        if l.startswith(' '):
            out.append(([l], None, []))
            i += 1
            continue
        phys = [l]
        while continues(phys[-1]) and i + 1 < len(lines):
            i += 1
            phys.append(lines[i])
        i += 1
        joined = ' '.join(p.split('!')[0].rstrip().rstrip('=') for p in phys)
        toks = joined.split()
        if re.match(r'^rem', toks[0], re.I):
            kw = 'REM'
        else:
            kw = toks[0].upper() if is_atom_like(toks) else toks[0].upper()[:4]
        tok = toks[1] if len(toks) > 1 else ''
        out.append((phys, (kw, None if kw in ('SFAC', 'FVAR') else canon_tok(kw, tok)), toks))
    return out


def continues(l):
    body = l.split('!')[0].rstrip()
    return body.endswith('=') and not re.match(r'^rem', l, re.I)


def is_atom_like(toks):
    return len(toks) >= 5 and re.fullmatch(r'\d+', toks[1]) is not None and re.match(r'^[A-Za-z]', toks[0]) is not None


def keys_of(lines):
    return [k for _, k, _ in logical_lines(lines) if k is not None]


def table_tokens(lines, kw):
    """everything the SFAC (FVAR) lines of a file say, in file order: elements / coefficients / values"""
    return [canon_tok(kw, t) for _, k, toks in logical_lines(lines) if k is not None and k[0] == kw for t in toks[1:]]


def slots_impl(out_lines, rawset):
    """the written file as slots: ('raw', text) for every physical line the generator made as uninterpreted text,
    ('key', kw, tok) per printed logical line (consecutive SFAC / FVAR lines are one slot)"""
    slots = []
    for phys, key, _ in logical_lines(out_lines):
        if phys[0] in rawset:
            slots += [('raw', p) for p in phys]
        elif key is None:
            slots.append(('raw', phys[0]))      # unexpected text line: shows up as a difference
        else:
            if key[0] in ('SFAC', 'FVAR') and slots and slots[-1] == ('key', key[0], None):
                continue
            slots.append(('key', key[0], key[1]))
    return slots


def slots_model(out):
    slots = []
    for e in out:
        if 'raw' in e:
            slots.append(('raw', e['raw']))
        else:
            kw = e['kw'].upper() if e['cls'] == 'atom' else e['kw']
            slots.append(('key', kw, None if kw in ('SFAC', 'FVAR') else canon_tok(kw, e['tok'])))
    return slots


# ------------------------------------------------------------------------------------------------

def observe_impl(case):
    from shelxfile import Shelxfile
    d = Path(tempfile.mkdtemp(prefix='verif_c07_'))
    try:
        text = '\n'.join(l for _, l in case['lines']) + '\n'
        (d / 'a.res').write_text(text)
        for name, content in case['fs'].items():
            if content is not None:
                (d / name).write_text('\n'.join(content) + '\n')
        shx = Shelxfile()
        outs, counts = [], []
        cur = d / 'a.res'
        for k in range(case['n']):
            try:
                shx.read_file(cur)
                counts.append(dict(atoms=len(shx.atoms), restraints=len(list(shx.restraints))))
                nxt = d / f'w{k + 1}.res'
                shx.write_shelx_file(nxt)
                outs.append(nxt.read_text())
            except Exception as e:     # the property's observable raised
                return dict(error=f'cycle {k + 1}: {type(e).__name__}', outs=outs, counts=counts)
            # the next cycle reads what was written, under the name a.res next to the include files
            cur = d / 'a.res'
            cur.write_text(outs[-1])
        return dict(outs=outs, counts=counts)
    finally:
        shutil.rmtree(d, ignore_errors=True)


def first_diff(a, b):
    la, lb = a.splitlines(), b.splitlines()
    for i, (x, y) in enumerate(zip(la, lb)):
        if x != y:
            return i, x, y
    return min(len(la), len(lb)), (la[len(lb)] if len(la) > len(lb) else ''), (lb[len(la)] if len(lb) > len(la) else '')


def kind_at(case, text):
    for k, l in case['lines']:
        if l == text:
            return k
    return 'printed'


def evaluate(ctx, cases, stream=None):
    for s in ('order', 'verbatim', 'fixpoint', 'include'):
        ctx.stream(s)
    reqs = []
    for case in cases:
        reqs.append(dict(p='C07', op='cycle', lines=[l for _, l in case['lines']],
                         fs={k: v for k, v in case['fs'].items() if v is not None}, n=case['n']))
    ans = ctx.driver.batch(reqs)
    creqs, cidx = [], []
    obs_all = []
    for ci, (case, m) in enumerate(zip(cases, ans)):
        obs = observe_impl(case)
        obs_all.append(obs)
        if obs.get('outs'):
            creqs.append(dict(p='C07', op='coalesce', a=[list(k) for k in keys_of([l for _, l in case['lines']])],
                              b=[list(k) for k in keys_of(obs['outs'][0].splitlines())]))
            cidx.append(ci)
    cans = dict(zip(cidx, ctx.driver.batch(creqs))) if creqs else {}
    for ci, (case, m, obs) in enumerate(zip(cases, ans, obs_all)):
        lines = [l for _, l in case['lines']]
        kinds = [k for k, _ in case['lines']]
        has_incl = any(v is not None for v in case['fs'].values())
        nraw = sum(k in ('raw', 'comment') for k in kinds)
        nexp = sum(1 for k, l in case['lines'] if k == 'sfac' and len(l.split()) > 2 and not ''.join(l.rstrip(' =').split()[1:]).isalpha())
        nested = any(l.startswith('+') for v in case['fs'].values() if v for l in v)
        remeq = any(re.match(r'^rem\b.*=\s*$', l.split('!')[0]) and not l.startswith('REM') for _, l in case['lines'])
        tags = [f'sfac_lines={kinds.count("sfac")}', f'fvar_lines={kinds.count("fvar")}', f'include={len(case["fs"])}',
                f'cycles={case["n"]}', 'wrapped-raw' if 'rawcont' in kinds else 'no-wrapped-raw',
                'wrapped-obj' if 'cont' in kinds else 'no-wrapped-obj', 'nested-include' if nested else 'flat-or-no-include',
                'sfac-mixed' if 0 < nexp < kinds.count('sfac') else 'sfac-explicit' if nexp else 'sfac-plain', 'rem-lower-eq' if remeq else 'no-rem-lower-eq', 'after-END' if kinds[-1] != 'raw' or lines[-1] != 'END' else 'END-last']
        ctx.count(lines + [sorted(case['fs'].items(), key=lambda kv: kv[0]), case['n']],
                  nontrivial=nraw >= 1 and (kinds.count('sfac') > 1 or kinds.count('fvar') > 1 or has_incl or 'rawcont' in kinds or 'cont' in kinds),
                  sample=dict(lines=len(lines), uninterpreted=nraw, sfac=kinds.count('sfac'), fvar=kinds.count('fvar'),
                              includes=sorted(case['fs']), cycles=case['n'], first_raw=next((l for k, l in case['lines'] if k == 'raw' and not l.startswith('TITL')), None)),
                  tags=tags)
        if m['dangling'] or m['dup']:
            ctx.fail('C07|harness|domain', 'generator left the stated domain (dangling continuation or include name used twice)',
                     dict(case=case, stream='order'), kind='correspondence')
            continue
        base = dict(case=case)
        if 'error' in obs:
            ctx.fail(f'C07|raise|{obs["error"].split(": ")[1]}', f'read/write raised in {obs["error"]}', dict(base, stream='fixpoint', actual=obs['error']))
            continue
        out1 = obs['outs'][0]
        out1_lines = out1.splitlines()
        # --- order ---------------------------------------------------------------------------------------------
        ca = cans[ci]
        if ca['a'] != ca['b']:
            j = next((i for i, (x, y) in enumerate(zip(ca['a'], ca['b'])) if x != y), min(len(ca['a']), len(ca['b'])))
            exp = ca['a'][j] if j < len(ca['a']) else None
            got = ca['b'][j] if j < len(ca['b']) else None
            kind = next((k for k, l in case['lines'] if exp and l.split() and k not in ('cont', 'rawcont', 'comment', 'blank')
                         and (l.split()[0].upper()[:4] == exp[0][:4] or l.split()[0].upper() == exp[0])), 'end')
            ctx.fail(f'C07|order|{"include|" if has_incl else ""}expected-kind={kind}',
                     f'instruction sequence of the written file differs from the input at position {j}: expected {exp}, written {got}',
                     dict(base, stream='order', expected=ca['a'], actual=ca['b'], model=m['model_keys']))
        # --- content of the coalesced tables keeps the order of the input ---------------------------------------
        for kw in ('SFAC', 'FVAR'):
            tin, tout = table_tokens(lines, kw), table_tokens(out1_lines, kw)
            form = ('mixed' if 0 < nexp < kinds.count('sfac') else 'explicit' if nexp else 'plain') if kw == 'SFAC' else f'lines={min(kinds.count("fvar"), 2)}'
            if tin != tout:
                j = next((i for i, (x, y) in enumerate(zip(tin, tout)) if x != y), min(len(tin), len(tout)))
                ctx.fail(f'C07|table-order|{kw}|{form}',
                         f'{kw} lines of the written file list {tout[j:j + 3]} where the input has {tin[j:j + 3]} (entry {j + 1}): '
                         f'the coalesced table does not keep the order of the input',
                         dict(base, stream='order', expected=tin, actual=tout))
            mt = [canon_tok(kw, t) for t in m['tables'][kw.lower()]]
            if mt != tin:
                ctx.fail(f'C07|model|table|{kw}', f'model collects {mt[:6]}… for the {kw} table, the input says {tin[:6]}…',
                         dict(base, stream='order', expected=tin, model=mt), kind='correspondence')
        # --- verbatim, in place (slot comparison with the by-construction tags and with the model) --------------
        rawset = {l for k, l in case['lines'] if k in ('raw', 'rawcont', 'comment', 'incl')}
        want_raw = [l for k, l in case['lines'] if k in ('raw', 'rawcont', 'comment', 'incl')]
        si = slots_impl(out1_lines, rawset)
        got_raw = [s[1] for s in si if s[0] == 'raw']
        if got_raw != want_raw:
            miss = next((l for l in want_raw if l not in got_raw), None)
            extra = next((l for l in got_raw if l not in want_raw), None)
            k = kind_at(case, miss) if miss is not None else 'extra'
            ctx.fail(f'C07|verbatim|kind={k}', f'uninterpreted line not kept verbatim in place: missing {miss!r}, unexpected {extra!r}',
                     dict(base, stream='verbatim', expected=want_raw, actual=got_raw))
        sm = slots_model(m['out'])
        if si != sm:
            j = next((i for i, (x, y) in enumerate(zip(si, sm)) if x != y), min(len(si), len(sm)))
            ctx.fail(f'C07|model|slot={(sm[j] if j < len(sm) else ("end",))[0]}',
                     f'written file differs from the model at slot {j}: implementation {si[j] if j < len(si) else None}, model {sm[j] if j < len(sm) else None}',
                     dict(base, stream='verbatim', expected=sm, actual=si), kind='correspondence')
        # --- fixed point ---------------------------------------------------------------------------------------
        for k in range(1, len(obs['outs'])):
            if obs['outs'][k] != out1:
                i, x, y = first_diff(out1, obs['outs'][k])
                w = (x.split() or y.split() or ['?'])[0].upper()[:4]
                kw = 'table' if w in ('SFAC', 'FVAR') else 'atom' if is_atom_like((x or y).split()) else \
                    'instr' if w in [t.split()[0][:4].upper() for t in OBJ + REST] + ['UNIT', 'CELL', 'ZERR', 'LATT', 'SYMM', 'REM', 'HKLF', 'WGHT', 'PART', 'AFIX', 'RESI'] else 'text'
                ctx.fail(f'C07|fixpoint|{"include|" if has_incl else ""}kind={kw}',
                         f'written file {k + 1} differs from written file 1 at line {i + 1}: {x!r} became {y!r}',
                         dict(base, stream='fixpoint', expected=x, actual=y, cycle=k + 1, model=dict(fixpoint=m['out2_same'])))
                break
        # --- include: nothing accumulates ------------------------------------------------------------------------
        c0 = obs['counts'][0]
        heads = [len(keys_of(o.splitlines())) for o in obs['outs']]
        for k in range(1, len(obs['counts'])):
            if obs['counts'][k] != c0 or heads[k] != heads[0]:
                ctx.fail('C07|include|accumulates' if has_incl else 'C07|counts|change',
                         f'cycle {k + 1} reads {obs["counts"][k]} / writes {heads[k]} instructions, cycle 1 read {c0} / wrote {heads[0]}'
                         + (' (this is what the model of the code before fixes/C07_1 predicts)' if [c['atoms'] for c in m['cycles_old'][:k + 1]] == [c['atoms'] for c in obs['counts'][:k + 1]] and has_incl else ''),
                         dict(base, stream='include', expected=[c0] * len(obs['counts']), actual=obs['counts'],
                              model=m['cycles'], model_old=m['cycles_old']))
                break
        for k, (c, mc) in enumerate(zip(obs['counts'], m['cycles'])):
            mr = sum(1 for o in mc['objs'] if o[:4] in RESTRAINTS)
            if c['atoms'] != mc['atoms'] or c['restraints'] != mr:
                ctx.fail('C07|model|counts', f'cycle {k + 1}: implementation read {c}, model atoms={mc["atoms"]} restraints={mr}',
                         dict(base, stream='include', expected=dict(atoms=mc['atoms'], restraints=mr), actual=c, model=m['cycles']),
                         kind='correspondence')
                break


def fmt_checks(ctx):
    """number formatting idempotence (theorem fmtFixed_idem) against CPython's format/float"""
    ctx.stream('fmt')
    xs, reqs = [], []
    for _ in range(ctx.budget(300, 5000)):
        nd = ctx.rng.choice([2, 4, 5, 6])
        x = round(ctx.rng.uniform(-99, 99), ctx.rng.choice([3, 6, 8, 11]))
        if ctx.rng.random() < 0.2:
            x = ctx.rng.randint(-10 ** 6, 10 ** 6) / 10 ** nd + ctx.rng.choice([0.5, -0.5]) / 10 ** nd   # ties
        xs.append((x, nd))
        num, den = x.as_integer_ratio()      # the exact value of the double
        reqs.append(dict(p='C07', op='fmt', num=num, den=den, nd=nd))
    for (x, nd), r in zip(xs, ctx.driver.batch(reqs)):
        s1 = f'{x:.{nd}f}'
        s2 = f'{float(s1):.{nd}f}'
        ctx.count(['fmt', x, nd], nontrivial=True, tags=['fmt'])
        if s1 != s2:
            ctx.fail('C07|fmt|not-idempotent', f'{x!r}: {s1} reprinted as {s2}', dict(case=dict(fmt=[x, nd]), stream='fmt', expected=s1, actual=s2))
        if r['digits'] != r['again'] or int(s1.replace('.', '').replace('-', '')) != abs(r['digits']):
            ctx.fail('C07|fmt|model', f'{x!r} with {nd} decimals: CPython prints {s1}, model digits {r["digits"]} / {r["again"]}',
                     dict(case=dict(fmt=[x, nd]), stream='fmt', expected=s1, model=r), kind='correspondence')


def run(ctx):
    ctx.rule = ('generated valid files: TITL CELL ZERR LATT SYMM* SFAC(1-3 lines) UNIT, 2-10 instructions drawn from '
                'restraints/commands/REM/uninterpreted lines (15 unsupported keywords, random unknown 4-letter words, '
                'TITL LIST TEMP EXTI OMIT EQIV ANSR, guarded BIND/SPEC/TWST forms)/indented comments/blank lines/wrapped '
                'restraints/wrapped uninterpreted lines, FVAR(1-3 lines, 1-15 values), 2-9 atoms (iso/aniso, wrapped), '
                'PART/AFIX/RESI, HKLF, END, optional WGHT/Q-peaks/text after END; keywords in upper/lower/mixed case; REM lines '
                'of any case with = inside/at the end; SFAC lines in both forms mixed; optionally 1-5 include files on disk, '
                'nested to depth 3 (some missing); 2-4 read/write cycles; distinct by file text; non-trivial = at least one '
                'uninterpreted line and (several SFAC or FVAR lines, or an include file, or a wrapped line)')
    ctx.assumptions = ['quiet mode',
                       "a continuation mark is a '=' that ends the text before any '!' comment; '=' elsewhere (inside lines, in and at "
                       "the end of comments, in and at the end of REM lines of any case) is generated as ordinary text",
                       'uninterpreted lines are shorter than 79 characters (longer ones are re-wrapped by wrap_line: C06)',
                       'include files (nested up to depth 3, nested +name line first / in the middle / last, unreadable files) '
                       'are self-contained (no SFAC/FVAR, no dangling =) and every name is used once (else ValueError)',
                       'SFAC in both forms in any order (element names; E a1 b1 ... wt, wrapped); no element twice',
                       'UNIT numbers below 1000 and no exponent forms (printing of large numbers: C01)']
    n = ctx.budget(400, 6000)
    cases = []
    for i in range(n):
        cases.append(make_case(ctx.rng, with_include=(i % 2 == 1)))
    for i in range(0, len(cases), 100):
        evaluate(ctx, cases[i:i + 100])
    fmt_checks(ctx)

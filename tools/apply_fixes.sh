#!/bin/bash
# tools/apply_fixes.sh Cxx : apply fixes/Cxx_*.patch to /repo one by one as "fix:" commits (tests must pass)
# and append the `fixed` lines to known_findings.jsonl
set -u
P=$1
cd /verif
for f in $(ls fixes/${P}_*.patch | sort -V); do
  m=${f%.patch}.msg
  if grep -q "$(basename $f)" fixes/APPLIED 2>/dev/null; then echo "skip $f (already applied)"; continue; fi
  if ! git -C /repo apply --check $PWD/$f 2>/dev/null; then
     git -C /repo apply --3way $PWD/$f 2>&1 | tail -3
     if git -C /repo status --short | grep -q '^UU\|^AA\|^U\|^.U'; then echo "CONFLICT $f (left in /repo for manual resolution; then: git -C /repo add -A; rerun)"; exit 1; fi
     echo "3way applied $f"
  else
     git -C /repo apply $PWD/$f
  fi
  if ! (cd /repo && /venv/bin/python -m pytest -q -p no:cacheprovider 2>&1 | tail -1 | grep -q "252 passed"); then
     echo "TESTS FAIL with $f"; (cd /repo && /venv/bin/python -m pytest -q -p no:cacheprovider 2>&1 | tail -15); exit 1; fi
  git -C /repo add -A && git -C /repo commit -q -F $PWD/$m
  h=$(git -C /repo log --format=%h -1)
  subj=$(head -1 $m | sed 's/^fix: *//' | sed 's/"/\\"/g')
  echo "{\"fixed\": \"property=$P $h $subj\"}" >> known_findings.jsonl
  echo "$(basename $f) $h" >> fixes/APPLIED
  echo "applied $f as $h"
done

#!/bin/bash
# tools/merge_branch.sh <branch> : merge an agent branch; result files that every run rewrites are taken from our side
cd /verif
git merge -q --no-edit "$1" 2>&1 | grep -v "WARN\|hint:" | tail -3
for f in $(git diff --name-only --diff-filter=U); do
  case "$f" in
    seeded/RESULTS.json|harmless/RESULTS.json|evidence/*.json|extract/model_map.json) git checkout --ours -- "$f" && git add "$f";;
    *) echo "CONFLICT needs hand: $f";;
  esac
done
if git diff --name-only --diff-filter=U | grep -q .; then exit 1; fi
git commit -q --no-edit 2>/dev/null
git log --oneline -1

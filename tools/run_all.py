#!/venv/bin/python
"""run every registered check (MANIFEST.json) on /repo for the given seeds; print one line per run.
usage: tools/run_all.py [--tier quick|thorough] [--seeds 0,1,2] [ids...]"""
import json, os, subprocess, sys, time
from pathlib import Path
VERIF = Path(__file__).resolve().parent.parent
tier = 'quick'; seeds = [0]; ids = []
a = sys.argv[1:]
while a:
    x = a.pop(0)
    if x == '--tier': tier = a.pop(0)
    elif x == '--seeds': seeds = [int(s) for s in a.pop(0).split(',')]
    else: ids.append(x.upper())
m = json.loads((VERIF / 'MANIFEST.json').read_text())
bad = 0
for c in m['checks']:
    pid = c['property_id']
    if ids and pid not in ids: continue
    for s in seeds:
        t0 = time.time()
        cmd = c['quick_cmd'] if tier == 'quick' else c.get('thorough_cmd', c['quick_cmd'])
        p = subprocess.run(cmd, shell=True, cwd=VERIF, env=dict(os.environ, VERIF_SEED=str(s)), stdout=subprocess.PIPE, stderr=subprocess.STDOUT, text=True)
        lines = [l for l in p.stdout.splitlines() if l.startswith(('VIOLATION', 'KNOWN-FINDING'))]
        print(f'{pid} seed={s} exit={p.returncode} {time.time()-t0:.0f}s  ' + ' | '.join(lines)[:300], flush=True)
        if p.returncode != 0:
            bad += 1
            print(p.stdout[-1500:])
sys.exit(1 if bad else 0)

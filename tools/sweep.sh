#!/bin/bash
# tools/sweep.sh <shards> [--dir harmless] : run every seeded (or harmless) change through its owning check in <shards>
# parallel background runs (vp run, each in its own snapshot of the committed /verif with a copy of the built .lake)
N=${1:-4}; shift
DIR=seeded; if [ "$1" = "--dir" ]; then DIR=$2; fi
cd /verif
ids=( $(ls $DIR | grep -v RESULTS | sort) )
for ((k=0;k<N;k++)); do
  part=""
  for ((i=k;i<${#ids[@]};i+=N)); do part="$part ${ids[$i]}"; done
  vp run --timeout 4h -- bash -c "cp -r /verif/lean/.lake lean/.lake 2>/dev/null; /venv/bin/python extract/extract.py --repo /repo >/dev/null; (cd lean && lake build ShelxModel driver ShelxProps >/dev/null 2>&1); tools/run_seeded.py --skip-tests $( [ $DIR = harmless ] && echo --dir harmless ) $part" | head -1
done

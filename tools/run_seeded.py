#!/venv/bin/python
"""
Run the checks against the seeded faulty versions kept under /verif/seeded/<id>/ (patch.diff, demo.py, meta.json).

For each seeded change: a scratch worktree of /repo HEAD is made outside /repo and /verif, the patch applied,
  1. the repository's own test-suite must still pass,
  2. the demonstration must fail with the change,
  3. `SHELXFILE_REPO=<scratch> ./check <property>` must print a VIOLATION line and exit 1;
the worktree is removed afterwards. Results are written to seeded/RESULTS.json and printed.
This is validation of the machinery (DESIGN.md 7B), not one of the registered checks.

usage: tools/run_seeded.py [id ...] [--tier quick|thorough] [--skip-tests]
"""
import json
import os
import shutil
import subprocess
import sys
import tempfile
import time
from pathlib import Path

VERIF = Path(__file__).resolve().parent.parent
REPO = Path('/repo')


def sh(cmd, cwd=None, env=None, timeout=3600):
    p = subprocess.run(cmd, cwd=cwd, env=env, stdout=subprocess.PIPE, stderr=subprocess.STDOUT, text=True, timeout=timeout)
    return p.returncode, p.stdout


def main():
    args = [a for a in sys.argv[1:] if not a.startswith('--')]
    tier = 'quick'
    if '--tier' in sys.argv:
        tier = sys.argv[sys.argv.index('--tier') + 1]
        args = [a for a in args if a != tier]
    skip_tests = '--skip-tests' in sys.argv
    sub = 'seeded'
    if '--dir' in sys.argv:       # --dir harmless : behaviour-preserving rewrites, the check must stay silent (exit 0)
        sub = sys.argv[sys.argv.index('--dir') + 1]
        args = [a for a in args if a != sub]
    ids = args or sorted(p.name for p in (VERIF / sub).iterdir() if (p / 'patch.diff').exists())
    results = {}
    rf = VERIF / sub / 'RESULTS.json'
    if rf.exists():
        results = json.loads(rf.read_text())
    for sid in ids:
        d = VERIF / sub / sid
        meta = json.loads((d / 'meta.json').read_text())
        prop = meta['property']
        tmp = Path(tempfile.mkdtemp(prefix='seeded_'))
        wt = tmp / 'repo'
        res = dict(property=prop, tier=tier)
        try:
            rc, out = sh(['git', '-C', str(REPO), 'worktree', 'add', '--detach', str(wt), 'HEAD'])
            if rc:
                res['error'] = 'worktree: ' + out[-300:]
                continue
            rc, out = sh(['git', '-C', str(wt), 'apply', str(d / 'patch.diff')])
            if rc:
                res['error'] = 'patch does not apply to /repo HEAD: ' + out[-300:]
                continue
            env = dict(os.environ, PYTHONPATH=str(wt), SHELXFILE_REPO=str(wt), PYTHONDONTWRITEBYTECODE='1')
            if not skip_tests:
                rc, out = sh(['/venv/bin/python', '-m', 'pytest', '-q', '-p', 'no:cacheprovider', '-x'], cwd=wt, env=env)
                res['tests_pass'] = rc == 0
                res['tests_tail'] = out.strip().splitlines()[-1] if out.strip() else ''
            demo = d / 'demo.py'
            if demo.exists():
                rc, out = sh(['/venv/bin/python', str(demo)], cwd=tmp, env=env)
                res['demo_fails_with_change'] = rc != 0
            t0 = time.time()
            rc, out = sh([str(VERIF / 'check'), prop, '--tier', tier], cwd=VERIF, env=env)
            res['check_exit'] = rc
            res['check_s'] = round(time.time() - t0, 1)
            res['violation_lines'] = [l for l in out.splitlines() if l.startswith('VIOLATION')][:5]
            res['detail'] = [l.strip() for l in out.splitlines() if l.startswith('  ')][:5]
            res['caught'] = rc == 1 and bool(res['violation_lines'])
            res['silent'] = rc == 0 and not res['violation_lines']
        finally:
            sh(['git', '-C', str(REPO), 'worktree', 'remove', '--force', str(wt)])
            shutil.rmtree(tmp, ignore_errors=True)
            results[sid] = res
            print(sid, json.dumps(res)[:600], flush=True)
    rf.write_text(json.dumps(results, indent=1, sort_keys=True) + '\n')
    # the extracted tables and evidence now describe the scratch tree: regenerate them for /repo
    print('caught', sum(1 for r in results.values() if r.get('caught')), 'silent', sum(1 for r in results.values() if r.get('silent')), 'of', len(results))


if __name__ == '__main__':
    main()

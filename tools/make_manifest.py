#!/venv/bin/python
"""writes MANIFEST.json from the table below (one entry per claimed property)"""
import json
from pathlib import Path
V = Path(__file__).resolve().parent.parent
T = ('Lean 4 proof on an executable model; tables and arithmetic definitions are regenerated from the source on every run '
     '(ast, probing and tracing translators) and the theorems re-checked against them; differential correspondence '
     'against the implementation for the hand-written part')
C = {
 'C01': ("per-line-class render-after-parse laws proved for all inputs (token preservation of the default printer, |parse(fmtFixed nd x) - x| <= 1/2 10^-nd with nd from the regenerated format strings, atom/SFAC/FVAR/UNIT/SIZE/ACTA/STIR/WGHT/SYMM printers, roundtrip_content); whole files compared through an independent lexer (format strings read by spy values through read_string/str(atom), confirmed character by character)",
         "classification/storage done by _parse_cards is sampled, not proved; repr(float) reading back is a hypothesis; Q-peak printing is an open known finding (golden file pins it)"),
 'C02': ("decide +kernel over the REGENERATED dispatch table of _parse_cards and every card __init__: every valid form of every keyword is accepted in every context and mode (entries_ok, handler_total, dispatch_covers_syntax); parse_reaches_end, modes_agree, quiet_never_raises by induction over the line list; every keyword x form x position x mode run on the real parser; the header as a grammar (header_closed, valid_file_no_raise, valid_file_modes_agree)",
         "tokens abstracted to 6 lexical classes; forms with bounded tails; value-level raises assumed away as listed in `assumed`; atoms with free-variable coded coordinates are an open known finding (test-suite pins is_atom)"),
 'C03': ("fold invariant over all files on a heap model with shared PART/AFIX/RESI objects (context_invariant, atoms_match_spec), element lookup, derived views as filters, RESI decoding over the form table, include splicing; generated interleavings observed after parsing; one_entry_per_atom_line; the truth rule of instruction objects as a parameter (truthiness_needed_frag/hklf, truthy_rule_is_code)",
         "lexical layer (tokenising, is_atom) outside the Lean model, sampled; n_anisotropic/n_isotropic counts including Q-peaks are open known findings (pinned by tests)"),
 'C04': ("refinement of the concrete line list to an abstract list of logical lines: op_refines per operation, history_refines by induction over arbitrary edit histories, scheme read off the source (extracted_scheme_is_load); bounded-exhaustive and random histories written and lexed after every step",
         "hypothesis Clean (delete_on_write empty, which the repaired parser guarantees); new tokens of setters are by-construction expectations of the harness"),
 'C05': ("normal form: glue_tokens (the code's gluing yields the spec's logical token lines for every valid layout), layout_preserves_norm for each of the six layout steps, layout_invariance on the closure, class_lookup_ci; metamorphic pairs on the real parser; case_invariance (letter case anywhere), include_layout_invariance (include files through read_file)",
         "theorems end at the token lists handed to the dispatcher; consumption of tokens by cards/atoms case-insensitively is sampled; ASCII, no tabs"),
 'C06': ("wrap_width (<= 80 columns), wrap_shape, wrap_tokens, wrap_nonblank for ALL instructions on a model of textwrap's chunking with the constants regenerated from misc.py (consts_ok), FVAR/SFAC printers emit keyword + parameters; exhaustive boundary grid and written files (wrap options, threshold and glue read by recording textwrap.TextWrapper.wrap calls)",
         "tabs not modelled; correspondence compares the exact text of wrap_line; file-level 'no bare line' is proved for FVAR/SFAC printers and observed for the rest"),
 'C07': ("order_preserved, raw_verbatim, write_fixpoint, include_transparent/include_no_accumulation over all line lists, printers and file systems (induction), fmtFixed idempotence and FVAR chunking proved; bytes of read/write cycles compared, with include files on disk",
         "printers abstract in the theorems (PrinterOk/Stable/htv hypotheses checked byte for byte by the harness); nested includes not modelled"),
 'C08': ("invariant Inv8 (positions hold the very object, ids unique, by-id/by-name lookups, deleted atoms absent) established by parse and preserved by every operation for ALL histories (history_inv), reread_resets/history_independent; invariant evaluated on the real object graph after every step, class-level state compared; attrs_history/read_attrs_spec: every instruction-valued attribute after any history equals the specification of the file read last",
         "op alphabet: read, delete, add_line, rename, element, to_isotropic, setters; replace_line/add_atom/insert_frag_fend_entry not modelled"),
 'C09': ("occ_eq_rule, pair_sums_to_p, pair_occupancies_in_range, sum_exact_spec, unit_formula_spec over all codes, FVAR lists and atom lists; generated files through the real API, full m x p grid in the thorough tier; src_ theorems: Atom.occupancy and sum_formula_exact_as_dict TRACED through read_string equal the model on every free-variable branch",
         "exact rational arithmetic (implementation compared at 1e-7); codes with <= 8 decimals; SFAC list duplicate free"),
 'C10': ("parse_denote by induction over the component grammar (numerals of any length, any layout), print_parse_id, eq_iff_mod_lattice, card_components; the bounded grammar (40 836 components) enumerated exhaustively on the real parser in both tiers; history_refines/history_roundtrip/history_eq over operator objects the library makes itself (centric copies, apply_latt_symm chains, re-parsed prints)",
         "translations exact in the model, float(n)/float(d) compared at 1e-12; round trip of thirds/sixths by harness only"),
 'C11': ("expand_perm (each operator of the full group exactly once), expand_card, expand_nodup, expand_closed for every valid setting; centring table regenerated from cards.py and proved equal to the manual's (lattTable_matches_manual); 43 tabulated settings by decide +kernel; operator multisets of the real parser compared; expand_shifted/tabulated_settings_shifted: every tabulated setting at every origin u in Q^3",
         "ValidSetting: |LATT| in 1..7 and SYMM lines pairwise distinct modulo centring/inversion; operator order not observed"),
 'C12': ("identities over the reals for the literal entries of the code: ortho_upper/unique/gram/metric/det/inverse, frac_to_cart_agrees, cart_frac_inverse, distance_agrees, recip_spec, ueq_is_third_trace, sylvester, posdef_congr, is_npd_iff; cells, points and tensors compared at 1e-9 with an exact Sylvester oracle; 26 src_ theorems: Matrix/Array/OrthogonalMatrix operations, vol_unitcell, frac_to_cart/cart_to_frac, atomic_distance and the parsed CELL/Atom observables (cart_coords, ucif, ustar, u_cart, ueq, inverses after cell.set) TRACED from the working tree equal the model for all real inputs",
         "partial: exact arithmetic only; math.cos/sin/sqrt enter through their algebraic relations; float rounding is measured, not proved"),
 'C13': ("wrap_component, wrap_is_min_image (orthogonal cells fully, general cells under RecipBound), selectOp_min/sdm_reports_min, covalent_iff_rule on the REGENERATED bond expression and constants, molindex_components with fuel sufficiency; small structures against brute force over operators x translations; constants and bond criterion read by probing calc_sdm on symbolic coordinates/radii/PART numbers; src_vectorLength",
         "partial: thresholds of the code are hypotheses; RecipBound for non-orthogonal cells is a hypothesis; pairs beyond the 5.3 A cut and hydrogen-only components are open known findings"),
 'C14': ("fold invariants of packer/grow for all inputs: grow_prefix, grown_atoms_are_images, no_coincident_same_part, bonded_images_present_partial; structures on special positions against an exact-Fraction oracle; thresholds read by probing collect_needed_symmetry/packer on symbolic distances; dupLim_is_the_property_distance",
         "partial: completeness only inside the d_min+0.2 window / nearest translate (open known findings); correctness of the SDM handed in is C13's"),
 'C15': ("identities over any field: direction_eq_triple on the sign polynomial READ FROM THE SOURCE, cross_dot_cross, dot_rot, triple_rot, torsion_rigid/mirror/reverse/canonical, angle_symm/range, named_distance_euclid, neighbours_spec; metamorphic relations and atan2 oracle on the real API; src_ theorems: torsion (sign test and clamp as path sets), angle, distance, Cartesian coordinates of parsed/moved/added atoms, find_atoms_around TRACED through the public API equal the model",
         "partial: exact arithmetic; sqrt/acos/round as parameters with recorded assumptions; -180 for trans-planar quadruples is an open known finding"),
 'C16': ("slots_match_syntax by decide +kernel over the REGENERATED slot table of every card __init__ against a code-independent syntax table, table_attr_spec/run_get (generic interpretation lemma), setter round trips; every form of every object-backed instruction with distinct non-default values, with/without DEFS (the slot table is synthesised from probing every card class with 0..16 symbolic tokens, with/without symbolic DEFS)",
         "11 residual classes hand-modelled or left out (listed in evidence); DefsOK is a hypothesis checked by the attrs stream"),
 'C17': ("warnings_eq_missing, assign_spec, message_iff, no_warning_if_all_exist, wildcards_never_reported for every atom list, residue registry and restraint; all keywords x addressing modes x residue layouts on the real parser; layout_warnings_eq_missing/layout_invariant_diagnostics: the model starts at the physical lines (every legal layout of a restraint), named_eq_missing",
         "WellFormed excludes malformed suffixes (decidable, returned per case); '_*' means residues defined by RESI"),
 'C18': ("cif_ops_denote (decide +kernel over the complete table of rows x translations k/12 for the printing mode read off the source), double_rows_denote through a model of limit_denominator, cif_total, cif_values_eq_model, loop theorems; CIFs of generated files parsed by an independent reader (dict keys, template tags and the fraction bound are what the export really used: string.Template and Fraction.limit_denominator instrumented)",
         "translations k/12, |k| <= 24; general correctness of limit_denominator not proved; tags regenerated from template and dict"),
 'C19': ("protocol state machine over an abstract file system: failure_restores, success_reloads, acta_after_unit, ins_is_model, no_stale_restore, failure_keeps_model, history_meets_spec by induction over call histories for ALL contents/outcomes; complete outcome x backup x ACTA x cycles grid driven against a scripted shelxl; line-list model under the abstract ACTA (lines_after_good_run, putActa_*), output_cannot_abort (what SHELXL prints and the .lst have no influence)",
         "atomic abstract file system (no partial writes, permissions, concurrency); result files of 1-9 bytes excluded (plausible)"),
 'C20': ("q2mat_proper, horn_identity (for the matrix the code builds), top_eigvec_optimal, rmsd_optimal, exact_copy_zero_rmsd, fit_fragment_places, jacobi_step_invariant over the reals; per-case optimality certificate (eigen-residual, pivots, sampled rotations) on the real code; jacobi_total; 10 src_ theorems: q2mat, transpose, rotmol, the quadratic form handed to jacobi, centroid, +-vect, rmsd TRACED from the working tree equal the model",
         "partial: exact arithmetic; Jacobi convergence certified per case, not proved; every proper rotation being q2mat of a unit quaternion is a hypothesis (hsurj)"),
}
checks = []
for pid in sorted(C):
    text, note = C[pid]
    checks.append({
        'property_id': pid, 'quick_cmd': f'./check {pid} --tier quick', 'thorough_cmd': f'./check {pid} --tier thorough',
        'evidence_file': f'evidence/{pid}.json', 'replay_cmd_template': f'./check {pid} --replay {{path}}', 'engine': 'lean-model',
        'level_claimed': {'category': 'proof', 'design_ref': f'DESIGN.md section 7 / {pid} and section 0', 'text': text},
        'level_note': 'trusted: Lean kernel + propext/Classical.choice/Quot.sound (audited per theorem every run), extract/*.py, sampled correspondence through the real API; ' + note,
        'technique': T})
m = {
 'version': 1,
 'setup_cmd': 'cd /verif && /venv/bin/python extract/extract.py --repo /repo >/dev/null && cd lean && lake build ShelxModel driver ShelxProps',
 'hooks': {'guard': 'SHELXFILE_VERIF', 'enable': 'no source hooks: all observations go through the public API in-process (scripted shelxl on PATH for C19)',
           'baseline_off_cmd': 'cd /repo && /venv/bin/python -m pytest -q -p no:cacheprovider', 'source_commits': [], 'add_only': True},
 'engines': [{'name': 'lean-model', 'path': 'lean/', 'serves_properties': sorted(C),
              'kind_free_text': 'Lean 4 model + property theorems (ShelxModel, ShelxProps), compiled model driver (line protocol), Python correspondence harness (harness/), ast translator (extract/)'}],
 'checks': checks,
 'not_applicable': [],
 'notes': 'Defects found on the pinned tree were repaired by fix: commits in /repo (known_findings.jsonl, fixed lines) or are listed there as open findings; see DESIGN.md section 0 and 10.'}
(V / 'MANIFEST.json').write_text(json.dumps(m, indent=1) + '\n')
print(len(checks), 'checks')

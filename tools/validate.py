#!/usr/bin/env python3
"""validate MANIFEST.json and every evidence/<id>.json against the schemas in /root/.vp, and the proof-level rule
discharged == obligations; exit 1 on any problem.   usage: python3-vt tools/validate.py"""
import json, sys
from pathlib import Path
import jsonschema
V = Path(__file__).resolve().parent.parent
S = Path('/root/.vp')
bad = 0
m = json.loads((V / 'MANIFEST.json').read_text())
try:
    jsonschema.validate(m, json.loads((S / 'MANIFEST.schema.json').read_text()))
except jsonschema.ValidationError as e:
    print('MANIFEST:', e.message[:300]); bad += 1
es = json.loads((S / 'EVIDENCE.schema.json').read_text())
ids = [json.loads(l)['id'] for l in (V / 'properties.jsonl').read_text().splitlines() if l.strip()]
claimed = {c['property_id'] for c in m['checks']}
na = {x['property_id'] if isinstance(x, dict) else x for x in m.get('not_applicable', [])}
for i in ids:
    if i not in claimed and i not in na:
        print('neither claimed nor not_applicable:', i); bad += 1
for c in m['checks']:
    f = V / c['evidence_file']
    if not f.exists():
        print('missing evidence', f); bad += 1; continue
    e = json.loads(f.read_text())
    try:
        jsonschema.validate(e, es)
    except jsonschema.ValidationError as x:
        print(f.name, x.message[:300]); bad += 1
    cov = e['coverage']
    if cov.get('obligations') != cov.get('discharged') or cov.get('discharged', 0) < 1:
        print(f.name, 'discharged', cov.get('discharged'), '!= obligations', cov.get('obligations')); bad += 1
    if e.get('violations'):
        print(f.name, 'violations', e['violations']); bad += 1
    if not cov.get('samples') or cov.get('distinct_nontrivial', 0) < 1:
        print(f.name, 'no samples / no non-trivial cases'); bad += 1
print('ok' if not bad else f'{bad} problem(s)')
sys.exit(1 if bad else 0)

#!/venv/bin/python
"""(re)create extract/model_map.json: for every property the digests of the source files its mechanism is
anchored in (properties.jsonl anchors.files). Run after the models were brought in line with /repo HEAD.
A digest that differs at check time raises that property's quick budget to the thorough one (DESIGN 3.1)."""
import json, sys
from pathlib import Path
V = Path(__file__).resolve().parent.parent
sys.path.insert(0, str(V / 'extract'))
import extract
mp = {}
for l in (V / 'properties.jsonl').read_text().splitlines():
    p = json.loads(l)
    for f in p['anchors']['files']:
        mp.setdefault(f + '::', dict(props=[], digest=''))['props'].append(p['id'])
(V / 'extract' / 'model_map.json').write_text(json.dumps(mp, indent=1, sort_keys=True) + '\n')
extract.MAP = V / 'extract' / 'model_map.json'
print(extract.main(Path('/repo'), V / 'lean' / 'ShelxModel' / 'Extracted', update_map=True))

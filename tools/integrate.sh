#!/bin/bash
# tools/integrate.sh Cxx : merge branch cxx, apply its fix patches to /repo, run the check on /repo for seeds 0 and 1
P=$1; b=$(echo $P | tr 'C' 'c')
cd /verif
if ! git merge -q --no-edit $b 2>&1 | grep -v WARN; then :; fi
if git status --short | grep -q '^UU\|^AA'; then
  for f in extract/model_map.json; do git checkout --ours $f 2>/dev/null && git add $f; done
  if git status --short | grep -q '^UU\|^AA'; then echo "MERGE CONFLICT"; git status --short | grep '^UU\|^AA'; exit 1; fi
  git commit -q --no-edit
fi
tools/apply_fixes.sh $P || exit 1
git add -A; git commit -qm "$P: fix patches applied to /repo" 
for s in 0 1; do VERIF_SEED=$s ./check $P > /tmp/check_$P.$s.log 2>&1; echo "$P seed=$s exit=$?"; grep -a "^VIOLATION\|^KNOWN\|^  " /tmp/check_$P.$s.log | cut -c1-300 | head -12; done

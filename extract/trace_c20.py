"""
C20 — tracing targets: the algebraic kernels of shelxfile/fit/quatfit.py as the working tree computes them
(q2mat, transpose, rotmol, the 4×4 quadratic form that qtrfit hands to jacobi, centroid, matrix_minus/plus_vect, rmsd).
The Jacobi iteration branches on the numbers and is not a straight-line program; it stays with the hand-written model
and the sampled correspondence (lean/ShelxModel/C20.lean `jacobi`, invariants in ShelxProps/Lemmas/C20Jacobi.lean).
"""
from trace_run import target

Q = ['q0', 'q1', 'q2', 'q3']
U9 = [f'u{r}{c}' for r in range(3) for c in range(3)]


def pts(t, prefix, n, base):
    return [[t.var(f'{prefix}{i}{c}', base + 0.731 * i + 0.217 * k + 0.05 * i * k) for k, c in enumerate('xyz')]
            for i in range(1, n + 1)]


def names(prefix, n):
    return [f'{prefix}{i}{c}' for i in range(1, n + 1) for c in 'xyz']


@target('C20', 'q2mat', Q, doc='quatfit.q2mat([q0, q1, q2, q3]), row-major', result_len=9)
def q2mat(t):
    from shelxfile.fit.quatfit import q2mat
    return q2mat([t.var(n, s) for n, s in zip(Q, (0.5, 0.3, -0.4, 0.7))])


def umat(t):
    vs = [t.var(n, 0.3 + 0.17 * k - 0.013 * k * k) for k, n in enumerate(U9)]
    return [vs[0:3], vs[3:6], vs[6:9]]


@target('C20', 'transpose', U9, doc='quatfit.transpose(u), row-major', result_len=9)
def transpose(t):
    from shelxfile.fit.quatfit import transpose
    return [list(r) for r in transpose(umat(t))]


@target('C20', 'rotmol1', U9 + ['x', 'y', 'z'], doc='quatfit.rotmol([[x, y, z]], u)[0]', result_len=3)
def rotmol1(t):
    from shelxfile.fit.quatfit import rotmol
    return rotmol([[t.var('x', 1.1), t.var('y', -2.2), t.var('z', 3.3)]], umat(t))[0]


@target('C20', 'rotmol2', U9 + names('p', 2), doc='quatfit.rotmol([p1, p2], u), both points', result_len=6)
def rotmol2(t):
    from shelxfile.fit.quatfit import rotmol
    return rotmol(pts(t, 'p', 2, 0.4), umat(t))


class _Captured(Exception):
    pass


def _qform(t, n):
    import shelxfile.fit.quatfit as qf
    real = qf.jacobi

    def stub(matrix, maxsweeps):
        e = _Captured()
        e.matrix = matrix
        raise e
    qf.jacobi = stub
    try:
        qf.qtrfit(pts(t, 's', n, 0.4), pts(t, 't', n, -0.9), 30)
    except _Captured as e:
        m = e.matrix
        return [m[0][0], m[0][1], m[0][2], m[0][3], m[1][1], m[1][2], m[1][3], m[2][2], m[2][3], m[3][3]]
    finally:
        qf.jacobi = real
    raise LookupError('qtrfit did not call jacobi')


@target('C20', 'qform1', names('s', 1) + names('t', 1), result_len=10,
        doc='the upper triangle (n00 n01 n02 n03 n11 n12 n13 n22 n23 n33) of the matrix qtrfit passes to jacobi, one point pair')
def qform1(t):
    return _qform(t, 1)


@target('C20', 'qform3', names('s', 3) + names('t', 3), result_len=10,
        doc='the upper triangle of the matrix qtrfit passes to jacobi, three point pairs')
def qform3(t):
    return _qform(t, 3)


@target('C20', 'centroid3', names('p', 3), doc='quatfit.centroid([p1, p2, p3])', result_len=3)
def centroid3(t):
    from shelxfile.fit.quatfit import centroid
    return list(centroid(pts(t, 'p', 3, 0.4)))


@target('C20', 'minusVect2', names('p', 2) + ['vx', 'vy', 'vz'], doc='quatfit.matrix_minus_vect([p1, p2], v)', result_len=6)
def minus2(t):
    from shelxfile.fit.quatfit import matrix_minus_vect
    return matrix_minus_vect(pts(t, 'p', 2, 0.4), (t.var('vx', 0.3), t.var('vy', 0.2), t.var('vz', 0.1)))


@target('C20', 'plusVect2', names('p', 2) + ['vx', 'vy', 'vz'], doc='quatfit.matrix_plus_vect([p1, p2], v)', result_len=6)
def plus2(t):
    from shelxfile.fit.quatfit import matrix_plus_vect
    return matrix_plus_vect(pts(t, 'p', 2, 0.4), (t.var('vx', 0.3), t.var('vy', 0.2), t.var('vz', 0.1)))


@target('C20', 'rmsd2', names('v', 2) + names('w', 2), doc='quatfit.rmsd([v1, v2], [w1, w2])', calls=['sqrt'])
def rmsd2(t):
    from shelxfile.fit.quatfit import rmsd
    return rmsd(pts(t, 'v', 2, 0.4), pts(t, 'w', 2, -0.9))

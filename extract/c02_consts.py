"""
C02 translator, part 1: the modules of the repository as syntax trees, and an evaluator for the *constant* part of
them (module-level and class-level named constants, tuples / frozensets / dicts of keywords, compiled regular
expressions, constants computed from other constants, `'…'.split()`, comprehensions over constants …).

Nothing of the repository is executed: the evaluator walks the syntax tree itself and knows a closed list of
builtins and of non-mutating methods of str / tuple / list / dict / set / frozenset / re.Pattern.  Whatever it cannot
evaluate raises `NotConst` (the caller then treats the value as unknown — never as a guess).
"""
from __future__ import annotations

import ast
import builtins
import math
import re
from pathlib import Path


class NotConst(Exception):
    pass


class ClassRef:
    def __init__(self, mod, name):
        self.mod, self.name = mod, name

    def __repr__(self):
        return f'<class {self.name}>'

    def __eq__(self, o):
        return isinstance(o, ClassRef) and (o.mod, o.name) == (self.mod, self.name)

    def __hash__(self):
        return hash((self.mod, self.name))


class FuncRef:
    """a function of a module (cls None) or a plain function found in a class body (cls = its name)"""

    def __init__(self, mod, name, cls=None):
        self.mod, self.name, self.cls = mod, name, cls

    def __repr__(self):
        return f'<function {self.cls + "." if self.cls else ""}{self.name}>'

    def __eq__(self, o):
        return isinstance(o, FuncRef) and (o.mod, o.name, o.cls) == (self.mod, self.name, self.cls)

    def __hash__(self):
        return hash((self.mod, self.name, self.cls))


class ModRef:
    def __init__(self, mod):
        self.mod = mod

    def __repr__(self):
        return f'<module {self.mod}>'


SAFE_CALLS = {n: getattr(builtins, n) for n in (
    'len', 'tuple', 'list', 'set', 'frozenset', 'dict', 'sorted', 'range', 'str', 'int', 'float', 'min', 'max', 'sum', 'abs',
    'enumerate', 'zip', 'reversed', 'bool', 'any', 'all', 'repr', 'round', 'chr', 'ord', 'divmod', 'map', 'filter')}
MUTATORS = {'append', 'extend', 'insert', 'pop', 'remove', 'clear', 'sort', 'reverse', 'update', 'add', 'discard', 'setdefault',
            'popitem', 'difference_update', 'intersection_update', 'symmetric_difference_update', '__setitem__', '__delitem__'}
SAFE_TYPES = (str, bytes, tuple, list, dict, set, frozenset, int, float, bool, type(None), re.Pattern, re.Match, range)
RE_NAMES = {'compile', 'match', 'search', 'fullmatch', 'findall', 'split', 'sub', 'escape', 'IGNORECASE', 'I', 'MULTILINE', 'M',
            'DOTALL', 'S', 'VERBOSE', 'X', 'ASCII', 'A', 'UNICODE', 'U'}
BINOPS = {ast.Add: lambda a, b: a + b, ast.Sub: lambda a, b: a - b, ast.Mult: lambda a, b: a * b, ast.Div: lambda a, b: a / b,
          ast.FloorDiv: lambda a, b: a // b, ast.Mod: lambda a, b: a % b, ast.Pow: lambda a, b: a ** b,
          ast.BitOr: lambda a, b: a | b, ast.BitAnd: lambda a, b: a & b, ast.BitXor: lambda a, b: a ^ b,
          ast.LShift: lambda a, b: a << b, ast.RShift: lambda a, b: a >> b}
CMPOPS = {ast.Eq: lambda a, b: a == b, ast.NotEq: lambda a, b: a != b, ast.Lt: lambda a, b: a < b, ast.LtE: lambda a, b: a <= b,
          ast.Gt: lambda a, b: a > b, ast.GtE: lambda a, b: a >= b, ast.In: lambda a, b: a in b, ast.NotIn: lambda a, b: a not in b,
          ast.Is: lambda a, b: a is b, ast.IsNot: lambda a, b: a is not b}


def is_safe_value(v, depth=0):
    if isinstance(v, (ClassRef, FuncRef, ModRef)):
        return True
    if not isinstance(v, SAFE_TYPES):
        return False
    if depth > 4:
        return True
    if isinstance(v, (tuple, list, set, frozenset)):
        return all(is_safe_value(x, depth + 1) for x in v)
    if isinstance(v, dict):
        return all(is_safe_value(k, depth + 1) and is_safe_value(x, depth + 1) for k, x in v.items())
    return True


class CEval:
    """evaluate an expression whose names `lookup` can all resolve to constants"""

    def __init__(self, lookup):
        self.lookup = lookup       # name -> value, raises NotConst

    def ev(self, n, loc=None):
        loc = loc or {}
        m = getattr(self, 'ev_' + type(n).__name__, None)
        if m is None:
            raise NotConst(type(n).__name__)
        return m(n, loc)

    def ev_Constant(self, n, loc):
        return n.value

    def ev_Name(self, n, loc):
        if n.id in loc:
            return loc[n.id]
        return self.lookup(n.id)

    def seq(self, elts, loc):
        out = []
        for e in elts:
            if isinstance(e, ast.Starred):
                out.extend(self.ev(e.value, loc))
            else:
                out.append(self.ev(e, loc))
        return out

    def ev_Tuple(self, n, loc):
        return tuple(self.seq(n.elts, loc))

    def ev_List(self, n, loc):
        return list(self.seq(n.elts, loc))

    def ev_Set(self, n, loc):
        return set(self.seq(n.elts, loc))

    def ev_Dict(self, n, loc):
        d = {}
        for k, v in zip(n.keys, n.values):
            if k is None:
                d.update(self.ev(v, loc))
            else:
                d[self.ev(k, loc)] = self.ev(v, loc)
        return d

    def ev_UnaryOp(self, n, loc):
        v = self.ev(n.operand, loc)
        if isinstance(n.op, ast.Not):
            return not v
        if isinstance(n.op, ast.USub):
            return -v
        if isinstance(n.op, ast.UAdd):
            return +v
        if isinstance(n.op, ast.Invert):
            return ~v
        raise NotConst('unary')

    def ev_BinOp(self, n, loc):
        f = BINOPS.get(type(n.op))
        if f is None:
            raise NotConst('binop')
        a, b = self.ev(n.left, loc), self.ev(n.right, loc)
        if isinstance(n.op, ast.Pow) and isinstance(b, (int, float)) and abs(b) > 64:
            raise NotConst('pow')
        if isinstance(n.op, ast.Mult) and isinstance(a, (str, list, tuple)) and isinstance(b, int) and b > 10000:
            raise NotConst('repeat')
        try:
            return f(a, b)
        except Exception as e:
            raise NotConst(repr(e))

    def ev_BoolOp(self, n, loc):
        v = None
        for x in n.values:
            v = self.ev(x, loc)
            if isinstance(n.op, ast.And) and not v:
                return v
            if isinstance(n.op, ast.Or) and v:
                return v
        return v

    def ev_Compare(self, n, loc):
        left = self.ev(n.left, loc)
        for op, c in zip(n.ops, n.comparators):
            right = self.ev(c, loc)
            f = CMPOPS.get(type(op))
            try:
                if not f(left, right):
                    return False
            except Exception as e:
                raise NotConst(repr(e))
            left = right
        return True

    def ev_IfExp(self, n, loc):
        return self.ev(n.body, loc) if self.ev(n.test, loc) else self.ev(n.orelse, loc)

    def ev_Subscript(self, n, loc):
        v = self.ev(n.value, loc)
        try:
            return v[self.ev(n.slice, loc)]
        except NotConst:
            raise
        except Exception as e:
            raise NotConst(repr(e))

    def ev_Slice(self, n, loc):
        return slice(*(None if x is None else self.ev(x, loc) for x in (n.lower, n.upper, n.step)))

    def ev_JoinedStr(self, n, loc):
        out = []
        for v in n.values:
            if isinstance(v, ast.Constant):
                out.append(str(v.value))
            else:
                out.append(self.ev(v, loc))
        return ''.join(out)

    def ev_FormattedValue(self, n, loc):
        v = self.ev(n.value, loc)
        if n.conversion == ord('r'):
            v = repr(v)
        elif n.conversion == ord('s'):
            v = str(v)
        spec = self.ev(n.format_spec, loc) if n.format_spec is not None else ''
        try:
            return format(v, spec)
        except Exception as e:
            raise NotConst(repr(e))

    def ev_Attribute(self, n, loc):
        v = self.ev(n.value, loc)
        return self.attr(v, n.attr)

    def attr(self, v, name):
        if v is re:
            if name in RE_NAMES:
                return getattr(re, name)
            raise NotConst('re.' + name)
        if v is math:
            if name in ('pi', 'e', 'inf', 'nan', 'tau'):
                return getattr(math, name)
            raise NotConst('math.' + name)
        if isinstance(v, (ClassRef, FuncRef)) and name in ('__name__', '__qualname__'):
            return v.name
        if isinstance(v, (ClassRef, ModRef)):
            r = self.lookup_attr(v, name)
            return r
        raise NotConst('attribute ' + name)

    def lookup_attr(self, v, name):       # overridden by users that know the program
        raise NotConst('attribute')

    def ev_Call(self, n, loc):
        args = self.seq(n.args, loc)
        kw = {}
        for k in n.keywords:
            if k.arg is None:
                kw.update(self.ev(k.value, loc))
            else:
                kw[k.arg] = self.ev(k.value, loc)
        f = n.func
        try:
            if isinstance(f, ast.Name) and f.id not in loc:
                if f.id in SAFE_CALLS:
                    try:
                        self.lookup(f.id)
                        shadowed = True
                    except NotConst:
                        shadowed = False
                    if not shadowed:
                        r = SAFE_CALLS[f.id](*args, **kw)
                        if f.id in ('map', 'filter', 'zip', 'enumerate', 'reversed'):
                            r = list(r)
                        return self.checked(r)
                raise NotConst('call ' + f.id)
            if isinstance(f, ast.Attribute):
                if isinstance(f.value, ast.Name) and f.value.id == 'str' and f.attr not in MUTATORS and not f.attr.startswith('_'):
                    return self.checked(getattr(str, f.attr)(*args, **kw))       # str.isdigit(x)
                recv = self.ev(f.value, loc)
                if recv is re:
                    if f.attr in RE_NAMES:
                        return self.checked(getattr(re, f.attr)(*args, **kw))
                    raise NotConst('re.' + f.attr)
                if isinstance(recv, SAFE_TYPES) and not f.attr.startswith('_') and f.attr not in MUTATORS:
                    r = getattr(recv, f.attr)(*args, **kw)
                    if type(r).__name__ in ('dict_keys', 'dict_values', 'dict_items', 'generator', 'callable_iterator'):
                        r = list(r)
                    return self.checked(r)
        except NotConst:
            raise
        except Exception as e:
            raise NotConst(repr(e))
        raise NotConst('call')

    def checked(self, r):
        if isinstance(r, (map, filter, zip, enumerate, reversed)):
            r = list(r)
        if not is_safe_value(r):
            raise NotConst('result type ' + type(r).__name__)
        return r

    def comp(self, gens, loc, emit):
        if not gens:
            emit(loc)
            return
        g = gens[0]
        if g.is_async:
            raise NotConst('async')
        it = self.ev(g.iter, loc)
        n = 0
        for item in it:
            n += 1
            if n > 5000:
                raise NotConst('long iteration')
            l2 = dict(loc)
            self.bind(g.target, item, l2)
            if all(self.ev(c, l2) for c in g.ifs):
                self.comp(gens[1:], l2, emit)

    def bind(self, tgt, v, loc):
        if isinstance(tgt, ast.Name):
            loc[tgt.id] = v
        elif isinstance(tgt, (ast.Tuple, ast.List)):
            vs = list(v)
            if len(vs) != len(tgt.elts):
                raise NotConst('unpack')
            for t, x in zip(tgt.elts, vs):
                self.bind(t, x, loc)
        else:
            raise NotConst('target')

    def ev_ListComp(self, n, loc):
        out = []
        self.comp(n.generators, loc, lambda l: out.append(self.ev(n.elt, l)))
        return out

    ev_GeneratorExp = ev_ListComp

    def ev_SetComp(self, n, loc):
        out = set()
        self.comp(n.generators, loc, lambda l: out.add(self.ev(n.elt, l)))
        return out

    def ev_DictComp(self, n, loc):
        out = {}

        def put(l):
            out[self.ev(n.key, l)] = self.ev(n.value, l)
        self.comp(n.generators, loc, put)
        return out


# ----------------------------------------------------------------------------------------------------------------
# the program: modules of the package under test, as trees

class ModInfo:
    def __init__(self, prog, dotted, path):
        self.prog, self.name, self.path = prog, dotted, path
        self.tree = ast.parse(path.read_text(), filename=str(path))
        self.funcs, self.classes, self.imports, self.assigns, self.multi = {}, {}, {}, {}, set()
        self.names = set(dir(builtins))
        self._const = {}
        self._busy = set()
        self.scan(self.tree.body, top=True)

    def scan(self, body, top):
        for st in body:
            if isinstance(st, (ast.FunctionDef, ast.AsyncFunctionDef)):
                self.funcs[st.name] = st
                self.names.add(st.name)
            elif isinstance(st, ast.ClassDef):
                self.classes[st.name] = st
                self.names.add(st.name)
            elif isinstance(st, ast.Import):
                for a in st.names:
                    local = (a.asname or a.name).split('.')[0]
                    self.names.add(local)
                    self.imports[local] = (a.name if a.asname else a.name.split('.')[0], None)
            elif isinstance(st, ast.ImportFrom):
                for a in st.names:
                    local = a.asname or a.name
                    self.names.add(local)
                    base = st.module or ''
                    if st.level:
                        parts = self.name.split('.')
                        base = '.'.join(parts[:len(parts) - st.level] + ([st.module] if st.module else []))
                    self.imports[local] = (base, a.name)
            elif isinstance(st, (ast.Assign, ast.AnnAssign)):
                tg = st.targets if isinstance(st, ast.Assign) else [st.target]
                for t in tg:
                    for n in ast.walk(t):
                        if isinstance(n, ast.Name):
                            self.names.add(n.id)
                    if isinstance(t, ast.Name) and st.value is not None:
                        if t.id in self.assigns:
                            self.multi.add(t.id)
                        self.assigns[t.id] = st.value
            elif isinstance(st, ast.AugAssign):
                if isinstance(st.target, ast.Name):
                    self.multi.add(st.target.id)
            elif isinstance(st, (ast.If, ast.Try)):
                if isinstance(st, ast.If) and '__name__' in ast.unparse(st.test):
                    continue      # names bound only when the module runs as a script do not exist for the library
                for n in ast.walk(st):
                    if isinstance(n, (ast.Import, ast.ImportFrom)):
                        for a in n.names:
                            self.names.add((a.asname or a.name).split('.')[0])
                    if isinstance(n, ast.Name) and isinstance(n.ctx, ast.Store):
                        self.names.add(n.id)
                        self.multi.add(n.id)
                    if isinstance(n, (ast.FunctionDef, ast.ClassDef)):
                        self.names.add(n.name)

    # -- values of module-level names ------------------------------------------------------------------------
    def value(self, name):
        """constant value / ClassRef / FuncRef / ModRef of a module-level name; raises NotConst"""
        if name in self._const:
            v = self._const[name]
            if isinstance(v, NotConst):
                raise v
            return v
        if name in self._busy:
            raise NotConst('cycle')
        self._busy.add(name)
        try:
            v = self._value(name)
            self._const[name] = v
            return v
        except NotConst as e:
            self._const[name] = e
            raise
        finally:
            self._busy.discard(name)

    def _value(self, name):
        if name in self.classes:
            return ClassRef(self.name, name)
        if name in self.funcs:
            return FuncRef(self.name, name)
        if name in self.assigns and name not in self.multi:
            return self.evaluator().ev(self.assigns[name])
        if name in self.imports:
            mod, orig = self.imports[name]
            if orig is None:
                if mod == 're':
                    return re
                if mod == 'math':
                    return math
                m = self.prog.module(mod)
                if m is not None:
                    return ModRef(mod)
                raise NotConst('import ' + mod)
            m = self.prog.module(mod)
            if m is not None:
                return m.value(orig)
            sub = self.prog.module(mod + '.' + orig)
            if sub is not None:
                return ModRef(mod + '.' + orig)
            if mod == 're' and orig in RE_NAMES:
                return getattr(re, orig)
            if mod == 'math' and orig in ('pi', 'e', 'inf', 'tau'):
                return getattr(math, orig)
            raise NotConst('import ' + mod + '.' + orig)
        if name in ('True', 'False', 'None'):
            return {'True': True, 'False': False, 'None': None}[name]
        raise NotConst('name ' + name)

    def evaluator(self):
        ce = CEval(self.value)
        ce.lookup_attr = self.prog.lookup_attr
        return ce


class Program:
    def __init__(self, repo, package='shelxfile'):
        self.repo, self.package = Path(repo), package
        self.mods = {}

    def module(self, dotted):
        if dotted in self.mods:
            return self.mods[dotted]
        m = None
        if dotted == self.package or dotted.startswith(self.package + '.'):
            p = self.repo.joinpath(*dotted.split('.'))
            for cand in (p.with_suffix('.py'), p / '__init__.py'):
                if cand.is_file():
                    try:
                        m = ModInfo(self, dotted, cand)
                    except SyntaxError:
                        m = None
                    break
        self.mods[dotted] = m
        return m

    def cls(self, ref):
        m = self.module(ref.mod)
        return m.classes.get(ref.name) if m else None

    def func(self, ref):
        m = self.module(ref.mod)
        if m is None:
            return None
        if ref.cls:
            c = m.classes.get(ref.cls)
            return next((s for s in c.body if isinstance(s, ast.FunctionDef) and s.name == ref.name), None) if c else None
        return m.funcs.get(ref.name)

    def bases(self, ref):
        c = self.cls(ref)
        out = []
        if c is None:
            return out
        m = self.module(ref.mod)
        for b in c.bases:
            if isinstance(b, ast.Name):
                try:
                    v = m.value(b.id)
                except NotConst:
                    continue
                if isinstance(v, ClassRef):
                    out.append(v)
        return out

    def mro(self, ref):
        seen, out, todo = set(), [], [ref]
        while todo:
            r = todo.pop(0)
            if r in seen:
                continue
            seen.add(r)
            out.append(r)
            todo = self.bases(r) + todo if False else todo + self.bases(r)
        return out

    def class_assign(self, ref, name):
        """value expression of a class-level assignment `name = …` (searching the bases), with its class"""
        for r in self.mro(ref):
            c = self.cls(r)
            for st in c.body:
                if isinstance(st, (ast.Assign, ast.AnnAssign)) and st.value is not None:
                    tg = st.targets if isinstance(st, ast.Assign) else [st.target]
                    if any(isinstance(t, ast.Name) and t.id == name for t in tg):
                        return r, st.value
        return None, None

    def method(self, ref, name):
        """(defining class ref, FunctionDef) of a method, searching the bases"""
        for r in self.mro(ref):
            c = self.cls(r)
            for st in c.body:
                if isinstance(st, ast.FunctionDef) and st.name == name:
                    return r, st
        return None, None

    def lookup_attr(self, v, name):
        if isinstance(v, ClassRef):
            r, expr = self.class_assign(v, name)
            if expr is not None:
                return self.module(r.mod).evaluator().ev(expr)
            r, fn = self.method(v, name)
            if fn is not None:
                return FuncRef(r.mod, name, r.name)
            raise NotConst('class attribute ' + name)
        if isinstance(v, ModRef):
            m = self.module(v.mod)
            if m is None:
                raise NotConst('module')
            return m.value(name)
        raise NotConst('attribute')


def decorators(fn):
    out = set()
    for d in fn.decorator_list:
        if isinstance(d, ast.Name):
            out.add(d.id)
        elif isinstance(d, ast.Attribute):
            out.add(d.attr)
    return out


_LOCALS = {}


def local_names(fn):
    if fn in _LOCALS:
        return _LOCALS[fn]
    r = _local_names(fn)
    _LOCALS[fn] = r
    return r


def _local_names(fn):
    a = fn.args
    out = {x.arg for x in a.posonlyargs + a.args + a.kwonlyargs}
    if a.vararg:
        out.add(a.vararg.arg)
    if a.kwarg:
        out.add(a.kwarg.arg)
    for n in ast.walk(fn):
        if isinstance(n, ast.Name) and isinstance(n.ctx, (ast.Store, ast.Del)):
            out.add(n.id)
        if isinstance(n, ast.ExceptHandler) and n.name:
            out.add(n.name)
        if isinstance(n, (ast.Import, ast.ImportFrom)):
            for x in n.names:
                out.add((x.asname or x.name).split('.')[0])
        if isinstance(n, (ast.FunctionDef, ast.ClassDef)) and n is not fn:
            out.add(n.name)
    return out

#!/venv/bin/python
"""
Subprocess entry of the C01 translator (extract/tables_c01.py): the tables of property C01 are read off the working
tree BY MEANING, not by the shape of the source. The package is imported from --repo and

  spy pass     a small file is read through the public API with every number of its atom lines replaced by a spy
               (a `float` that records the format specification it is printed with and how it was computed from the
               tokens of the line); float literals of the package's own source are spies too (import hook), and the
               name / scattering-factor number of the parsed atom are replaced by `str` / `int` spies. `str(atom)` then
               tells, field by field, which value is printed with which alignment, width and precision and how many
               blanks stand between the fields — whether the code says `'{:>12.6f}'.format(x)`, `f'{x:>12.6f}'`,
               `format(x, '>12.6f')`, builds the format string from pieces, keeps it in a module constant, loops over
               a table of widths or goes through helper functions.
  search pass  every string of the package (values of module / class attributes after import, string literals and
               f-strings in the source) that parses as a `{}`- or `%`-style format of blank-separated fixed fields is a
               further candidate for each layout.
  validation   a candidate is only accepted if, on a set of probe atoms with values of very different lengths (read
               through `Shelxfile.read_string`), it reproduces `str(atom)` of the UNMODIFIED package character by
               character. A reading that does not is discarded; if none is left the table is reported as lost.

The chunk size of FVARs.__str__ is measured (files with 1..99 free variables); whether a class computes its text or
gives back the stored line is decided by behaviour (see `overrides`).

Prints one JSON object after the line `C01-PROBE-RESULT`.
usage: probe_c01.py --repo /repo
"""
from __future__ import annotations

import argparse
import ast
import builtins
import contextlib
import importlib
import importlib.abc
import importlib.machinery
import inspect
import io
import json
import re
import sys
import traceback
from fractions import Fraction
from pathlib import Path

PKG = 'shelxfile'

# ------------------------------------------------------------------------------------------------------------
# spies

EVENTS = []          # (kind, spec, text, src) in the order the values were formatted


class SpyF(float):
    """a float that remembers where it came from and with which specification it is printed"""

    def __new__(cls, val=0.0, src=None):
        o = float.__new__(cls, val)
        o.src = src
        return o

    def __getnewargs__(self):
        return (float.__float__(self), getattr(self, 'src', None))

    def __format__(self, spec):
        t = float.__format__(self, spec)
        EVENTS.append(('float', spec, t, getattr(self, 'src', None), repr(float.__float__(self))))
        return t

    @staticmethod
    def _src(x):
        if isinstance(x, SpyF):
            return x.src
        return ('const', repr(x))

    def _bin(self, o, op, fn, swap=False):
        if isinstance(o, bool) or not isinstance(o, (int, float)):
            return NotImplemented
        a, b = (o, self) if swap else (self, o)
        va = float.__float__(a) if isinstance(a, float) else a
        vb = float.__float__(b) if isinstance(b, float) else b
        return SpyF(fn(va, vb), (op, SpyF._src(a), SpyF._src(b)))

    def __add__(self, o): return self._bin(o, 'add', lambda x, y: x + y)
    def __radd__(self, o): return self._bin(o, 'add', lambda x, y: x + y, True)
    def __sub__(self, o): return self._bin(o, 'sub', lambda x, y: x - y)
    def __rsub__(self, o): return self._bin(o, 'sub', lambda x, y: x - y, True)
    def __mul__(self, o): return self._bin(o, 'mul', lambda x, y: x * y)
    def __rmul__(self, o): return self._bin(o, 'mul', lambda x, y: x * y, True)
    def __truediv__(self, o): return self._bin(o, 'div', lambda x, y: x / y)
    def __rtruediv__(self, o): return self._bin(o, 'div', lambda x, y: x / y, True)
    def __neg__(self): return SpyF(-float.__float__(self), ('neg', self.src))
    def __pos__(self): return self
    def __abs__(self): return SpyF(abs(float.__float__(self)), ('abs', self.src))

    def __round__(self, n=None):
        if n is None:
            return round(float.__float__(self))
        return SpyF(round(float.__float__(self), n), ('round', n, self.src))

    def __hash__(self): return float.__hash__(self)


class SpyI(int):
    def __new__(cls, val=0, src=None):
        o = int.__new__(cls, val)
        o.src = src
        return o

    def __getnewargs__(self):
        return (int(self), getattr(self, 'src', None))

    def __format__(self, spec):
        t = int.__format__(self, spec)
        EVENTS.append(('int', spec, t, getattr(self, 'src', None), repr(int(self))))
        return t


class SpyS(str):
    def __new__(cls, val='', src=None):
        o = str.__new__(cls, val)
        o.src = src
        return o

    def __getnewargs__(self):
        return (str.__str__(self), getattr(self, 'src', None))

    def __str__(self):
        return self

    def __format__(self, spec):
        t = str.__format__(self, spec)
        EVENTS.append(('str', spec, t, getattr(self, 'src', None), str.__str__(self)))
        return t


def src_leaves(src, out=None):
    """the inputs / constants an expression is made of"""
    out = [] if out is None else out
    if not isinstance(src, tuple):
        return out
    if src[0] in ('var', 'const'):
        out.append(src)
    else:
        for s in src[1:]:
            src_leaves(s, out)
    return out


# ------------------------------------------------------------------------------------------------------------
# import of the package from the tree under test, optionally with float literals turned into spies

def lit(v):
    return SpyF(v, ('const', repr(v)))


class _LitTransformer(ast.NodeTransformer):
    def visit_Constant(self, node):
        if type(node.value) is float and node.value == node.value and abs(node.value) != float('inf'):
            return ast.copy_location(ast.Call(func=ast.Name(id='__c01_lit__', ctx=ast.Load()), args=[ast.Constant(node.value)],
                                              keywords=[]), node)
        return node

    # patterns of `match` statements may only contain literals
    def visit_Match(self, node):
        node.subject = self.visit(node.subject)
        for case in node.cases:
            if case.guard is not None:
                case.guard = self.visit(case.guard)
            case.body = [self.visit(s) for s in case.body]
        return node


class _LitLoader(importlib.machinery.SourceFileLoader):
    def get_code(self, fullname):          # never the byte-code cache
        path = self.get_filename(fullname)
        return self.source_to_code(self.get_data(path), path)

    def source_to_code(self, data, path, *, _optimize=-1):
        tree = ast.parse(data, filename=path)
        tree = _LitTransformer().visit(tree)
        ast.fix_missing_locations(tree)
        return compile(tree, path, 'exec', dont_inherit=True, optimize=_optimize)


class _LitFinder(importlib.abc.MetaPathFinder):
    def find_spec(self, fullname, path, target=None):
        if fullname != PKG and not fullname.startswith(PKG + '.'):
            return None
        spec = importlib.machinery.PathFinder.find_spec(fullname, path)
        if spec is not None and type(spec.loader) is importlib.machinery.SourceFileLoader:
            spec.loader = _LitLoader(spec.loader.name, spec.loader.path)
        return spec


FINDER = _LitFinder()


def purge():
    for n in [n for n in sys.modules if n == PKG or n.startswith(PKG + '.')]:
        del sys.modules[n]
    importlib.invalidate_caches()


def import_pkg(repo, hooked):
    purge()
    repo = str(repo)
    sys.path[:] = [p for p in sys.path if p != repo]
    sys.path.insert(0, repo)
    sys.dont_write_bytecode = True
    if hooked:
        builtins.__c01_lit__ = lit
        sys.meta_path.insert(0, FINDER)
    pkg = importlib.import_module(PKG)
    root = str(getattr(pkg, '__file__', ''))
    if not root.startswith(repo):
        raise ImportError(f'{PKG} was imported from {root}, not from {repo}')
    return pkg


def unhook():
    if FINDER in sys.meta_path:
        sys.meta_path.remove(FINDER)


def package_modules():
    return [m for n, m in list(sys.modules.items()) if (n == PKG or n.startswith(PKG + '.')) and m is not None]


class _SpyFloatMeta(type):
    def __getattr__(cls, name):          # float.is_integer, float.hex, ...
        return getattr(builtins.float, name)

    def __instancecheck__(cls, inst):
        return isinstance(inst, builtins.float)

    def __subclasscheck__(cls, sub):
        return issubclass(sub, builtins.float)


def make_spyfloat(placeholders):
    """`float` as the package sees it during the spy pass: the tokens of the probe file become named spies"""
    real = builtins.float

    class spyfloat(metaclass=_SpyFloatMeta):
        def __new__(cls, x=0.0):
            if isinstance(x, SpyF):
                return x
            if isinstance(x, str) and x.strip() in placeholders:
                return SpyF(real(x), ('var', placeholders[x.strip()]))
            return real(x)
        fromhex = real.fromhex
    return spyfloat


# ------------------------------------------------------------------------------------------------------------
# layouts: what the model (renderAtom of lean/ShelxModel/C01.lean) passes to which format, in order

KINDS = dict(iso='si' + 'f' * 5, anis='si' + 'f' * 10, qpeak='si' + 'f' * 6, frag='s' + 'f' * 3)
HEAD = """TITL c01 probe
CELL 0.71073 10.5101 11.5202 12.5303 90 95.5 90
ZERR 4 0.001 0.001 0.001 0 0.01 0
LATT -1
SFAC C H N O F S P B I K U W
UNIT 4 4 4 4 4 4 4 4 4 4 4 4
FVAR 1.0 0.5 0.4
"""


def atom_line(name, sfac, nums):
    return ' '.join([name, str(sfac)] + list(nums))


# the spy file: every numeric token of an atom line is unique in the file
SPY_ATOMS = dict(
    iso=('N1', 3, ['0.123411', '0.234522', '0.345633', '10.512344', '0.051255']),
    anis=('O2', 3, ['0.123412', '0.234523', '0.345634', '10.512345', '0.021101', '0.032202', '0.043303', '-0.004404',
                    '0.005505', '-0.006606']),
    frag=('H3', 3, ['0.123413', '0.234524', '0.345635', '10.512346', '0.061256']),
    qpeak=('Q4', 3, ['0.123414', '0.234525', '0.345636', '10.512347', '0.071257', '1.234518']),
)
NUMNAMES = ['x', 'y', 'z', 'sof', 'u1', 'u2', 'u3', 'u4', 'u5', 'u6']


def spy_text():
    a = SPY_ATOMS
    return HEAD + '\n'.join([atom_line(*a['iso']), atom_line(*a['anis']), 'AFIX 137', atom_line(*a['frag']), 'AFIX 0',
                             'HKLF 4', 'END', 'WGHT 0.05 0.2', atom_line(*a['qpeak'])]) + '\n'


# validation probes: values of very different lengths (the widths of the fields show at the long ones), names of one
# to four characters, one- and two-digit scattering-factor numbers; coordinates beyond -4 carry a free-variable code
# and are printed from their two parts (all chosen exactly representable); the FRAG layout prints the bare coordinate
LONG = '-1234567.5'      # longer than any column: shows where the width of a column ends
VAL_ISO = [('C1', 1, ['0.1', '0.2', '0.3', '11.0', '0.05']),
           ('CL12', 12, ['-0.123456', '1.234567', '-3.999999', '-31.5', '-1.2']),
           ('N', 3, ['-1000.5', '-100.25', '3.5', '10.5', '21.05']),
           ('O22', 4, ['0.5', '-20.125', '-3000.75', '-131.25', '0.0123456']),
           ('F5', 10, ['0.0000004', '-0.0000005', '0.9999995', '41.0', '0.04']),
           ('S1A', 6, ['-0.25', '0.75', '-12345.5', '10.333333', '-1.5']),
           ('P7', 7, ['-10.25', '-20.125', '-130.5', '-131.25', '21.05']),
           ('C7', 1, [LONG, '0.25', '0.5', '11.0', '0.05']),
           ('C8', 2, ['0.25', LONG, '0.5', LONG, '0.05']),
           ('C9', 11, ['0.25', '0.5', LONG, '11.0', LONG])]
VAL_ANIS = [('B1', 1, ['0.1', '0.2', '0.3', '11.0', '0.02', '0.03', '0.04', '0.001', '-0.002', '0.003']),
            ('BR12', 12, ['-0.123456', '1.234567', '-3.999999', '-31.5', '0.123456', '0.234567', '0.345678', '-0.012345',
                          '0.023456', '-0.034567']),
            ('B', 3, ['-1000.5', '-100.25', '3.5', '10.5', '21.05', '-31.025', '123.456789', '-1234.5', '12345.25', '-0.5']),
            ('B22', 4, ['0.5', '-20.125', '-3000.75', '-131.25', '0.00001', '0.00002', '0.00003', '0.5', '-0.00004',
                        '1234.567891']),
            ('B5', 10, ['0.0000004', '-0.0000005', '0.9999995', '41.0', '0.011115', '0.022225', '0.033335', '0.0', '0.0',
                        '0.001']),
            ('B10', 5, ['-10.25', '-100.25', '3.5', '-31.5', '21.05', '-31.025', '123.456789', '-123.5', '0.5', '-0.5']),
            ('B6', 1, [LONG, '0.25', '0.5', LONG, '0.02', '0.03', LONG, '0.001', '-0.002', '0.003']),
            ('B7', 2, ['0.25', LONG, '0.5', '11.0', LONG, '0.03', '0.04', LONG, '-0.002', '0.003']),
            ('B8', 11, ['0.25', '0.5', LONG, '11.0', '0.02', LONG, '0.04', '0.001', LONG, '0.003']),
            ('B9', 1, ['0.25', '0.5', '0.75', '11.0', '0.02', '0.03', '0.04', '0.001', '-0.002', LONG])]
VAL_QPEAK = [('Q1', 1, ['0.1234', '0.2345', '0.3456', '11.0', '0.05', '1.23']),
             ('Q22', 1, ['-0.5', '1.25', '-3.75', '10.5', '0.07', '123.46']),
             ('Q333', 2, ['-100.25', '0.00004', '-0.99996', '-31.5', '0.031', '0.004']),
             ('Q4', 12, ['0.123456', '-1000.5', '3.5', '11.0', '1.5', '12345.678']),
             ('Q5', 1, ['0.5', '0.5', '0.5', '11.0', '0.04', '0.0']),
             ('Q6', 1, [LONG, '0.25', '0.5', LONG, '0.05', '1.5']),
             ('Q7', 2, ['0.25', LONG, '0.5', '11.0', '0.06', LONG]),
             ('Q8', 11, ['0.25', '0.5', LONG, '11.0', '0.05', '-1234567.25'])]
# the FRAG layout prints the bare coordinate (without its free-variable code), which is never longer than nine characters
VAL_FRAG = [('H1', 2, ['0.1', '0.2', '0.3', '11.0', '-1.2']),
            ('H12A', 2, ['-0.123456', '1.234567', '-3.999999', '11.0', '-1.5']),
            ('H', 2, ['-3.5', '-0.25', '3.999999', '11.0', '0.05']),
            ('H3', 2, ['0.0000004', '-0.0000005', '0.9999995', '11.0', '0.05'])]


def tame(probes):
    """the probes a valid SHELXL file could contain: no value of a thousand or more"""
    return [a for a in probes if all(abs(float(t)) < 1000 for t in a[2])]


def val_text(probes):
    body = [atom_line(*a) for a in probes['iso'] + probes['anis']]
    body += ['AFIX 137'] + [atom_line(*a) for a in probes['frag']] + ['AFIX 0', 'HKLF 4', 'END', 'WGHT 0.05 0.2']
    body += [atom_line(*a) for a in probes['qpeak']]
    return HEAD + '\n'.join(body) + '\n'


# ------------------------------------------------------------------------------------------------------------
# format pieces

SPEC_RE = re.compile(r'^(?:(?P<fill>.)?(?P<align>[<>=^]))?(?P<sign>[-+ ])?(?P<alt>#)?(?P<zero>0)?(?P<width>\d+)?(?P<grp>[,_])?'
                     r'(?:\.(?P<prec>\d+))?(?P<type>[a-zA-Z%])?$')


def piece_of_spec(spec, kind):
    """a Python format specification applied to a value of `kind` ('s' str, 'i' int, 'f' float) as a field piece
    ['fld', left, width, precision]; None if it is outside what the model describes"""
    m = SPEC_RE.match(spec or '')
    if not m:
        return None
    if m.group('fill') not in (None, ' ') or m.group('alt') or m.group('zero') or m.group('grp'):
        return None
    if m.group('sign') not in (None, '-'):
        return None
    align, typ, prec = m.group('align'), m.group('type'), m.group('prec')
    width = int(m.group('width') or 0)
    if align in ('^', '='):
        return None
    if kind == 's':
        if typ not in (None, 's') or prec is not None:
            return None
        left = align != '>'
        return ['fld', left, width, None]
    if kind == 'i':
        if typ not in (None, 'd') or prec is not None:
            return None
        left = align == '<'
        return ['fld', left, width, None]
    if typ != 'f':
        return None
    left = align == '<'
    return ['fld', left, width, int(prec) if prec is not None else 6]


def fields_of(pieces):
    return [p for p in pieces if p[0] == 'fld']


def render(pieces, kinds, vals):
    """what Python prints for the pieces (the same function as renderFmt of the Lean model)"""
    out = []
    k = 0
    for p in pieces:
        if p[0] == 'lit':
            out.append(' ' * p[1])
            continue
        _, left, width, prec = p
        v = vals[k]
        kind = kinds[k]
        k += 1
        al = '<' if left else '>'
        if kind == 's':
            out.append(format(str(v), f'{al}{width}s'))
        elif kind == 'i':
            out.append(format(int(v), f'{al}{width}d'))
        else:
            out.append(format(float(v), f'{al}{width}.{6 if prec is None else prec}f'))
    return ''.join(out)


def parse_brace_format(fmt, kinds):
    """'{:<5s}{:>2}{:>12.6f} ...' -> pieces, or None"""
    import string
    pieces = []
    k = 0
    auto = None
    try:
        parsed = list(string.Formatter().parse(fmt))
    except ValueError:
        return None
    for literal, field, spec, conv in parsed:
        if literal:
            if literal.strip(' '):
                return None
            pieces.append(['lit', len(literal)])
        if field is None:
            continue
        if conv:
            return None
        if field == '':
            if auto is False:
                return None
            auto = True
        elif field.isdigit() and int(field) == k:
            if auto is True:
                return None
            auto = False
        else:
            return None
        if k >= len(kinds) or '{' in (spec or ''):
            return None
        p = piece_of_spec(spec, kinds[k])
        if p is None:
            return None
        pieces.append(p)
        k += 1
    return pieces if k == len(kinds) else None


PCT_RE = re.compile(r'%(?P<flags>[-+ #0]*)(?P<width>\d+)?(?:\.(?P<prec>\d+))?(?P<type>[a-zA-Z%])')


def parse_percent_format(fmt, kinds):
    """'%-5s%2d%12.6f ...' -> pieces, or None"""
    pieces = []
    pos = 0
    k = 0
    for m in PCT_RE.finditer(fmt):
        literal = fmt[pos:m.start()]
        pos = m.end()
        if literal:
            if literal.strip(' '):
                return None
            pieces.append(['lit', len(literal)])
        if m.group('flags') not in ('', '-') or k >= len(kinds):
            return None
        typ, kind = m.group('type'), kinds[k]
        if (kind, typ) not in (('s', 's'), ('i', 'd'), ('i', 'i'), ('f', 'f')):
            return None
        prec = m.group('prec')
        if kind != 'f' and prec is not None:
            return None
        pieces.append(['fld', m.group('flags') == '-', int(m.group('width') or 0),
                       (int(prec) if prec is not None else 6) if kind == 'f' else None])
        k += 1
    tail = fmt[pos:]
    if tail:
        if tail.strip(' ') or '%' in tail:
            return None
        pieces.append(['lit', len(tail)])
    return pieces if k == len(kinds) else None


def decode(text, events, kinds):
    """the printed text and the format events behind it -> (pieces, sources per field, notes) or (None, None, why).
    The text must be made of the formatted values (in whatever order they were formatted) and blanks between them."""
    pos = 0
    pieces, srcs = [], []
    evs = list(events)
    k = 0
    while text[pos:].strip(' '):
        best = None
        for n, (kind, spec, t, src, val) in enumerate(evs):
            if not t.strip(' '):
                continue
            idx = text.find(t, pos)
            if idx >= 0 and not text[pos:idx].strip(' ') and (best is None or idx < best[0]):
                best = (idx, n)
        if best is None:
            return None, None, f'field {k}: printed text {text!r} does not continue with a formatted value at column {pos}'
        idx, n = best
        kind, spec, t, src, val = evs.pop(n)
        if k >= len(kinds):
            return None, None, f'more than {len(kinds)} formatted values'
        want = dict(s='str', i='int', f='float')[kinds[k]]
        if kind != want:
            return None, None, f'field {k} prints a {kind}, the model a {want}'
        p = piece_of_spec(spec, kinds[k])
        if p is None:
            return None, None, f'field {k}: format specification {spec!r} is outside the model'
        if idx > pos:
            pieces.append(['lit', idx - pos])
        pieces.append(p)
        srcs.append((src, val))
        pos = idx + len(t)
        k += 1
    tail = text[pos:]
    if tail:
        pieces.append(['lit', len(tail)])
    if k != len(kinds):
        return None, None, f'{k} formatted values in {text!r}, the model has {len(kinds)} fields'
    return pieces, srcs, ''


# ------------------------------------------------------------------------------------------------------------
# spy pass

@contextlib.contextmanager
def quiet():
    buf = io.StringIO()
    with contextlib.redirect_stdout(buf), contextlib.redirect_stderr(buf):
        yield buf


def atoms_by_name(shx):
    out = {}
    for a in shx.atoms:
        out.setdefault(str.__str__(a.name) if isinstance(a.name, str) else str(a.name), a)
    return out


def substitute(atom, name, sfac, placeholders):
    """replace, in the instance dictionary of the parsed atom, its name / scattering-factor number / the numbers of
    its line (found by value, whatever the attributes are called) by spies"""
    byval = {}
    for tok, nm in placeholders.items():
        byval.setdefault(float(tok), nm)
    try:
        d = vars(atom)
    except TypeError:
        return

    def sub(v):
        if type(v) is str and v == name:
            return SpyS(v, ('var', 'name'))
        if type(v) is int and v == sfac:
            return SpyI(v, ('var', 'sfac'))
        if type(v) is float and v in byval:
            return SpyF(v, ('var', byval[v]))
        return v
    for key, v in list(d.items()):
        if type(v) in (list, tuple):
            if any(type(x) is float and x in byval for x in v):
                d[key] = type(v)(sub(x) if type(x) is float else x for x in v)
        else:
            nv = sub(v)
            if nv is not v:
                d[key] = nv


def spy_pass(repo):
    """-> {layout: dict(pieces=…, srcs=…)} , notes"""
    found, notes = {}, []
    try:
        import_pkg(repo, hooked=True)
        from shelxfile import Shelxfile  # type: ignore
    except Exception as e:
        unhook()
        return {}, [f'spy pass: the package does not import with symbolic float literals: {e!r}']
    try:
        for layout, (name, sfac, nums) in SPY_ATOMS.items():
            try:
                placeholders = {}
                for lay2, (_, _, nums2) in SPY_ATOMS.items():
                    for tok, nm in zip(nums2, NUMNAMES if lay2 != 'qpeak' else NUMNAMES[:5] + ['height']):
                        placeholders[tok] = nm if lay2 == layout else f'{lay2}.{nm}'
                spyfloat = make_spyfloat(placeholders)
                saved = []
                for m in package_modules():
                    saved.append((m, vars(m).get('float', _MISSING)))
                    vars(m)['float'] = spyfloat
                try:
                    with quiet():
                        shx = Shelxfile()
                        shx.read_string(spy_text())
                        atom = atoms_by_name(shx).get(name)
                        if atom is None:
                            raise LookupError(f'atom {name} of the probe file is not among shx.atoms')
                        substitute(atom, name, sfac, {t: placeholders[t] for t in nums})
                        if layout == 'frag':
                            shx.frag = shx.afix if getattr(shx, 'afix', None) else True
                            if not shx.frag:
                                shx.frag = True
                        del EVENTS[:]
                        text = str.__str__(str(atom))
                        events = list(EVENTS)
                finally:
                    for m, v in saved:
                        if v is _MISSING:
                            vars(m).pop('float', None)
                        else:
                            vars(m)['float'] = v
                pieces, srcs, why = decode(text, events, KINDS[layout])
                if pieces is None:
                    notes.append(f'spy pass {layout}: {why}')
                    continue
                found[layout] = dict(pieces=pieces, srcs=srcs, text=text)
            except Exception as e:
                notes.append(f'spy pass {layout}: {type(e).__name__}: {e}')
    finally:
        unhook()
    return found, notes


_MISSING = object()


def qpeak_const_of(srcs):
    """what the spy pass says about the U field of a Q-peak line: ('const', decimal text) if the printed value is computed
    from constants of the source only, ('var',) if it is the U of the line, None otherwise"""
    src, val = srcs[6]
    if src == ('var', 'u1'):
        return ('var',)
    leaves = src_leaves(src)
    if leaves and all(l[0] == 'const' for l in leaves):
        try:
            Fraction(val)
        except ValueError:
            return None
        return ('const', val)
    return None


# ------------------------------------------------------------------------------------------------------------
# search pass: every string of the package that could be the format

def harvest_strings(repo):
    strs = []
    seen = set()

    def add(s):
        if isinstance(s, str) and s not in seen and (s.count('{') >= 4 or s.count('%') >= 4) and len(s) < 2000:
            seen.add(s)
            strs.append(s)
    for m in package_modules():
        for v in list(vars(m).values()):
            add(v)
            if inspect.isclass(v) and str(getattr(v, '__module__', '')).startswith(PKG):
                for w in list(vars(v).values()):
                    add(w)
                    if isinstance(w, (tuple, list)):
                        for x in w:
                            add(x)
            if isinstance(v, (tuple, list)):
                for x in v:
                    add(x)
    floats = set()
    for path in sorted(Path(repo, PKG).rglob('*.py')):
        try:
            tree = ast.parse(path.read_text(), filename=str(path))
        except (OSError, SyntaxError, ValueError):
            continue
        for n in ast.walk(tree):
            if isinstance(n, ast.Constant):
                if isinstance(n.value, str):
                    add(n.value)
                elif type(n.value) is float and 'atom' in path.name:
                    floats.add(repr(n.value))
            elif isinstance(n, ast.JoinedStr):
                t = joined_template(n)
                if t is not None:
                    add(t)
    return strs, sorted(floats)


def joined_template(node):
    """an f-string as the equivalent str.format template (None: a part cannot be expressed)"""
    out = []
    for v in node.values:
        if isinstance(v, ast.Constant) and isinstance(v.value, str):
            out.append(v.value.replace('{', '{{').replace('}', '}}'))
        elif isinstance(v, ast.FormattedValue):
            if v.conversion != -1:
                return None
            spec = ''
            if v.format_spec is not None:
                if not all(isinstance(x, ast.Constant) and isinstance(x.value, str) for x in v.format_spec.values):
                    return None
                spec = ''.join(x.value for x in v.format_spec.values)
            out.append('{:' + spec + '}')
        else:
            return None
    return ''.join(out)


# ------------------------------------------------------------------------------------------------------------
# validation against the unmodified package

def expected_vals(layout, name, sfac, nums, qconst):
    v = [float(t) for t in nums]
    if layout == 'frag':
        return [name] + v[:3]
    if layout == 'qpeak':
        u = float(Fraction(qconst)) if qconst is not None else v[4]
        return [name, sfac] + v[:4] + [u, v[5]]
    us = v[4:] + [0.0] * (6 - len(v[4:]))
    return [name, sfac] + v[:4] + us


class Oracle:
    """str(atom) of the probe atoms, from the package as it is"""

    def __init__(self, repo):
        import_pkg(repo, hooked=False)
        from shelxfile import Shelxfile  # type: ignore
        self.Shelxfile = Shelxfile
        self.notes = []
        full = dict(iso=VAL_ISO, anis=VAL_ANIS, qpeak=VAL_QPEAK, frag=VAL_FRAG)
        self.full = True
        try:
            self._load(full)
            bad = [k for k in ('iso', 'anis', 'qpeak') if not isinstance(self.real[k], list)]
            if bad:
                raise LookupError('; '.join(str(self.real[k]) for k in bad))
        except Exception as e:
            # the probes with absurdly long values are a means to see the widths, not part of what the property is about:
            # if the code does not take them, the probes a valid file could contain have to do
            self.notes.append(f'probe file with over-long values not readable ({type(e).__name__}: {e}); using the tame probes only')
            self.full = False
            self._load({k: tame(v) for k, v in full.items()})

    def _load(self, probes):
        self.probes = probes
        self.real = {}
        with quiet():
            shx = self.Shelxfile()
            shx.read_string(val_text(probes))
            atoms = atoms_by_name(shx)
            for layout in ('iso', 'anis', 'qpeak'):
                self.real[layout] = self._texts(atoms, self.probes[layout])
            try:
                before = self._texts(atoms, self.probes['frag'])
                shx.frag = shx.afix if getattr(shx, 'afix', None) else True
                if not shx.frag:
                    shx.frag = True
                self.real['frag'] = self._texts(atoms, self.probes['frag'])
                if self.real['frag'] == before:
                    self.real['frag'] = 'str(atom) of an atom in an AFIX group does not depend on shx.frag'
            except Exception as e:
                self.real['frag'] = f'{type(e).__name__}: {e}'

    @staticmethod
    def _texts(atoms, probes):
        out = []
        for name, sfac, nums in probes:
            a = atoms.get(name[:4])
            if a is None:
                return f'atom {name} of the probe file is not among shx.atoms'
            out.append(str(a))
        return out

    def check(self, layout, pieces, qconst=None, layout_only=False):
        """None if the pieces reproduce every probe line, else the first difference.
        layout_only: the numbers are taken from the printed line itself instead of from the probe file (the U of a Q-peak
        line excepted) — what is confirmed then is the layout alone (alignment, width, precision of each field, blanks
        between them), not that the code prints the values of the file; the latter is the business of the sampled
        correspondence, which runs the model on thousands of files and reports the failing input."""
        real = self.real.get(layout)
        if not isinstance(real, list):
            return f'no reference: {real}'
        for (name, sfac, nums), want in zip(self.probes[layout], real):
            try:
                vals = expected_vals(layout, name, sfac, nums, qconst)
                if layout_only:
                    if not want.startswith(name):
                        return f'{name}: the printed line {want!r} does not start with the name'
                    # the numbers of the printed line, read one after the other with the precision the candidate gives
                    # each field (columns may touch: '-1234.5000012345.25000' is two numbers of five decimals)
                    pos = len(name)
                    for k, f in enumerate(fields_of(pieces)[1:], 1):
                        pat = r' *(-?\d+)' if f[3] is None else r' *(-?\d+\.\d{%d})' % f[3]
                        m = re.compile(pat).match(want, pos)
                        if not m:
                            return f'{name}: no number with {f[3]} decimals at column {pos} of {want!r}'
                        pos = m.end()
                        if not (layout == 'qpeak' and k == 6):
                            vals[k] = int(m.group(1)) if f[3] is None else float(m.group(1))
                got = render(pieces, KINDS[layout], vals)
            except Exception as e:
                return f'{type(e).__name__}: {e}'
            if got != want:
                return f'{name}: the code prints {want!r}, the table gives {got!r}'
        return None


def infer(oracle, layout, max_solutions=40, budget=400000):
    """LAST RESORT, when neither the spy pass nor any format string of the package explains the printed lines (the
    columns are padded by hand, say): the pieces are solved for from the printed probe lines alone, field by field from
    the left — every (blanks in front, alignment, width, precision) is tried and kept iff the lines rendered so far are
    prefixes of what the code printed for ALL probes. The probes contain values longer than any sensible width, so a
    width shows by where the following columns start to shift. Every solution reproduces all probe lines exactly; where
    several do (they differ only for names of more than four characters or three-digit scattering-factor numbers, which
    a file cannot contain) the one with the widest fields is taken.
    -> list of (pieces, qconst) in order of preference"""
    real = oracle.real.get(layout)
    if not isinstance(real, list) or not oracle.full:     # without the over-long probes the widths do not show
        return []
    kinds = KINDS[layout]
    probes = oracle.probes[layout]
    vals = [expected_vals(layout, n, sf, nums, None) for n, sf, nums in probes]
    precs = sorted({len(t.split('.')[1]) for line in real for t in line.split() if re.fullmatch(r'-?\d+\.\d+', t)})
    sols = []
    left_budget = [budget]

    def cell(kind, left, w, prec, v):
        al = '<' if left else '>'
        if kind == 's':
            return format(str(v), f'{al}{w}s')
        if kind == 'i':
            return format(int(v), f'{al}{w}d')
        return format(float(v), f'{al}{w}.{prec}f')

    def const_options(k, prefixes):
        """for the U field of a Q-peak line: the U of the line, or one number printed on every line"""
        opts = [None]
        toks = set()
        for line, pre in zip(real, prefixes):
            rest = line[len(pre):].split()
            toks.add(rest[0] if rest else None)
        if len(toks) == 1:
            t = toks.pop()
            if t and re.fullmatch(r'-?\d+\.\d+', t):
                opts.append(t)
        return opts

    def rec(k, pieces, prefixes, qc):
        if len(sols) >= max_solutions or left_budget[0] <= 0:
            return
        if k == len(kinds):
            tails = {line[len(pre):] for line, pre in zip(real, prefixes)}
            if len(tails) == 1:
                tail = tails.pop()
                if not tail.strip(' '):
                    sols.append((pieces + ([['lit', len(tail)]] if tail else []), qc))
            return
        kind = kinds[k]
        consts = const_options(k, prefixes) if (layout == 'qpeak' and k == 6) else [None]
        for c in consts:
            column = [float(Fraction(c)) if c is not None else v[k] for v in vals]
            for g in range(0, 9):
                for w in range(20, -1, -1):
                    for left in ((True, False) if kind in 'si' else (False, True)):
                        for prec in (precs if kind == 'f' else [None]):
                            if c is not None and prec != len(c.split('.')[1]):
                                continue
                            left_budget[0] -= 1
                            if left_budget[0] <= 0:
                                return
                            ok = True
                            new = []
                            for line, pre, v in zip(real, prefixes, column):
                                t = pre + ' ' * g + cell(kind, left, w, prec, v)
                                if not line.startswith(t):
                                    ok = False
                                    break
                                new.append(t)
                            if ok:
                                piece = ['fld', left, w, prec]
                                rec(k + 1, pieces + ([['lit', g]] if g else []) + [piece], new, c if c is not None else qc)
    rec(0, [], [''] * len(real), None)
    # a field of width 0 and one of the width of its shortest text print the same: drop the duplicates the search
    # produces that way (same rendering on every conceivable value is not decidable here; keep the order of preference)
    return sols


def fvar_chunk(Shelxfile):
    """the number of values per line of str(shx.fvars), measured; (chunk or None, note)"""
    def counts(n):
        vals = [f'{0.5 + k / 1000:.5f}' for k in range(n)]
        body = ['FVAR ' + ' '.join(vals[i:i + 5]) for i in range(0, n, 5)]
        text = HEAD.replace('FVAR 1.0 0.5 0.4\n', '') + '\n'.join(body) + '\nC1 1 0.1 0.2 0.3 11.0 0.05\nHKLF 4\nEND\n'
        with quiet():
            shx = Shelxfile()
            shx.read_string(text)
            s = str(shx.fvars)
        rows = [ln.split() for ln in s.split('\n')]
        if any(not r or r[0] != 'FVAR' for r in rows):
            raise ValueError(f'str(shx.fvars) has a line that does not start with FVAR: {s[:80]!r}')
        flat = [t for r in rows for t in r[1:]]
        if len(flat) != n or any(abs(float(a) - float(b)) > 1e-9 for a, b in zip(flat, vals)):
            raise ValueError(f'str(shx.fvars) does not list the {n} values of the file in order')
        return [len(r) - 1 for r in rows]
    big = counts(99)
    if len(big) < 2:
        return None, 'all 99 free variables are printed on one line: the chunk size cannot be measured'
    c = big[0]
    if c < 1:
        return None, f'first FVAR line holds {c} values'
    for n in sorted({1, 2, max(1, c - 1), c, c + 1, 2 * c - 1, 2 * c, 2 * c + 1, 3 * c + 2, 50, 98, 99}):
        if n > 99:
            continue
        want = [c] * (n // c) + ([n % c] if n % c else [])
        got = counts(n)
        if got != want:
            return None, f'{n} free variables are printed as lines of {got}, chunks of {c} would be {want}'
    return c, ''


STORED = ['ZZZZ', 'odd', '0.100', '+5', 'C1_2', '1e-1']      # a line no printer that computes its text would give back


def overrides(Shelxfile):
    """classes of shelx/cards.py (and Atom) whose str() is computed instead of being the stored line — decided by
    behaviour: an instance of a subclass of Command / Restraint that has ONLY the state every card has (made without
    running the subclass's __init__, with the attributes a plain Command / Restraint of the line `STORED` has) either
    gives that line back, like the plain card does, or it does not (it reaches for attributes of its own, or prints
    something else). However the printers are provided — own methods, `__str__ = __repr__`, mixins, decorators, a
    template method in a common base — does not matter. Classes outside that hierarchy (FVAR, FVARs, SFACTable,
    SymmCards, Restraints, Atom) have no stored line: they count iff they define a printer at all."""
    cards = importlib.import_module(PKG + '.shelx.cards')
    atom_mod = importlib.import_module(PKG + '.atoms.atom')
    base_cls = [getattr(cards, n) for n in ('Command', 'Restraint') if inspect.isclass(getattr(cards, n, None))]
    if not base_cls:
        raise LookupError('cards.Command / cards.Restraint not found')
    with quiet():
        shx = Shelxfile()
        plain = {}
        for b in base_cls:
            obj = b(shx, list(STORED))
            plain[b] = (dict(vars(obj)), str(obj))

    def printer(c):
        return c.__str__ if c.__str__ is not object.__str__ else c.__repr__

    def computed(c):
        b = next((k for k in c.__mro__ if k in base_cls), None)
        if b is None:
            return printer(c) is not object.__repr__
        state, want = plain[b]
        try:
            with quiet():
                fake = object.__new__(c)
                fake.__dict__.update(state)
                got = str(fake)
        except Exception:
            return True
        return got != want
    out = []
    for n, c in vars(cards).items():
        if inspect.isclass(c) and c.__module__ == cards.__name__ and c not in base_cls and n == c.__name__ \
                and not n.startswith('_') and computed(c):
            out.append(n)
    A = getattr(atom_mod, 'Atom', None)
    if inspect.isclass(A) and computed(A):
        out.append('Atom')
    return sorted(set(out))


# ------------------------------------------------------------------------------------------------------------

def main(repo, use_spy=True, use_search=True):
    res = dict(fmts={}, lost=[], notes=[], how={})
    spy, notes = spy_pass(repo) if use_spy else ({}, [])
    res['notes'] += notes
    try:
        oracle = Oracle(repo)
    except Exception as e:
        traceback.print_exc(file=sys.stderr)
        res['fatal'] = f'the probe file cannot be read through Shelxfile.read_string: {type(e).__name__}: {e}'
        return res
    res['notes'] += oracle.notes
    strs, floats = harvest_strings(repo) if use_search else ([], [])
    qconst = 'lost'
    for layout in ('iso', 'anis', 'qpeak', 'frag'):
        kinds = KINDS[layout]
        cands = []        # (how, pieces, qconst)
        if layout in spy:
            if layout == 'qpeak':
                qc = qpeak_const_of(spy[layout]['srcs'])
                if qc is None:
                    res['notes'].append(f'spy pass qpeak: the U field is neither a constant nor the U of the line: {spy[layout]["srcs"][6][0]!r}')
                else:
                    cands.append(('spy', spy[layout]['pieces'], qc[1] if qc[0] == 'const' else None))
            else:
                cands.append(('spy', spy[layout]['pieces'], None))
        stat = []
        for s in strs:
            for parser, how in ((parse_brace_format, 'format string'), (parse_percent_format, '%-format string')):
                p = parser(s, kinds)
                if p is not None and p not in [x[1] for x in stat]:
                    stat.append((f'{how} {s!r}', p))
        for how, p in stat:
            if layout == 'qpeak':
                for c in floats + [None]:
                    cands.append((how + (f' with the constant {c}' if c is not None else ' with the U of the line'), p, c))
            else:
                cands.append((how, p, None))
        good = []
        why_not = []
        for layout_only in (False, True):
            for how, p, c in cands:
                err = oracle.check(layout, p, c, layout_only=layout_only)
                if err is None:
                    if (p, c) not in [(g[1], g[2]) for g in good]:
                        good.append((how, p, c))
                elif how == 'spy':
                    why_not.append(f'{layout}: the reading of the spy pass does not reproduce the code: {err}')
            if good:
                if layout_only:
                    res['notes'].append(f'{layout}: the layout is confirmed on the printed lines, but the code does not print the '
                                        f'values of the probe file ({why_not[0] if why_not else "see the correspondence stream"})')
                break
        res['notes'] += why_not
        if not good:
            sols = infer(oracle, layout)
            for p, c in sols[:1]:
                if oracle.check(layout, p, c) is None:
                    good.append((f'solved from the printed lines ({len(sols)} solution(s) agree on every probe, widest fields taken)', p, c))
        if good and (good[0][0] == 'spy' or len(good) == 1):
            how, p, c = good[0]
            res['fmts'][layout] = p
            res['how'][layout] = how
            if layout == 'qpeak':
                qconst = c
        elif good:
            res['lost'].append(f'Atom.__str__ ({layout} layout): {len(good)} different format strings of the package reproduce the '
                               f'printed lines, none can be singled out: ' + '; '.join(g[0] for g in good[:3]))
        elif layout == 'frag' and not isinstance(oracle.real.get('frag'), list):
            # FRAG...FEND coordinate lines are not atoms of a parsed file (they stay text), so no file can reach this
            # layout; it is kept as documentation where the branch can still be triggered by hand. No theorem uses it.
            res['notes'].append(f'frag layout not reachable: {oracle.real.get("frag")}')
        else:
            real = oracle.real.get(layout)
            res['lost'].append(f'Atom.__str__ ({layout} layout): no reading of the source reproduces what the code prints '
                               f'({real[1] if isinstance(real, list) else real!r}); tried: '
                               + ('; '.join(n for n in res['notes'] if layout in n)[:300] or f'{len(cands)} candidate format strings'))
            if layout in spy:      # the best unconfirmed reading, so that the failing-input search has a model to run
                res['fmts'][layout] = spy[layout]['pieces']
                res['how'][layout] = 'spy (NOT confirmed)'
    res['qconst'] = qconst
    try:
        c, note = fvar_chunk(oracle.Shelxfile)
        res['chunk'] = c
        if c is None:
            res['lost'].append('FVARs.__str__: ' + note)
    except Exception as e:
        res['chunk'] = None
        res['lost'].append(f'FVARs.__str__: the number of values per line cannot be measured: {type(e).__name__}: {e}')
    try:
        res['overrides'] = overrides(oracle.Shelxfile)
    except Exception as e:
        res['overrides'] = None
        res['lost'].append(f'printer overrides: {type(e).__name__}: {e}')
    return res


if __name__ == '__main__':
    ap = argparse.ArgumentParser()
    ap.add_argument('--repo', default='/repo')
    ap.add_argument('--no-spy', action='store_true', help='search pass only (development)')
    ap.add_argument('--no-search', action='store_true', help='no format strings from the package (development)')
    a = ap.parse_args()
    try:
        r = main(Path(a.repo).resolve(), use_spy=not a.no_spy, use_search=not a.no_search)
    except Exception as e:      # nothing can be said
        traceback.print_exc(file=sys.stderr)
        r = dict(fatal=f'{type(e).__name__}: {e}')
    sys.stdout.write('\nC01-PROBE-RESULT\n' + json.dumps(r) + '\n')

#!/venv/bin/python
"""
C06 — probing translator (subprocess entry of extract/tables_c06.py).

The constants of the line wrapper and of the multi-line printers are not read off the SPELLING of the source any more
(an `ast` pattern breaks on every harmless respelling: helper functions, module constants, `glue.join(pieces)` instead of
the append loop, a module-level `TextWrapper`, …). Instead the code of the working tree is EXECUTED on probe inputs in
this separate interpreter and the constants are solved for from what it did; every constant is then verified against
the shape the Lean model has (`lean/ShelxModel/C06.lean`) on all probes. Whatever does not fit that shape is reported
as lost — never guessed.

  misc.wrap_line(line)        model:  line                                          if len(line) <= shortMax
                                      glue.join(textwrap.wrap(line, **options))     otherwise
      `textwrap.TextWrapper.wrap` is replaced (before the package is imported) by a recorder.
      phase 1  lines of every length 0..260 (and a few much longer ones) in seven content classes: for which lengths
               the wrapper is reached (-> shortMax: must be ONE threshold on the length alone), with which text
               (must be the line itself, once) and with which options (attributes of the TextWrapper instance at the
               time of the call; must be the same in every call; a subclass that overrides anything is not modelled);
      phase 2  the recorder hands back sentinel pieces (0..6 of them: blanks in front and behind, '=' inside, blank-only)
               -> glue: the result must be glue.join(pieces) with one and the same glue for every list of pieces.
               suffix := the glue up to and including its last line break, sep := the rest (what a continuation line
               begins with); the model only ever uses suffix ++ sep;
      phase 3  with the real wrapper: wrap_line(line) == glue.join(textwrap.wrap(line, **options)) on fresh long lines.
  str(Shelxfile.fvars)        model:  '\\n'.join(prefix + sep.join(group) for group in groups_of(size, as_stringlist))
  repr(Shelxfile.sfac_table)  model:  prefix + sep.join(list(sfac_table))       (plain, distinct elements)
      through the public API only (read_string of by-construction files with 1..45 free variables / elements):
      prefix from the one-value text, sep from the two-value text, size = the only group size 1..44 that reproduces
      every probe; then the formula is checked on all probes.

Prints one JSON object {"wrap": {...} | {"lost": msg}, "fvar": ..., "sfac": ...}.
usage: probe_c06.py --repo /repo
"""
import argparse
import json
import sys
import textwrap

OPTIONS = ('width', 'initial_indent', 'subsequent_indent', 'expand_tabs', 'replace_whitespace', 'fix_sentence_endings',
           'break_long_words', 'drop_whitespace', 'break_on_hyphens', 'tabsize', 'max_lines', 'placeholder')


class Lost(Exception):
    pass


# ------------------------------------------------------------------------------------------------------------
# recorder in place of textwrap.TextWrapper.wrap (installed before the package under test is imported, so that a
# module-level wrapper object or a bound method saved at import time goes through it as well)

REAL_WRAP = textwrap.TextWrapper.wrap
PRISTINE = dict(vars(textwrap.TextWrapper))
CALLS = []
FAKE = [None]       # None: delegate to the real wrapper; a list: hand these pieces back


def recorder(self, text):
    CALLS.append((self, text))
    if FAKE[0] is not None:
        return list(FAKE[0])
    return REAL_WRAP(self, text)


def options_of(w):
    cls = type(w)
    if cls is not textwrap.TextWrapper:
        if not isinstance(w, textwrap.TextWrapper):
            raise Lost(f'the wrapper is a {cls.__name__}, not a textwrap.TextWrapper')
        for name, val in PRISTINE.items():
            if name.startswith('__') or name == 'wrap':
                continue
            if getattr(cls, name, None) is not val:
                raise Lost(f'the wrapper is a subclass of TextWrapper that overrides {name}: not modelled')
    extra = sorted(set(vars(w)) - set(OPTIONS))
    if extra:
        raise Lost(f'the TextWrapper instance carries attributes that are not modelled: {extra}')
    for name, val in PRISTINE.items():
        if not name.startswith('__') and name != 'wrap' and vars(textwrap.TextWrapper).get(name) is not val:
            raise Lost(f'textwrap.TextWrapper.{name} was replaced by the package')
    return {k: getattr(w, k) for k in OPTIONS}


# ------------------------------------------------------------------------------------------------------------
# probe lines: no tab, no line break (the domain of the property); every line is used once (a cache in front of the
# function under test must not answer for it)

_serial = [0]


def unique():
    _serial[0] += 1
    n = _serial[0]
    s = ''
    while True:
        s += 'abcdefghijklmnopqrstuvwxyzABCDEFGHIJKLMNOPQRSTUVWXYZ'[n % 52]
        n //= 52
        if not n:
            return s


def filler(n, seed):
    """exactly n characters: blank-separated tokens, no blank at either end"""
    toks = []
    k = seed
    while len(' '.join(toks)) < n + 12:
        k = (k * 7 + 3) % 11
        toks.append((unique() + 'C1x9_$()' * 2)[:1 + k])
    s = ' '.join(toks)[:n]
    if s.endswith(' '):
        s = s[:-1] + 'z'
    if s.startswith(' '):
        s = 'z' + s[1:]
    return s


def probe_line(cls, n):
    """a line of exactly n characters of content class `cls`, or None when the class has no line of that length"""
    if cls == 'one-token':
        return (unique() + 'x' * n)[:n]
    if cls == 'tokens':
        return filler(n, n)
    if cls == 'trailing-blanks':
        k = 1 + n % 4
        return None if n < k + 1 else filler(n - k, n) + ' ' * k
    if cls == 'leading-blanks':
        k = 1 + n % 3
        return None if n < k + 1 else ' ' * k + filler(n - k, n)
    if cls == 'comment':        # a '!' comment behind a short instruction (the length counts the comment)
        head = 'SADI C1 C2 ! '
        return None if n < len(head) + 1 else head + filler(n - len(head), n)
    if cls == 'comment-blanks':  # short instruction, comment, trailing blanks
        head = 'EQIV $1 x, y, z !'
        return None if n < len(head) + 4 else head + filler(n - len(head) - 2, n) + '  '
    if cls == 'marks':          # '=' and '-' inside
        base = filler(n, n).replace('x', '=').replace('_', '-')
        return base if not base.rstrip().endswith('=') else base[:-1] + 'q'
    raise KeyError(cls)


CLASSES = ('one-token', 'tokens', 'trailing-blanks', 'leading-blanks', 'comment', 'comment-blanks', 'marks')
LENGTHS = list(range(0, 261)) + [300, 500, 1000, 5000]


def probe_wrap(wrap_line):
    # ---- phase 1: threshold, text handed to the wrapper, options
    FAKE[0] = None
    reached = {}          # length -> set of bools
    opts = None
    for n in LENGTHS:
        for cls in CLASSES:
            line = probe_line(cls, n)
            if line is None:
                continue
            assert len(line) == n and '\n' not in line and '\t' not in line, (cls, n, line)
            del CALLS[:]
            out = wrap_line(line)
            if not isinstance(out, str):
                raise Lost(f'wrap_line returned a {type(out).__name__}')
            if len(CALLS) > 1:
                raise Lost(f'wrap_line calls the text wrapper {len(CALLS)} times for one line (length {n}, class {cls})')
            reached.setdefault(n, set()).add(bool(CALLS))
            if not CALLS:
                if out != line:
                    raise Lost(f'a line of {n} characters ({cls}) is changed without the text wrapper: {line!r} -> {out!r}')
                continue
            w, text = CALLS[0]
            if text != line:
                raise Lost(f'the text wrapper gets something else than the line (length {n}, class {cls}): {text!r}')
            o = options_of(w)
            if opts is None:
                opts = o
            elif o != opts:
                diff = {k: (opts[k], o[k]) for k in OPTIONS if o[k] != opts[k]}
                raise Lost(f'the options of the text wrapper depend on the line (length {n}, class {cls}): {diff}')
    mixed = sorted(n for n, s in reached.items() if len(s) > 1)
    if mixed:
        raise Lost(f'whether a line is wrapped depends on more than its length (lengths {mixed[:6]}…: some lines go to the '
                   f'text wrapper, some are returned as they are)')
    wrapped = sorted(n for n, s in reached.items() if s == {True})
    if not wrapped:
        raise Lost('wrap_line never reaches textwrap.TextWrapper.wrap (lengths 0..5000)')
    short = wrapped[0] - 1
    if short < 0:
        raise Lost('wrap_line sends even the empty line to the text wrapper: no early return')
    if any(n in reached and reached[n] != {True} for n in LENGTHS if n > short):
        bad = [n for n in LENGTHS if n > short and reached[n] != {True}]
        raise Lost(f'lines of {short + 1} characters are wrapped but lines of {bad[:5]} characters are not: no single threshold')
    # ---- options the model knows
    if opts['fix_sentence_endings'] or opts['max_lines'] is not None:
        raise Lost(f'textwrap options fix_sentence_endings={opts["fix_sentence_endings"]!r} / max_lines={opts["max_lines"]!r} are not modelled')
    for k in ('width',):
        if not isinstance(opts[k], int) or isinstance(opts[k], bool) or opts[k] < 0:
            raise Lost(f'textwrap width is {opts[k]!r}, not a natural number')
    for k in ('initial_indent', 'subsequent_indent'):
        if not isinstance(opts[k], str):
            raise Lost(f'textwrap {k} is {opts[k]!r}, not a string')
    flags = ('expand_tabs', 'replace_whitespace', 'break_long_words', 'drop_whitespace', 'break_on_hyphens')
    for k in flags:
        opts[k] = bool(opts[k])
    # ---- phase 2: the glue
    sentinels = [['P0' + unique(), 'Q1' + unique()],
                 ['  lead' + unique(), 'trail' + unique() + '  '],
                 ['a=b ' + unique(), '  ' + unique() + ' ='],
                 [unique() + ' =', '   ']]
    glue = None
    for pcs in sentinels:
        FAKE[0] = pcs
        del CALLS[:]
        out = wrap_line(filler(short + 40, 5))
        if len(CALLS) != 1:
            raise Lost('wrap_line does not reach the text wrapper once for a long line (glue probe)')
        if not (isinstance(out, str) and out.startswith(pcs[0]) and out.endswith(pcs[1]) and len(out) >= len(pcs[0]) + len(pcs[1])):
            raise Lost(f'two pieces {pcs!r} are not joined as first + glue + second: {out!r}')
        g = out[len(pcs[0]):len(out) - len(pcs[1])]
        if glue is None:
            glue = g
        elif g != glue:
            raise Lost(f'the text between two pieces depends on the pieces: {glue!r} / {g!r}')
    pool = ['P' + unique(), '  ' + unique() + ' x', unique() + '  ', '  a=b', '    ', '  ' + unique() + ' =', ' - ' + unique()]
    for k in range(0, 7):
        for rot in range(3):
            pcs = [pool[(i + rot * 2) % len(pool)] + str(i) for i in range(k)]
            FAKE[0] = pcs
            del CALLS[:]
            out = wrap_line(filler(short + 30 + 7 * k + rot, k + rot))
            if out != glue.join(pcs):
                raise Lost(f'{k} pieces are not joined as glue.join(pieces) with glue {glue!r}: {pcs!r} -> {out!r}')
    FAKE[0] = None
    cut = glue.rfind('\n') + 1
    suffix, sep = glue[:cut], glue[cut:]
    # ---- phase 3: the whole function, with the real wrapper
    kw = {k: opts[k] for k in OPTIONS}
    ref = textwrap.TextWrapper(**kw)
    for n in list(range(short + 1, short + 60)) + [200, 333, 700]:
        for cls in CLASSES:
            line = probe_line(cls, n)
            if line is None:
                continue
            del CALLS[:]
            out = wrap_line(line)
            want = glue.join(REAL_WRAP(ref, line))
            if out != want:
                raise Lost(f'wrap_line is not glue.join(textwrap.wrap(line, …)) on a line of {n} characters ({cls}): {out!r} for {want!r}')
    return dict(short=short, suffix=suffix, sep=sep, glue=glue,
                **{k: opts[k] for k in ('width', 'initial_indent', 'subsequent_indent') + flags})


# ------------------------------------------------------------------------------------------------------------
# the multi-line printers, through the public API

ELEMENTS = ['C', 'H', 'N', 'O', 'F', 'Cl', 'Br', 'I', 'S', 'P', 'Si', 'B', 'Na', 'Fe', 'Cu', 'Zn', 'Al', 'Se', 'Li', 'Be', 'Mg',
            'K', 'Ca', 'Ti', 'V', 'Cr', 'Mn', 'Co', 'Ni', 'Ga', 'Ge', 'As', 'Rb', 'Sr', 'Zr', 'Mo', 'Ru', 'Rh', 'Pd', 'Ag', 'Cd',
            'Sn', 'Sb', 'Te', 'Cs', 'Ba', 'Pt', 'Au', 'Hg', 'Pb']
NMAX = 45


def res_text(els, fvars, per_line):
    lines = ['TITL probe', 'CELL 0.71073 10.5 11.5 12.5 90 90 90', 'ZERR 4 0.001 0.001 0.001 0 0 0', 'LATT -1',
             'SFAC ' + ' '.join(els), 'UNIT ' + ' '.join(str(4 + i) for i in range(len(els)))]
    for i in range(0, len(fvars), per_line):
        lines.append('FVAR ' + ' '.join(fvars[i:i + per_line]))
    lines += [f'{els[0]}1 1 0.1 0.2 0.3 11.0 0.05', 'HKLF 4', 'END']
    return '\n'.join(lines) + '\n'


def load(els, fvars, per_line=5):
    from shelxfile import Shelxfile
    shx = Shelxfile()
    shx.read_string(res_text(els, fvars, per_line))
    return shx


def strs(xs, what):
    xs = list(xs)
    if not all(isinstance(x, str) and x and not any(c.isspace() for c in x) for x in xs):
        raise Lost(f'{what} is not a list of non-empty strings without white space: {xs[:4]!r}')
    return xs


def groups(vals, size):
    return [vals[i:i + size] for i in range(0, len(vals), size)]


def probe_fvars():
    probes = []
    for n in range(1, NMAX + 1):
        # values distinct per slot; the layout of the INPUT (values per line) is the probe's own and varies
        fv = [f'{0.11 + 0.017 * i + 0.3 * (i == 0):.5f}'.rstrip('0') for i in range(n)]
        shx = load(['C', 'H'], fv, per_line=(3, 5, 7, 10)[n % 4])
        vals = strs(shx.fvars.as_stringlist, 'fvars.as_stringlist')
        text = str(shx.fvars)
        if len(vals) != n:
            raise Lost(f'{n} free variables in the file, {len(vals)} in fvars.as_stringlist')
        probes.append((vals, text))
    (v1, t1), (v2, t2) = probes[0], probes[1]
    if not t1.endswith(v1[0]):
        raise Lost(f'str(fvars) with one value {v1[0]!r} does not end in that value: {t1!r}')
    prefix = t1[:len(t1) - len(v1[0])]
    head = prefix + v2[0]
    if not (t2.startswith(head) and t2.endswith(v2[1]) and len(t2) >= len(head) + len(v2[1])):
        raise Lost(f'str(fvars) with two values is not prefix + first + separator + second: {t2!r}')
    sep = t2[len(head):len(t2) - len(v2[1])]
    if '\n' in sep:
        # one value per line: the separator inside a line is never seen
        raise Lost('str(fvars) puts every free variable on a line of its own: separator not observable')

    def render(size, vals):
        return '\n'.join(prefix + sep.join(g) for g in groups(vals, size))

    fits = [s for s in range(1, NMAX) if all(render(s, vals) == text for vals, text in probes)]
    if len(fits) != 1:
        k = next((len(v) for v, t in probes if '\n' in t), None)
        raise Lost(f'str(fvars) is not prefix + sep.join(group) per group of a fixed size, lines joined by a line break '
                   f'(prefix {prefix!r}, separator {sep!r}, first line break at {k} values, sizes that fit: {fits})')
    return dict(size=fits[0], prefix=prefix, sep=sep)


def probe_sfac():
    probes = []
    for n in list(range(1, 12)) + [17, 23, 31, NMAX]:
        for rot in (0, 7):
            els = [ELEMENTS[(i * 3 + rot + n) % len(ELEMENTS)] for i in range(n)]
            if len(set(els)) != n:
                els = ELEMENTS[rot:rot + n]
            shx = load(els, ['1.0'])
            got = strs(shx.sfac_table, 'list(sfac_table)')
            if [g.upper() for g in got] != [e.upper() for e in els]:
                raise Lost(f'list(sfac_table) is not the element list of the file: {got[:5]!r} for {els[:5]!r}')
            probes.append((got, repr(shx.sfac_table)))
    one = next(p for p in probes if len(p[0]) == 1)
    two = next(p for p in probes if len(p[0]) == 2)
    if not one[1].endswith(one[0][0]):
        raise Lost(f'repr(sfac_table) with one element does not end in the element: {one[1]!r}')
    prefix = one[1][:len(one[1]) - len(one[0][0])]
    head = prefix + two[0][0]
    if not (two[1].startswith(head) and two[1].endswith(two[0][1]) and len(two[1]) >= len(head) + len(two[0][1])):
        raise Lost(f'repr(sfac_table) with two elements is not prefix + first + separator + second: {two[1]!r}')
    sep = two[1][len(head):len(two[1]) - len(two[0][1])]
    for els, text in probes:
        if text != prefix + sep.join(els):
            raise Lost(f'repr(sfac_table) with {len(els)} elements is not prefix + sep.join(elements) '
                       f'(prefix {prefix!r}, separator {sep!r}): {text[:80]!r}')
    return dict(prefix=prefix, sep=sep)


# ------------------------------------------------------------------------------------------------------------

def import_repo(repo):
    repo = str(repo)
    sys.dont_write_bytecode = True
    sys.path.insert(0, repo)
    import importlib
    pkg = importlib.import_module('shelxfile')
    root = str(getattr(pkg, '__file__', ''))
    if not root.startswith(repo):
        raise ImportError(f'shelxfile was imported from {root}, not from {repo}')


def main():
    ap = argparse.ArgumentParser()
    ap.add_argument('--repo', default='/repo')
    a = ap.parse_args()
    import os
    from pathlib import Path
    out_fd = os.dup(1)           # the package prints diagnostics: keep the result channel apart
    os.dup2(2, 1)
    textwrap.TextWrapper.wrap = recorder
    res = {}
    try:
        import_repo(Path(a.repo).resolve())
    except Exception as e:
        msg = f'the package does not import: {e!r}'
        res = dict(wrap=dict(lost=msg), fvar=dict(lost=msg), sfac=dict(lost=msg))
    else:
        def wrap():
            from shelxfile.misc.misc import wrap_line
            return probe_wrap(wrap_line)
        for key, fn in (('wrap', wrap), ('fvar', probe_fvars), ('sfac', probe_sfac)):
            try:
                res[key] = fn()
            except Lost as e:
                res[key] = dict(lost=str(e))
            except BaseException as e:      # the code under test raised (or exited) on a probe
                if isinstance(e, KeyboardInterrupt):
                    raise
                res[key] = dict(lost=f'probe raised {type(e).__name__}: {e}')
    sys.stdout.flush()
    with os.fdopen(out_fd, 'w') as f:
        f.write(json.dumps(res))


if __name__ == '__main__':
    main()

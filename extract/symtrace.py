"""
Tracing translator (DESIGN.md 3.3): the numeric kernels of the repository are *run on symbolic numbers* and the
expression graph they compute is written out as a Lean definition, generic in the number type `K`.

Where `extract.py`'s table extractors read table-like code with `ast`, this module reads *arithmetic* code by
executing it: `Sym` is a subclass of `float` (so `isinstance(x, float)` holds and `'{:f}'.format(x)` works) that
carries, next to a concrete sample value, the expression tree of how it was computed from the named inputs.
Every `+ - * / ** neg` the code under test performs, every `math.cos/sin/sqrt/acos/…` it calls, every list
comprehension, `zip`, `sum`, property and helper method it goes through is executed by CPython itself, on the code
that exists in the working tree now — loops are unrolled, helpers inlined, locals forgotten. What comes out is the
function from the inputs to the observable as a straight-line program, and *that* is what the theorems in
`lean/ShelxProps/Cxx.lean` (`src_…` theorems) are proved about on every run.

What the tracer does NOT silently do:
  * a comparison / truth test / `int()` / `round()` of a symbolic number is recorded as a *branch event*
    (the concrete sample value decides the way taken); a target that does not list the event as expected is
    reported as lost (the straight-line program would only describe one side of the branch);
  * `float()` inside repository modules is replaced by a version that keeps symbolic numbers symbolic and turns the
    *placeholder literals* of a target (decimal strings like '10.5101' in the text of a test file) into named inputs;
    every other string goes to the real `float`.

Trusted: this file (that the overloaded operators record what CPython computes), and that the sample values chosen
by a target do not sit on a branch boundary. Both are cross-checked by the sampled correspondence of the harness,
which runs the same API on thousands of concrete inputs against the hand-written model the `src_…` theorems tie to.
"""
from __future__ import annotations

import builtins
import math
import sys
import warnings
from fractions import Fraction

# ------------------------------------------------------------------------------------------------------------
# expression nodes: interned tuples
#   ('var', name) ('int', n>=0) ('dec', text) ('add', a, b) ('sub', a, b) ('mul', a, b) ('div', a, b) ('neg', a)
#   ('call', fname, a, ...)

_INTERN = {}


def mk(*t):
    return _INTERN.setdefault(t, t)


class Untraceable(Exception):
    pass


EVENTS = []          # branch events of the current trace: (kind, text, outcome)
FLOOR_AS_EVENT = False   # math.floor/ceil of a symbolic number: False = opaque call `floor x` (stays symbolic, a float),
                         # True = branch event, the sample decides and a Python int comes back (as math.floor does)


def _ev(kind, text, outcome):
    EVENTS.append((kind, text, outcome))


def lift(x):
    if isinstance(x, Sym):
        return x.node
    if isinstance(x, bool):
        raise Untraceable('bool in arithmetic')
    if isinstance(x, int):
        return mk('int', x) if x >= 0 else mk('neg', mk('int', -x))
    if isinstance(x, float):
        if x != x or x in (float('inf'), float('-inf')):
            raise Untraceable('nan/inf constant')
        if x == int(x) and abs(x) < 2 ** 53:
            return lift(int(x))
        if x < 0:
            return mk('neg', lift(-x))
        return mk('dec', repr(x))
    if isinstance(x, Fraction):
        return mk('div', lift(x.numerator), lift(x.denominator))
    raise Untraceable(f'{type(x).__name__} in arithmetic')


def _num(x):
    return isinstance(x, (int, float)) and not isinstance(x, bool)


class Sym(float):
    """a float that remembers how it was computed"""
    __slots__ = ('node',)

    def __new__(cls, node, val):
        o = float.__new__(cls, val)
        o.node = node
        return o

    # -- arithmetic ------------------------------------------------------------------------------------------
    def _bin(self, other, op, fn, swap=False):
        if not _num(other):
            return NotImplemented
        a, b = (other, self) if swap else (self, other)
        return Sym(mk(op, lift(a), lift(b)), fn(float.__float__(a) if isinstance(a, Sym) else a,
                                                 float.__float__(b) if isinstance(b, Sym) else b))

    def __add__(self, o): return self._bin(o, 'add', lambda x, y: x + y)
    def __radd__(self, o): return self._bin(o, 'add', lambda x, y: x + y, True)
    def __sub__(self, o): return self._bin(o, 'sub', lambda x, y: x - y)
    def __rsub__(self, o): return self._bin(o, 'sub', lambda x, y: x - y, True)
    def __mul__(self, o): return self._bin(o, 'mul', lambda x, y: x * y)
    def __rmul__(self, o): return self._bin(o, 'mul', lambda x, y: x * y, True)
    def __truediv__(self, o): return self._bin(o, 'div', lambda x, y: x / y)
    def __rtruediv__(self, o): return self._bin(o, 'div', lambda x, y: x / y, True)

    def __neg__(self): return Sym(mk('neg', self.node), -float.__float__(self))
    def __pos__(self): return self

    def __pow__(self, o, mod=None):
        if mod is not None:
            raise Untraceable('pow with modulus')
        if isinstance(o, Sym):
            raise Untraceable('symbolic exponent')
        if isinstance(o, (int, float)) and not isinstance(o, bool) and o == int(o) and 0 <= o <= 6:
            n = int(o)
            if n == 0:
                return Sym(mk('int', 1), 1.0)
            r = self
            for _ in range(n - 1):
                r = r * self
            return r
        if o == 0.5:
            return call('sqrt', math.sqrt, self)
        if o == -1:
            return 1 / self
        raise Untraceable(f'** {o!r}')

    def __rpow__(self, o):
        raise Untraceable('symbolic exponent')

    def __abs__(self): return call('abs', builtins.abs, self)

    def __mod__(self, o):
        if not _num(o):
            return NotImplemented
        return call('pymod', lambda x, y: x % y, self, o)

    def __rmod__(self, o):
        if not _num(o):
            return NotImplemented
        return call('pymod', lambda x, y: x % y, o, self)

    def __floordiv__(self, o): raise Untraceable('//')
    def __rfloordiv__(self, o): raise Untraceable('//')
    def __divmod__(self, o): raise Untraceable('divmod')

    def __round__(self, n=None):
        if n is None:
            _ev('int', f'round({show(self.node)})', builtins.round(float.__float__(self)))
            return builtins.round(float.__float__(self))
        return call(f'round{n}' if n >= 0 else f'roundm{-n}', lambda x: builtins.round(x, n), self)

    def __float__(self): return self

    def __int__(self):
        v = int(float.__float__(self))
        _ev('int', f'int({show(self.node)})', v)
        return v

    __trunc__ = __int__

    def __floor__(self):
        if not FLOOR_AS_EVENT:
            return call('floor', math.floor, self)
        v = math.floor(float.__float__(self))
        _ev('int', f'floor({show(self.node)})', v)
        return v

    def __ceil__(self):
        if not FLOOR_AS_EVENT:
            return call('ceil', math.ceil, self)
        v = math.ceil(float.__float__(self))
        _ev('int', f'ceil({show(self.node)})', v)
        return v

    # -- branches --------------------------------------------------------------------------------------------
    def _cmp(self, o, op, fn):
        if not _num(o):
            return NotImplemented
        r = fn(float.__float__(self), float.__float__(o) if isinstance(o, Sym) else o)
        _ev('cmp', f'{show(self.node)} {op} {show(lift(o))}', r)
        return r

    def __lt__(self, o): return self._cmp(o, '<', lambda x, y: x < y)
    def __le__(self, o): return self._cmp(o, '<=', lambda x, y: x <= y)
    def __gt__(self, o): return self._cmp(o, '>', lambda x, y: x > y)
    def __ge__(self, o): return self._cmp(o, '>=', lambda x, y: x >= y)

    def __eq__(self, o):
        if not _num(o):
            return NotImplemented
        if isinstance(o, Sym) and o.node is self.node:
            return True
        return self._cmp(o, '==', lambda x, y: x == y)

    def __ne__(self, o):
        r = self.__eq__(o)
        return r if r is NotImplemented else not r

    def __hash__(self): return float.__hash__(self)

    def __bool__(self):
        r = float.__float__(self) != 0
        _ev('truth', f'bool({show(self.node)})', r)
        return r


def call(name, fn, *args):
    vals = [float.__float__(a) if isinstance(a, Sym) else a for a in args]
    return Sym(mk('call', name, *[lift(a) for a in args]), float(fn(*vals)))


def var(name, sample):
    return Sym(mk('var', name), float(sample))


def show(n, depth=0):
    k = n[0]
    if depth > 6:
        return '…'
    if k == 'var':
        return n[1]
    if k == 'int':
        return str(n[1])
    if k == 'dec':
        return n[1]
    if k == 'neg':
        return f'-{show(n[1], depth + 1)}'
    if k == 'call':
        return f'{n[1]}(' + ', '.join(show(a, depth + 1) for a in n[2:]) + ')'
    sym = dict(add='+', sub='-', mul='*', div='/')[k]
    return f'({show(n[1], depth + 1)} {sym} {show(n[2], depth + 1)})'


# ------------------------------------------------------------------------------------------------------------
# patching of math / float in the modules of the package under test

MATH1 = ['cos', 'sin', 'tan', 'acos', 'asin', 'atan', 'sqrt', 'radians', 'degrees', 'exp', 'log', 'fabs']
MATH2 = ['atan2', 'hypot', 'fmod', 'copysign']


class Tracing:
    """context manager: `with Tracing(repo_root, placeholders)`; placeholders: {literal text: Sym}"""

    def __init__(self, repo, placeholders=None, package='shelxfile'):
        self.repo = str(repo)
        self.placeholders = placeholders if placeholders is not None else {}
        self.package = package
        self._saved = []

    def _wrap_math(self, name, real):
        def f(*args):
            if any(isinstance(a, Sym) for a in args):
                if name == 'fabs':
                    return call('abs', builtins.abs, *args)
                return call(name, real, *args)
            return real(*args)
        f.__name__ = name
        f._sym_of = real
        return f

    def __enter__(self):
        mods = [m for n, m in list(sys.modules.items())
                if (n == self.package or n.startswith(self.package + '.')) and m is not None]
        wrapped = {}
        for name in MATH1 + MATH2 + ['floor', 'ceil']:
            real = getattr(math, name)
            if name in ('floor', 'ceil'):
                # math.floor/ceil return an int (used as an index, in `10 * m`, …): a branch event, the sample decides
                def mkf(real=real, name=name):
                    def f(x):
                        if isinstance(x, Sym):
                            if not FLOOR_AS_EVENT:
                                return call(name, real, x)
                            v = real(float.__float__(x))
                            _ev('int', f'{name}({show(x.node)})', v)
                            return v
                        return real(x)
                    return f
                w = mkf()
            else:
                w = self._wrap_math(name, real)
            wrapped[name] = (real, w)
            self._saved.append((math, name, real))
            setattr(math, name, w)
        symfloat = _SymFloatMeta.make(self.placeholders)
        for m in mods:
            g = vars(m)
            for name, (real, w) in wrapped.items():
                for k, v in list(g.items()):
                    if v is real:
                        self._saved.append((m, k, v))
                        g[k] = w
            self._saved.append((m, 'float', g.get('float', _MISSING)))
            g['float'] = symfloat
        EVENTS.clear()
        self._w = warnings.catch_warnings()
        self._w.__enter__()
        warnings.simplefilter('ignore', DeprecationWarning)
        return self

    def __exit__(self, *exc):
        self._w.__exit__(*exc)
        for obj, name, val in reversed(self._saved):
            if val is _MISSING:
                try:
                    delattr(obj, name)
                except AttributeError:
                    pass
            else:
                setattr(obj, name, val)
        self._saved.clear()
        return False


_MISSING = object()


class _SymFloatMeta(type):
    """`float` as the package sees it while tracing: calling it keeps Sym symbolic and maps placeholder literals to
    inputs; `isinstance(x, float)` still means the real float (Sym included)."""

    def __instancecheck__(cls, inst):
        return isinstance(inst, builtins.float)

    def __subclasscheck__(cls, sub):
        return issubclass(sub, builtins.float)

    @staticmethod
    def make(placeholders):
        real = builtins.float

        class symfloat(metaclass=_SymFloatMeta):
            def __new__(cls, x=0.0):
                if isinstance(x, Sym):
                    return x
                if isinstance(x, str) and x.strip() in placeholders:
                    return placeholders[x.strip()]
                return real(x)
            fromhex = real.fromhex
        return symfloat


def import_repo(repo, package='shelxfile'):
    """import the package from the tree under test (and nothing else from anywhere else)"""
    repo = str(repo)
    for n in [n for n in sys.modules if n == package or n.startswith(package + '.')]:
        del sys.modules[n]
    if repo in sys.path:
        sys.path.remove(repo)
    sys.path.insert(0, repo)
    sys.dont_write_bytecode = True
    import importlib
    pkg = importlib.import_module(package)
    root = str(getattr(pkg, '__file__', ''))
    if not root.startswith(repo):
        raise ImportError(f'{package} was imported from {root}, not from {repo}')
    import pkgutil
    for mi in pkgutil.walk_packages(pkg.__path__, package + '.'):
        if '.draw' in mi.name:
            continue
        try:
            importlib.import_module(mi.name)
        except Exception:      # optional GUI / plotting modules
            pass
    return pkg


# ------------------------------------------------------------------------------------------------------------
# flattening of results

def flatten(x):
    """nested lists / tuples / objects with `.values` -> flat list of nodes"""
    if isinstance(x, Sym) or _num(x):
        return [lift(x)]
    if hasattr(x, 'values') and not isinstance(x, dict) and not callable(x.values):
        return flatten(x.values)
    if isinstance(x, (list, tuple)):
        out = []
        for y in x:
            out.extend(flatten(y))
        return out
    if hasattr(x, '__iter__'):
        return flatten(list(x))
    raise Untraceable(f'result of type {type(x).__name__}')


def substitute(nodes, table):
    """replace every sub-expression that is a key of `table` ({node: node}) bottom-up"""
    memo = {}

    def go(n):
        if n in memo:
            return memo[n]
        if n in table:
            r = table[n]
        elif n[0] in ('var', 'int', 'dec'):
            r = n
        elif n[0] == 'call':
            r = mk('call', n[1], *[go(a) for a in n[2:]])
            r = table.get(r, r)
        else:
            r = mk(n[0], *[go(a) for a in n[1:]])
            r = table.get(r, r)
        memo[n] = r
        return r
    return [go(n) for n in nodes]


# ------------------------------------------------------------------------------------------------------------
# Lean emission

def _walk(nodes):
    order, seen, refs = [], set(), {}

    def go(n):
        refs[id(n)] = refs.get(id(n), 0) + 1
        if id(n) in seen:
            return
        seen.add(id(n))
        kids = n[2:] if n[0] == 'call' else (n[1:] if n[0] in ('add', 'sub', 'mul', 'div', 'neg') else ())
        for k in kids:
            go(k)
        order.append(n)
    for n in nodes:
        go(n)
    return order, refs


def lean_def(name, params, nodes, doc='', scalar=None, inline_limit=40):
    """Lean text of `def name {K} [...] (opaque functions) (params : K) : K | List K`"""
    order, refs = _walk(nodes)
    if scalar is None:
        scalar = len(nodes) == 1
    ops, lits, decs, calls, vars_ = set(), set(), False, {}, set()
    for n in order:
        k = n[0]
        if k in ('add', 'sub', 'mul', 'div', 'neg'):
            ops.add(k)
        elif k == 'int':
            lits.add(n[1])
        elif k == 'dec':
            decs = True
        elif k == 'call':
            calls[n[1]] = len(n) - 2
        elif k == 'var':
            vars_.add(n[1])
    missing = sorted(vars_ - set(params))
    if missing:
        raise Untraceable(f'{name}: the result depends on inputs the target does not name: {missing}')
    names = {}
    lets = []
    compound = [n for n in order if n[0] not in ('var', 'int', 'dec')]
    share = len(compound) > inline_limit

    def txt(n, top=False):
        if id(n) in names and not top:
            return names[id(n)]
        k = n[0]
        if k == 'var':
            return n[1]
        if k == 'int':
            return f'({n[1]} : K)'
        if k == 'dec':
            return f'({n[1]} : K)'
        if k == 'neg':
            return f'(-{txt(n[1])})'
        if k == 'call':
            return '(' + n[1] + ' ' + ' '.join(txt(a) for a in n[2:]) + ')'
        sym = dict(add='+', sub='-', mul='*', div='/')[k]
        return f'({txt(n[1])} {sym} {txt(n[2])})'
    if share:
        i = 0
        for n in order:
            if n[0] in ('var', 'int', 'dec'):
                continue
            if refs[id(n)] > 1:
                body = txt(n, top=True)
                i += 1
                names[id(n)] = f't{i}'
                lets.append(f'  let t{i} : K := {body}')
    inst = ['{K : Type}']
    for op, cls in (('add', 'Add'), ('sub', 'Sub'), ('mul', 'Mul'), ('div', 'Div'), ('neg', 'Neg')):
        if op in ops:
            inst.append(f'[{cls} K]')
    for l in sorted(lits):
        inst.append(f'[OfNat K {l}]')
    if decs:
        inst.append('[OfScientific K]')
    fn = ' '.join(f'({c} : ' + ' → '.join(['K'] * (calls[c] + 1)) + ')' for c in sorted(calls))
    ps = f'({" ".join(params)} : K)' if params else ''
    res = txt(nodes[0]) if scalar else '[' + ',\n   '.join(txt(n) for n in nodes) + ']'
    head = f'def {name} ' + ' '.join(inst) + (' ' + fn if fn else '') + (' ' + ps if ps else '') + \
           (' : K :=' if scalar else ' : List K :=')
    out = []
    if doc:
        out.append('/-- ' + doc.replace('-/', '- /') + ' -/')
    out.append(head)
    out.extend(lets)
    out.append('  ' + res)
    return '\n'.join(out) + '\n', sorted(calls)

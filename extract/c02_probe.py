#!/venv/bin/python
"""
C02 translator, behavioural part (runs in its own interpreter, started by extract/tables_c02.py).

Some facts the C02 model needs are *behaviour of a small pure function* rather than structure of the source:
which tokens `Command._parse_line` / `Restraint._parse_line` take for numbers, whether the keyword is folded to
upper case where it is read off the line, how many columns `is_atom` asks for, whether it refuses a coordinate
above 4.0, which words it knows as keywords.  Reading these off the syntax tree breaks with every respelling
(`len(s) < 5` / `len(s) <= 4` / early returns / a helper the test was moved into); here the package is imported from
the tree under test and the functions are *called* on a fixed battery of inputs.  Every answer is checked for the
shape the hand-written Lean model assumes (ShelxModel/C02.lean: `Kind.cmdNumeric`, `parseCmdOk`, `countP`,
`lineIsAtom`, `atomTestRaises`); an answer that does not have that shape is reported as a problem (the table is then
lost for C02) and never forced into it.

Prints one JSON object.   usage: c02_probe.py --repo <tree>
"""
import argparse
import contextlib
import importlib
import inspect
import io
import json
import sys

# representatives of the lexical classes (`Kind` of ShelxModel/C02.lean)
REPS = dict(
    int=['3', '-2', '+4', '0', '17'],
    num=['0.25', '-1.2', '2.0', '+0.5'],
    big=['10.25', '21.0', '-10.5'],
    dnum=['.5', '.25'],
    enum=['5E-1', '1e3', '-2E+1'],
    word=['C1', '$H', 'NOHKL', 'TOL', 'x'],
    sym=['-x,', '1/2+y,', '1PE', '2(1)/c', '-z'],
)
FLOAT_OK = {'int', 'num', 'big', 'dnum', 'enum'}
INT_OK = {'int'}


def quiet(fn, *a, **k):
    with contextlib.redirect_stdout(io.StringIO()), contextlib.redirect_stderr(io.StringIO()):
        return fn(*a, **k)


def outcome(fn, *a, **k):
    """('ok', value) or ('raise', class name)"""
    try:
        return 'ok', quiet(fn, *a, **k)
    except Exception as e:         # noqa: the class of the exception IS the observation
        return 'raise', type(e).__name__
    except SystemExit:
        return 'raise', 'SystemExit'


def find_primitives(cls, shx, kw, numeric_tok, word_tok):
    """methods of `cls` (any name) that split a token list into (numbers, words): [(name, defining class, flag parameter)]"""
    found = []
    try:
        inst = quiet(cls, shx, [kw])
    except Exception:
        return found
    for name, fn in inspect.getmembers(cls, inspect.isfunction):
        if name.startswith('__'):
            continue
        try:
            sig = inspect.signature(fn)
        except (TypeError, ValueError):
            continue
        params = list(sig.parameters.values())[1:]
        required = [p for p in params if p.default is inspect.Parameter.empty and p.kind in (p.POSITIONAL_ONLY, p.POSITIONAL_OR_KEYWORD)]
        if len(required) != 1 or len(params) > 2:
            continue
        kind, val = outcome(fn, inst, [kw, numeric_tok, word_tok])
        if kind != 'ok' or not isinstance(val, (tuple, list)) or len(val) != 2:
            continue
        nums, words = val
        if not (isinstance(nums, list) and isinstance(words, list)):
            continue
        if len(nums) != 1 or words != [word_tok] or isinstance(nums[0], str):
            continue
        try:
            if float(nums[0]) != float(numeric_tok):
                continue
        except (TypeError, ValueError):
            continue
        flag = None
        if len(params) == 2:
            flag = params[1].name
        owner = next((c.__name__ for c in cls.__mro__ if name in vars(c)), cls.__name__)
        found.append((name, owner, flag))
    return found


def classify_primitive(cls, shx, kw, name, flag):
    """per kind: where a token of that kind goes ('num' / 'word' / 'raise:<Class>'), for flag in (False, True)"""
    res = {}
    problems = []
    for fl in ([False, True] if flag else [False]):
        per = {}
        for kind, reps in REPS.items():
            seen = set()
            for tok in reps:
                inst = quiet(cls, shx, [kw])
                fn = getattr(inst, name)
                kw_args = {flag: fl} if flag else {}
                k, val = outcome(fn, [kw, tok], **kw_args)
                if k == 'raise':
                    seen.add('raise:' + val)
                else:
                    nums, words = val
                    if len(nums) == 1 and not words:
                        ok = (isinstance(nums[0], int) and not isinstance(nums[0], bool)) if fl else isinstance(nums[0], (int, float))
                        seen.add('num' if ok else 'num-wrong-type')
                    elif len(words) == 1 and not nums and words[0] == tok:
                        seen.add('word')
                    else:
                        seen.add('other')
            if len(seen) != 1:
                problems.append(f'{cls.__name__}.{name}: tokens of kind {kind} are not treated alike: {sorted(seen)}')
            per[kind] = sorted(seen)[0]
        res['int' if fl else 'float'] = per
    # order and multiplicity: a mixed line keeps the order of the tokens within each list
    inst = quiet(cls, shx, [kw])
    k, val = outcome(getattr(inst, name), [kw, '1', 'C1', '2.5', 'C2', '3'])
    if k != 'ok' or [float(x) for x in val[0]] != [1.0, 2.5, 3.0] or list(val[1]) != ['C1', 'C2']:
        problems.append(f'{cls.__name__}.{name}: a mixed line is not split in order: {k} {val!r}')
    k, val = outcome(getattr(inst, name), [kw])
    if k != 'ok' or list(val[0]) or list(val[1]):
        problems.append(f'{cls.__name__}.{name}: the bare keyword does not give two empty lists: {k} {val!r}')
    k, val = outcome(getattr(inst, name), [])
    res['empty'] = 'ok' if k == 'ok' else val
    return res, problems


def keyword_attrs_upper(cls, shx, name, kws):
    """after the primitive ran on a lower-case keyword (with and without residue suffix), every string attribute of the
    object that spells the keyword spells it in upper case"""
    ok = True
    seen_any = False
    for kwtext, bare in kws:
        inst = quiet(cls, shx, [kwtext])
        before = dict(vars(inst))
        k, _ = outcome(getattr(inst, name), [kwtext, '1', 'C1'])
        if k != 'ok':
            return False
        for a, v in vars(inst).items():
            if a in before and before[a] is v:
                continue        # not written by the primitive (e.g. the text of the line the constructor keeps)
            if isinstance(v, str) and v.upper() == bare.upper():
                seen_any = True
                if v != bare.upper():
                    ok = False
    return ok and seen_any


def probe_is_atom(shelx_mod, shx, problems):
    is_atom = getattr(shx, 'is_atom', None)
    if is_atom is None:
        problems.append('is_atom: no such method')
        return None

    def ask(line):
        return outcome(is_atom, line)

    cols = ['1', '0.1', '0.2', '0.3', '11.0', '0.05', '0.04', '0.03', '0.01', '0.02', '0.015', '0.5']
    accepted = []
    for n in range(0, len(cols) + 1):
        k, v = ask(' '.join(['C1'] + cols[:n]))
        if k == 'raise':
            problems.append(f'is_atom: raises {v} on a numeric line of {n + 1} columns')
            return None
        if v:
            accepted.append(n + 1)
    if not accepted or accepted != list(range(accepted[0], len(cols) + 2)):
        problems.append(f'is_atom: the accepted column counts {accepted} are not of the form n, n+1, ...')
        return None
    mincols = accepted[0]
    res = dict(mincols=mincols)
    if mincols < 5:
        problems.append(f'is_atom: accepts {mincols} columns (the model reads columns 3-5 as coordinates)')
        return None
    base = ['C1', '1', '0.1', '0.2', '0.3', '11.0', '0.05']
    # a decimal point in the scattering factor column
    for tok, want in (('1.0', False), ('.5', False), ('2', True), ('5E-1', True)):
        k, v = ask(' '.join([base[0], tok] + base[2:]))
        if (k, bool(v)) != ('ok', want):
            problems.append(f'is_atom: sfac column `{tok}` gives {k} {v} (model: {want})')
    # a coordinate above 4.0
    big = {}
    for i in (2, 3, 4):
        for tok in ('10.25', '21.0', '4.000001'):
            l = list(base)
            l[i] = tok
            k, v = ask(' '.join(l))
            if k != 'ok':
                problems.append(f'is_atom: raises {v} on coordinate {tok}')
                return None
            big[(i, tok)] = bool(v)
        l = list(base)
        l[i] = '4.0'
        k, v = ask(' '.join(l))
        if (k, bool(v)) != ('ok', True):
            problems.append(f'is_atom: coordinate 4.0 in column {i + 1} gives {k} {v} (model: accepted, the limit is > 4.0)')
    vals = set(big.values())
    if len(vals) != 1:
        problems.append(f'is_atom: coordinates above 4.0 are not treated alike: {sorted((k, v) for k, v in big.items())}')
        return None
    res['rejects_big'] = not vals.pop()
    # columns 6.. may hold anything above 4.0
    k, v = ask('C1 1 0.1 0.2 0.3 21.0 10.05')
    if (k, bool(v)) != ('ok', True):
        problems.append(f'is_atom: sof 21.0 / U 10.05 gives {k} {v}')
    # a non-numeric coordinate raises ValueError inside the test (atomTestRaises); elsewhere it does not
    for i in (2, 3, 4):
        l = list(base)
        l[i] = 'xx'
        k, v = ask(' '.join(l))
        if (k, v) != ('raise', 'ValueError'):
            problems.append(f'is_atom: a word in column {i + 1} gives {k} {v} (model: raises ValueError)')
    for i in (5, 6):
        l = list(base)
        l[i] = 'xx'
        k, v = ask(' '.join(l))
        if (k, bool(v)) != ('ok', True):
            problems.append(f'is_atom: a word in column {i + 1} gives {k} {v} (model: still an atom)')
    # too short a line never raises, whatever it holds
    k, v = ask('C1 1 xx yy')
    if (k, bool(v)) != ('ok', False):
        problems.append(f'is_atom: a short line with words gives {k} {v}')
    k, v = ask('C1 1.5 xx yy zz')
    if (k, bool(v)) != ('ok', False):
        problems.append(f'is_atom: `C1 1.5 xx yy zz` gives {k} {v} (model: refused at the sfac column before the coordinates are read)')
    return res


def find_keyword_table(shelx_mod):
    """the module-level collection of keywords that are not atom names (today: SHX_CARDS), under any name"""
    best = None
    for name, v in vars(shelx_mod).items():
        if isinstance(v, (tuple, list, set, frozenset)) and len(v) >= 40 and all(isinstance(x, str) and 1 <= len(x) <= 4 for x in v):
            if name == 'SHX_CARDS':
                return name, v
            if best is None or len(v) > len(best[1]):
                best = (name, v)
    return best if best else (None, None)


def main():
    ap = argparse.ArgumentParser()
    ap.add_argument('--repo', required=True)
    a = ap.parse_args()
    sys.dont_write_bytecode = True
    sys.path.insert(0, a.repo)
    out = dict(problems=[])
    P = out['problems']
    try:
        pkg = importlib.import_module('shelxfile')
        if not str(getattr(pkg, '__file__', '')).startswith(a.repo):
            raise ImportError(f'shelxfile imported from {pkg.__file__}')
        shelx_mod = importlib.import_module('shelxfile.shelx.shelx')
        cards = importlib.import_module('shelxfile.shelx.cards')
        Shelxfile = shelx_mod.Shelxfile
    except Exception as e:
        P.append(f'the package does not import: {e!r}')
        print(json.dumps(out))
        return
    shx = quiet(Shelxfile)

    # ---- the two token-splitting primitives ------------------------------------------------------------------
    out['primitives'] = []
    for base_name, kind, kw in (('Command', 'cmd', 'WPDB'), ('Restraint', 'restr', 'SIMU')):
        base = getattr(cards, base_name, None)
        if base is None:
            P.append(f'cards.{base_name}: no such class')
            continue
        probe_cls = type(kw, (base,), {})       # (the restraint base class compares its class name with the keyword)
        prims = find_primitives(probe_cls, shx, kw, '0.25', 'C1')
        if not prims:
            P.append(f'cards.{base_name}: no method splits a token list into (numbers, words)')
            continue
        for name, owner, flag in prims:
            if owner == kw:
                owner = base_name
            sem, probs = classify_primitive(probe_cls, shx, kw, name, flag)
            entry = dict(cls=owner, name=name, flag=flag, kind=kind, sem=sem)
            fl = sem['float']
            if kind == 'cmd':
                want = dict(int='num', num='num', big='num', enum='num', word='word', sym='raise:ValueError')
                for k, w in want.items():
                    if fl[k] != w:
                        probs.append(f'{owner}.{name}: a token of kind {k} gives {fl[k]} (model: {w})')
                if fl['dnum'] not in ('num', 'word'):
                    probs.append(f'{owner}.{name}: a token of kind dnum gives {fl["dnum"]}')
                entry['dot'] = fl['dnum'] == 'num'
                if flag:
                    it = sem['int']
                    want = dict(int='num', num='raise:ValueError', big='raise:ValueError', enum='raise:ValueError', word='word',
                                sym='raise:ValueError', dnum='raise:ValueError' if entry['dot'] else 'word')
                    for k, w in want.items():
                        if it[k] != w:
                            probs.append(f'{owner}.{name}({flag}=True): a token of kind {k} gives {it[k]} (model: {w})')
                else:
                    probs.append(f'{owner}.{name}: no integer switch (model: intnums)')
                if sem['empty'] != 'IndexError':
                    # Command._parse_line(spline) reads spline[0]; the model's parseCmd never sees an empty spline
                    pass
            else:
                want = dict(int='num', num='num', big='num', enum='num', dnum='num', word='word', sym='word')
                for k, w in want.items():
                    if fl[k] != w:
                        probs.append(f'{owner}.{name}: a token of kind {k} gives {fl[k]} (model: {w})')
                if sem['empty'] != 'IndexError':
                    probs.append(f'{owner}.{name}: an empty token list gives {sem["empty"]} (model: IndexError)')
            entry['upper'] = keyword_attrs_upper(probe_cls, shx, name, [(kw.lower(), kw), (kw.lower() + '_2', kw), (kw.title() + '_tol', kw),
                                                                         (kw.lower() + '_*', kw)])
            entry['problems'] = probs
            out['primitives'].append(entry)

    # ---- is_atom -----------------------------------------------------------------------------------------------
    ap_problems = []
    out['is_atom'] = probe_is_atom(shelx_mod, shx, ap_problems)
    P.extend(ap_problems)
    name, table = find_keyword_table(shelx_mod)
    if table is None:
        P.append('shelx.py: no module-level table of keywords found')
        out['shx_cards'] = None
    else:
        cardlist = list(table) if isinstance(table, (tuple, list)) else sorted(table)
        out['shx_cards'] = cardlist
        out['shx_cards_name'] = name
        if out['is_atom']:
            tail = ' 1 0.1 0.2 0.3 11.0 0.05'
            for kw in cardlist:
                for spelled in (kw, kw.lower(), kw.title()):
                    k, v = outcome(shx.is_atom, spelled.ljust(4)[:4].rstrip() + tail if len(kw.rstrip()) == 4 else spelled.rstrip() + tail)
                    if (k, bool(v)) != ('ok', False):
                        P.append(f'is_atom: the keyword `{spelled}` in front of atom parameters gives {k} {v}')
                        break
            for nm in ('C1', 'Q1', 'ZZZZ', 'Fe2A'):
                k, v = outcome(shx.is_atom, nm + tail)
                if (k, bool(v)) != ('ok', True):
                    P.append(f'is_atom: the atom name `{nm}` gives {k} {v}')
    # is_atom folds the case of the first word
    case = {}
    if out['is_atom']:
        tail = ' 1 0.1 0.2 0.3 11.0 0.05'
        case['is_atom'] = all(outcome(shx.is_atom, w + tail) == ('ok', False) for w in ('cell', 'Cell', 'cELL', 'dfix', 'rem', 'End'))
    # _parse_cards reads the keyword in upper case: a lower-case file gives the same model as the upper-case one
    text = ('TITL t\nCELL 0.71073 10.1 11.2 12.3 90 95.5 90\nZERR 4 0.001 0.002 0.003 0 0.01 0\nLATT -1\nSYMM -x, 1/2+y, -z\nSFAC C H O\n'
            'UNIT 8 16 4\nL.S. 10\nPLAN 5\nFVAR 0.5 0.6\nC1 1 0.1 0.2 0.3 11.0 0.05\nDFIX 1.5 C1 C2\nC2 1 0.2 0.3 0.4 11.0 0.05\nHKLF 4\nEND\n')

    def summary(t):
        s = quiet(Shelxfile)
        quiet(s.read_string, t)
        return dict(cell=s.cell is not None and list(s.cell) != [], zerr=s.zerr is not None, latt=s.latt is not None,
                    sfac=[str(x).upper() for x in getattr(s.sfac_table, 'elements_list', [])], unit=s.unit is not None,
                    cycles=s.cycles is not None, plan=s.plan is not None, fvars=len(s.fvars), atoms=[x.name.upper() for x in s.atoms],
                    restr=len(list(s.restraints)), hklf=s.hklf is not None, end=bool(s.end), err=s.error_line_num)

    def lower_kw(t, how):
        ls = []
        for l in t.split('\n'):
            w = l.split(' ')
            w[0] = w[0].lower() if how == 'lower' else w[0].title()
            ls.append(' '.join(w))
        return '\n'.join(ls)
    try:
        up = summary(text)
        case['parse_cards'] = up['cell'] and up['hklf'] and up['end'] and up['atoms'] == ['C1', 'C2'] and \
            all(summary(lower_kw(text, how)) == up for how in ('lower', 'title'))
    except Exception as e:
        case['parse_cards'] = False
        P.append(f'_parse_cards: the reference file does not parse: {e!r}')
    out['case'] = case
    print(json.dumps(out))


if __name__ == '__main__':
    main()

"""
C15 — the sign expression of `Atoms.torsion_angle` read off the source (DESIGN 3.1).

`torsion_angle` decides the sign of its result by `<name> > 0` where `<name>` is a hand-expanded polynomial in the
components of the three bond vectors. The extractor evaluates the straight-line assignments of the function
symbolically (`Array(at.cart_coords)`, `+`, `-`, `*`, unary minus, `v[i]`, `.cross`, `.dot`, integer constants) and
writes the polynomial, expanded in the twelve Cartesian coordinates of the four atoms and with like terms
collected, as the Lean function `Shelx.C15.Extracted.directionSrc`. Any respelling that denotes the same polynomial
(renamed locals, re-ordered terms, `v1.dot(v2.cross(v3))`) yields the same text. The theorem
`extracted_direction_eq_triple` in ShelxProps/C15.lean is re-checked against it on every run.
"""
import ast

import extract

REL = 'shelxfile/atoms/atoms.py'
OUT = 'C15Dir.lean'
COMP = 'xyz'


# polynomials: {monomial: coefficient}, monomial = sorted tuple of (atom 1..4, component 0..2)

def p_const(c):
    return {(): c} if c else {}


def p_add(a, b, sign=1):
    r = dict(a)
    for m, c in b.items():
        r[m] = r.get(m, 0) + sign * c
        if r[m] == 0:
            del r[m]
    return r


def p_mul(a, b):
    r = {}
    for m1, c1 in a.items():
        for m2, c2 in b.items():
            m = tuple(sorted(m1 + m2))
            r[m] = r.get(m, 0) + c1 * c2
            if r[m] == 0:
                del r[m]
    return r


def is_vec(v):
    return isinstance(v, list)


class Unknown(Exception):
    pass


def ev(node, env):
    if isinstance(node, ast.Constant) and isinstance(node.value, int) and not isinstance(node.value, bool):
        return p_const(node.value)
    if isinstance(node, ast.Constant) and isinstance(node.value, float) and node.value == int(node.value):
        return p_const(int(node.value))
    if isinstance(node, ast.Name):
        if node.id in env:
            return env[node.id]
        raise Unknown(node.id)
    if isinstance(node, ast.UnaryOp) and isinstance(node.op, (ast.USub, ast.UAdd)):
        v = ev(node.operand, env)
        s = -1 if isinstance(node.op, ast.USub) else 1
        return [p_add({}, c, s) for c in v] if is_vec(v) else p_add({}, v, s)
    if isinstance(node, ast.BinOp) and isinstance(node.op, (ast.Add, ast.Sub)):
        a, b = ev(node.left, env), ev(node.right, env)
        s = 1 if isinstance(node.op, ast.Add) else -1
        if is_vec(a) and is_vec(b):
            return [p_add(x, y, s) for x, y in zip(a, b)]
        if not is_vec(a) and not is_vec(b):
            return p_add(a, b, s)
        raise Unknown('vector +- scalar')
    if isinstance(node, ast.BinOp) and isinstance(node.op, ast.Mult):
        a, b = ev(node.left, env), ev(node.right, env)
        if is_vec(a) and is_vec(b):      # Array.__mul__ is the dot product
            return dot(a, b)
        if is_vec(a) or is_vec(b):
            raise Unknown('vector * scalar')
        return p_mul(a, b)
    if isinstance(node, ast.Subscript):
        v = ev(node.value, env)
        i = node.slice
        if is_vec(v) and isinstance(i, ast.Constant) and i.value in (0, 1, 2):
            return v[i.value]
        raise Unknown('subscript')
    if isinstance(node, ast.Attribute) and node.attr == 'cart_coords' and isinstance(node.value, ast.Name) \
            and ('@', node.value.id) in env:
        return atom_vec(env[('@', node.value.id)])
    if isinstance(node, ast.Call):
        f = node.func
        # the position vector of an atom: Array(at.cart_coords), or any one-argument helper applied to the atom itself
        # (e.g. self._position(at)); that the helper really yields the atom's current Cartesian position is not
        # assumed here, the correspondence streams of the harness observe it
        if len(node.args) == 1 and not node.keywords:
            a = node.args[0]
            if isinstance(a, ast.Name) and ('@', a.id) in env:
                return atom_vec(env[('@', a.id)])
            if isinstance(f, ast.Name) and f.id in ('Array', 'list', 'tuple'):
                v = ev(a, env)
                if is_vec(v):
                    return v
                raise Unknown('Array(...)')
        if isinstance(f, ast.Attribute) and f.attr in ('cross', 'dot') and len(node.args) == 1:
            a, b = ev(f.value, env), ev(node.args[0], env)
            if not (is_vec(a) and is_vec(b)):
                raise Unknown('cross/dot of non-vectors')
            if f.attr == 'dot':
                return dot(a, b)
            return [p_add(p_mul(a[1], b[2]), p_mul(a[2], b[1]), -1), p_add(p_mul(a[2], b[0]), p_mul(a[0], b[2]), -1),
                    p_add(p_mul(a[0], b[1]), p_mul(a[1], b[0]), -1)]
    raise Unknown(type(node).__name__)


def atom_vec(k):
    return [{((k, c),): 1} for c in range(3)]


def dot(a, b):
    r = {}
    for x, y in zip(a, b):
        r = p_add(r, p_mul(x, y))
    return r


def sign_test(node):
    """`name > 0` / `0 < name` -> name"""
    if isinstance(node, ast.Compare) and len(node.ops) == 1:
        l, r, op = node.left, node.comparators[0], node.ops[0]
        zero = lambda n: isinstance(n, ast.Constant) and n.value == 0
        if isinstance(op, ast.Gt) and isinstance(l, ast.Name) and zero(r):
            return l.id
        if isinstance(op, ast.Lt) and isinstance(r, ast.Name) and zero(l):
            return r.id
    return None


def read(repo):
    fn = extract.find(extract.parse(repo, REL), 'Atoms.torsion_angle')
    if fn is None:
        raise LookupError('Atoms.torsion_angle not found')
    env = {}
    args = [a.arg for a in fn.args.args if a.arg != 'self']
    if len(args) != 4:
        raise LookupError('torsion_angle does not take four atoms')
    for k, a in enumerate(args):
        env[('@', a)] = k + 1
    name = None
    for st in fn.body:
        if isinstance(st, ast.Assign) and len(st.targets) == 1 and isinstance(st.targets[0], ast.Name):
            try:
                env[st.targets[0].id] = ev(st.value, env)
            except Unknown:
                env.pop(st.targets[0].id, None)
        for sub in ast.walk(st):
            if isinstance(sub, (ast.IfExp, ast.If)):
                name = sign_test(sub.test) or name
    if name is None:
        raise LookupError('no `<name> > 0` decides the sign of the result')
    if name not in env or is_vec(env[name]):
        raise LookupError(f'the sign expression `{name}` is not a polynomial in the atom coordinates')
    return name, env[name]


def lean_poly(poly):
    terms = []
    for m in sorted(poly):
        c = poly[m]
        mono = ' * '.join(f'p{a}.{COMP[i]}' for a, i in m) if m else '1'
        for _ in range(abs(c)):
            terms.append(('+' if c > 0 else '-', mono))
    if not terms:
        return '0'
    return '0 ' + ' '.join(f'{s} {t}' for s, t in terms)


def text(name, body, nterms):
    return (extract.HEADER +
            'import ShelxModel.C15\n\nnamespace Shelx.C15.Extracted\n\n'
            f'/-- `{name}` of `Atoms.torsion_angle` ({REL}), expanded in the Cartesian coordinates of the four atoms\n'
            f'    ({nterms} monomials) -/\n'
            'def directionSrc {K : Type} [Add K] [Sub K] [Mul K] [OfNat K 0] [OfNat K 1] (p1 p2 p3 p4 : V3 K) : K :=\n'
            f'  {body}\n\n'
            f'def directionSrcName : String := {extract.lean_str(name)}\n\n'
            'end Shelx.C15.Extracted\n')


def fallback(out):
    extract.write_if_changed(out / OUT, text('(not recognised)', '0', 0))


@extract.extractor
def c15_direction(repo, out):
    name, poly = read(repo)
    extract.write_if_changed(out / OUT, text(name, lean_poly(poly), len(poly)))
    return []


c15_direction.props = ['C15']
c15_direction.fallback = fallback

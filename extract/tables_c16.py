"""
C16 translator: the positional slot tables of every card class of shelxfile/shelx/cards.py and the DEFS rules of the
restraints, written as Lean tables

    Shelx.Extracted.slotTable : List Shelx.C16.CardSlots
    Shelx.Extracted.defsTable : List Shelx.C16.DefsRule
    Shelx.Extracted.residualClasses : List (String × List String)     -- class, why it is not table shaped

The tables are read SEMANTICALLY, not syntactically: `extract/probe_c16.py` (a subprocess that imports the package from
the tree under test) constructs every card class on symbolic numbers for every number of parameters n = 0 … 16,
without and with a DEFS object, and reports per (class, n, DEFS?) what each attribute of the object holds:

    unset | const v | idx j (p[j], or int(p[j])) | slice a e (p[a:e]) | defs f m (shx.defs.f * m) | derived | structured

and whether the constructor raised (IndexError: an unguarded read; anything else: a validation the model does not
mirror, the half-built object is what is reported). Each reading is confirmed on five sample vectors.
Whatever the spelling of the source — comparison operators either way round, `if p:`, early returns, tuple assignment,
`setattr` in a loop over a name table, helper methods / module functions / lambdas in a module-level dict, class
attributes, properties, `try/except IndexError` — only what arrives in the object counts.

This module turns the observations into the statement list the Lean model executes (`fill` in ShelxModel/C16.lean):
for each attribute the sequence of forms over n is cut into maximal runs of one source form; a run that starts at
n = g + 1 becomes `⟨attr, .gt g, src, conv⟩` (the first run: a default, or an `.always` slot); the DEFS value that
shows where no positional slot passes becomes a `DefsRule`; every interval of n on which the constructor raises
IndexError becomes an unguarded read. The synthesised table is then EXECUTED here (a Python copy of `fill`) on every
probed point and must reproduce every observation, otherwise the class is not table shaped.

Not table shaped (listed in `residualClasses`, left out of `slotTable`, so that `slots_match_syntax` fails for a keyword
of `tableKws`): a public instance attribute that depends on the parameter VALUES, that holds a structure of parameters
which is not a contiguous slice (`HFIX.params`, `SUMP.fvars`), or whose forms over n can not be written as guarded
statements; IndexError for some values only. Silently left out of a table: attributes that are computed (`CELL.cosal`,
`CELL.V`, objects), and properties / class attributes / `_private` attributes that can not be represented.
Lost (reported, never guessed): the package does not import, the probe fails, a DEFS effect that does not have the
shape default → DEFS value → explicit parameter.
"""
from __future__ import annotations

import json
import subprocess
import sys
from fractions import Fraction
from pathlib import Path

import extract

HERE = Path(__file__).resolve().parent


class NoFit(Exception):
    pass


def rat(x) -> str:
    fr = x if isinstance(x, Fraction) else Fraction(str(x))
    if fr.denominator == 1:
        return f'({fr.numerator} : Rat)'
    return f'(({fr.numerator} : Rat) / {fr.denominator})'


def val(v) -> str:
    if v is None:
        return '.none'
    if isinstance(v, bool):
        return f'.other {extract.lean_str(str(v))}'
    if isinstance(v, (int, float)):
        return f'.num {rat(v)}'
    if isinstance(v, str):
        return f'.other {extract.lean_str(repr(v))}'
    if isinstance(v, (list, tuple)) and all(isinstance(x, (int, float)) and not isinstance(x, bool) for x in v):
        return '.nums [' + ', '.join(rat(x) for x in v) + ']'
    raise NoFit()


# ------------------------------------------------------------------------------------------------
# from observations to statements

def fit(pts):
    """pts: [(n, form)] of one run -> source  ('unset',) | ('const', v) | ('idx', j, conv) | ('slice', a, b|None) | ('defs', f, m)
       that reproduces every point, or None"""
    forms = [f for _, f in pts]
    k0 = forms[0][0]
    listish = all(f[0] == 'slice' or (f[0] == 'const' and f[1] == []) for f in forms)
    if listish:
        full = [(n, f) for n, f in pts if f[0] == 'slice']
        if not full:
            return ('const', [])
        a = full[0][1][1]
        if any(f[1] != a for _, f in full):
            return None
        b = None if all(f[2] == n for n, f in full) else max(f[2] for _, f in full)
        for n, f in pts:
            end = n if b is None else min(b, n)
            if f[0] == 'slice':
                if not (n > a and f[2] == end):
                    return None
            elif end > a:
                return None
        return ('slice', a, b)
    if any(f != forms[0] for f in forms):
        return None
    f = forms[0]
    if k0 == 'unset':
        return ('unset',)
    if k0 == 'const':
        return ('const', f[1])
    if k0 == 'idx':
        return ('idx', f[1], f[2])
    if k0 == 'defs':
        return ('defs', f[1], Fraction(f[2], f[3]))
    return None


def runs_of(seq):
    """seq[n] = form or None (nothing known) -> [(first n, source)]; raises NoFit"""
    runs, cur = [], []
    for n, f in enumerate(seq):
        if f is None:
            continue
        if cur and fit(cur + [(n, f)]) is not None:
            cur.append((n, f))
            continue
        if cur:
            runs.append((cur[0][0], fit(cur)))
        cur = [(n, f)]
        if fit(cur) is None:
            raise NoFit()
    if cur:
        runs.append((cur[0][0], fit(cur)))
    return runs


def src_text(src):
    if src[0] == 'const':
        return f'.const ({val(src[1])})', '.id'
    if src[0] == 'idx':
        return f'.idx {src[1]}', '.int' if src[2] == 'int' else '.id'
    if src[0] == 'slice':
        return f'.slice {src[1]} ' + ('none' if src[2] is None else f'(some {src[2]})'), '.id'
    raise NoFit()


def intervals(ns):
    out = []
    for n in sorted(ns):
        if out and out[-1][1] == n - 1:
            out[-1][1] = n
        else:
            out.append([n, n])
    return out


def synthesise(c, nmax):
    """probe record of one class -> dict(info for render) ; raises NoFit(reason) when the class is not table shaped"""
    if c.get('unreadable'):
        raise NoFit(c['unreadable'])
    P0, P1 = c['points']
    restraint = c['base'] == 'Restraint'
    kinds = c['attr_kind']
    lenient = {a for a in c['order'] if kinds.get(a) != 'instance' or a.startswith('_')}
    reasons, dropped = [], []
    idx0 = {n for n, p in enumerate(P0) if p['kind'] == 'index'}
    idx1 = {n for n, p in enumerate(P1) if p['kind'] == 'index'}
    if idx0 != idx1:
        raise NoFit(f'IndexError for n in {sorted(idx0)} without DEFS, {sorted(idx1)} after DEFS')

    def seq(P, a):
        out = []
        for p in P:
            if p['kind'] == 'index':
                out.append(None)
            else:
                out.append(p['forms'].get(a, ['unset']))
        return out

    defaults, slots, rules, kept = [], [], [], []
    for a in c['order']:
        s0, s1 = seq(P0, a), seq(P1, a)
        allf = [f for f in s0 + s1 if f is not None]
        if any(f[0] == 'derived' for f in allf) or a in c.get('computed', []):
            dropped.append(a)
            continue
        why = None
        if a in c.get('inconsistent', []):
            why = next((x for x in c['notes'] if x.startswith(a + ':')), f'{a}: depends on the parameter values')
        elif any(f[0] == 'structured' for f in allf):
            why = f'{a}: holds a structure of parameters that is not a contiguous slice (' + \
                  next(f[1] for f in allf if f[0] == 'structured') + ')'
        try:
            if why:
                raise NoFit(why)
            # a validation raise leaves a half-built object: an attribute that is not there yet says nothing
            for P, s in ((P0, s0), (P1, s1)):
                seen = False
                for n, p in enumerate(P):
                    if s[n] is None:
                        continue
                    if s[n][0] == 'unset' and p['kind'] == 'raise' and seen:
                        s[n] = None
                    elif s[n][0] != 'unset':
                        seen = True
            strs = {f[1] for f in allf if f[0] == 'const' and isinstance(f[1], str)}
            if len(strs) > 1:
                raise NoFit(f'{a}: text that changes with the parameters')
            try:
                r0 = runs_of(s0)
            except NoFit:
                raise NoFit(f'{a}: its forms over n can not be written as guarded statements')
            if any(src == ('unset',) for _, src in r0[1:]):
                raise NoFit(f'{a}: is set for fewer parameters and missing for more')
            # the DEFS effect: where (and only where) no positional statement passes, the DEFS value replaces the default
            rule = None
            first_end = r0[1][0] if len(r0) > 1 else nmax + 1
            default_run = bool(r0) and r0[0][1][0] in ('unset', 'const')
            for n in range(nmax + 1):
                if s0[n] is None or s1[n] is None:
                    continue
                if s0[n] == s1[n]:
                    if rule is not None and default_run and n < first_end and not (s0[n][0] == 'unset' and P1[n]['kind'] == 'raise'):
                        raise NoFit(f'{a}: the DEFS value replaces the default for some n only')
                    continue
                if s1[n][0] == 'defs' and default_run and n < first_end and restraint:
                    r = (s1[n][1], Fraction(s1[n][2], s1[n][3]))
                    if rule is None:
                        if any(s0[m] is not None and s1[m] is not None and s0[m] == s1[m] and s0[m][0] != 'unset' for m in range(n)):
                            raise NoFit(f'{a}: the DEFS value replaces the default for some n only')
                        rule = r
                    elif rule != r:
                        raise NoFit(f'{a}: different DEFS values for different n')
                    continue
                raise NoFit(f'{a}: n={n}: {s0[n]} without DEFS, {s1[n]} after DEFS')
            for f in allf:
                if f[0] == 'const':
                    val(f[1])
        except NoFit as e:
            if a in lenient:
                dropped.append(a)
                continue
            reasons.append(str(e))
            continue
        if rule is not None:
            if rule[0] not in FIELDS:
                reasons.append(f'{a}: DEFS field {rule[0]}')
                continue
            rules.append((c['name'], a, rule[0], rule[1]))
        kept.append((a, s0, s1))
        for i, (n0, src) in enumerate(r0):
            if src == ('unset',):
                continue
            if i == 0 and src[0] == 'const':
                defaults.append((a, src))
                continue
            slots.append((a, n0 - 1, src))          # guard: -1 = always, g = `len(p) > g`
    if reasons:
        raise NoFit('; '.join(reasons))
    for lo, hi in intervals(idx0):
        slots.append(('IndexError', lo - 1, ('idx', hi, 'id')))
    # the synthesised statements, executed, must give back every observation
    for hd, P in ((False, P0), (True, P1)):
        for n, p in enumerate(P):
            got = simulate(defaults, rules if restraint else [], slots, n, hd)
            if (got == 'IndexError') != (p['kind'] == 'index'):
                raise NoFit(f'internal: n={n}: the table raises {got == "IndexError"}, the constructor {p["kind"]}')
            if got == 'IndexError':
                continue
            for a, s0, s1 in kept:
                want = (s1 if hd else s0)[n]
                if want is not None and not same_form(got.get(a, ['unset']), want):
                    raise NoFit(f'internal: {a}, n={n}{" after DEFS" if hd else ""}: the table gives {got.get(a, ["unset"])}, '
                                f'the constructor {want}')
    excs = sorted({p['exc'] for P in (P0, P1) for p in P if p['kind'] == 'raise'})
    info = dict(name=c['name'], base=c['base'], intnums=bool(c['intnums']), words=c['words'],
                defaults=[(a, val(src[1])) for a, src in defaults],
                slots=[(a, '.always' if g < 0 else f'.gt {g}') + src_text(src) for a, g, src in slots],
                checks=len(excs), derived=dropped, rules=rules)
    return info


def simulate(defaults, rules, slots, n, hd):
    """Python copy of `fill` (ShelxModel/C16.lean) on the form level: -> {attr: form} or 'IndexError'"""
    store = {}
    for a, src in defaults:
        store[a] = ['const', src[1]]
    if hd:
        for _, a, f, m in rules:
            store[a] = ['defs', f, m.numerator, m.denominator]
    for a, g, src in slots:
        if not n > g:
            continue
        if src[0] == 'idx':
            if src[1] >= n:
                return 'IndexError'
            store[a] = ['idx', src[1], src[2]]
        elif src[0] == 'slice':
            end = n if src[2] is None else min(src[2], n)
            store[a] = ['slice', src[1], end] if end > src[1] else ['const', []]
        else:
            store[a] = ['const', src[1]]
    return store


def same_form(a, b):
    if a[0] != b[0]:
        return False
    if a[0] == 'defs':
        return a[1] == b[1] and Fraction(a[2], a[3]) == Fraction(b[2], b[3])
    if a[0] == 'const':
        return type(a[1]) is type(b[1]) and a[1] == b[1] or \
            (isinstance(a[1], (int, float)) and isinstance(b[1], (int, float)) and not isinstance(a[1], bool)
             and not isinstance(b[1], bool) and a[1] == b[1])
    return list(a) == list(b)


FIELDS = ['sd', 'sf', 'su', 'ss', 'maxsof']


def render(classes, rules, residual) -> str:
    L = [extract.HEADER, 'import ShelxModel.C16', 'namespace Shelx.Extracted', 'open Shelx.C16', '']
    L.append('def slotTable : List CardSlots := [')
    rows = []
    for c in classes:
        d = ', '.join(f'({extract.lean_str(a)}, {v})' for a, v in c['defaults'])
        s = ',\n      '.join(f'⟨{extract.lean_str(a)}, {g}, {src}, {cv}⟩' for a, g, src, cv in c['slots'])
        w = 'none' if c['words'] is None else f'some {extract.lean_str(c["words"])}'
        rows.append(f'  {{ name := {extract.lean_str(c["name"])}, base := {extract.lean_str(c["base"])}, '
                    f'intnums := {"true" if c["intnums"] else "false"}, wordsAttr := {w},\n'
                    f'    defaults := [{d}],\n    slots := [\n      {s}],\n    checks := {c["checks"]} }}')
    L.append(',\n'.join(rows))
    L.append(']')
    L.append('')
    L.append('def defsTable : List DefsRule := [')
    L.append(',\n'.join(f'  ⟨{extract.lean_str(n)}, {extract.lean_str(a)}, {extract.lean_str(f)}, {rat(m)}⟩' for n, a, f, m in rules))
    L.append(']')
    L.append('')
    L.append('def residualClasses : List (String × List String) := [')
    L.append(',\n'.join(f'  ({extract.lean_str(n)}, [{", ".join(extract.lean_str(x) for x in r)}])' for n, r in residual))
    L.append(']')
    L.append('')
    L.append('end Shelx.Extracted')
    return '\n'.join(L) + '\n'


def probe(repo: Path) -> dict:
    p = subprocess.run([sys.executable, str(HERE / 'probe_c16.py'), '--repo', str(repo)],
                       stdout=subprocess.PIPE, stderr=subprocess.PIPE, text=True, timeout=300,
                       env={'PATH': '/usr/bin:/bin', 'PYTHONDONTWRITEBYTECODE': '1', 'PYTHONHASHSEED': '0'})
    if p.returncode != 0:
        raise RuntimeError(f'probe_c16.py failed: {p.stderr[-400:]}')
    try:
        return json.loads(p.stdout[p.stdout.index('{'):])
    except ValueError:
        raise RuntimeError(f'probe_c16.py printed no result: {p.stdout[-200:]} {p.stderr[-200:]}')


@extract.extractor
def c16_slots(repo: Path, out: Path):
    lost = []
    r = probe(Path(repo).resolve())
    for what in r.get('lost', []):
        lost.append(dict(props=['C16'], what=what))
    nmax = r.get('nmax', 16)
    classes, residual, rules, notes = [], [], [], {}
    for c in r.get('classes', []):
        try:
            info = synthesise(c, nmax)
        except NoFit as e:
            residual.append((c['name'], [x[:200] for x in str(e).split('; ')]))
            continue
        classes.append(info)
        rules += info['rules']
        if c.get('notes'):
            notes[c['name']] = c['notes']
    if not r.get('classes') and not lost:
        lost.append(dict(props=['C16'], what='no card class could be probed'))
    extract.write_if_changed(out / 'C16Slots.lean', render(classes, rules, residual))
    # machine-readable copy (diagnostics: which classes are table shaped, which not and why, what was left out)
    extract.write_if_changed(out / 'c16_slots.json', json.dumps(dict(
        table=[c['name'] for c in classes], residual={n: r for n, r in residual},
        derived={c['name']: c['derived'] for c in classes if c['derived']}, notes=notes), indent=1, sort_keys=True) + '\n')
    return lost


def c16_fallback(out: Path):
    extract.write_if_changed(out / 'C16Slots.lean', render([], [], []))


c16_slots.props = ['C16']
c16_slots.fallback = c16_fallback

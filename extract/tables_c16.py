"""
C16 translator: the positional slot tables of every card class `__init__` in shelxfile/shelx/cards.py, and the
DEFS rules of `Restraint._set_defs_values`, read off the AST and written as Lean tables

    Shelx.Extracted.slotTable : List Shelx.C16.CardSlots
    Shelx.Extracted.defsTable : List Shelx.C16.DefsRule
    Shelx.Extracted.residualClasses : List (String × List String)     -- class, statements that did not fit

Recognised statements of an `__init__` (P = the name bound to the numeric list by `P, W = self._parse_line(...)`):
    super(...).__init__(...) / self.shx = shx / docstring                      ignored
    self.x = <literal>   |  self.x, self.y = <literal>, <literal>             default (before the parse call) or
                                                                               constant slot (after it)
    P, W = self._parse_line(spline[, intnums=<bool>])   W: `_`, a name, or self.<attr> (words attribute)
    self.x, W = self._parse_line(...)                    whole list -> slot(always, p[0:])
    if len(P) > g: / >= g+1:   body of   self.x = P[j] | conv(P[j]) | P[a:b] | <literal> | derived (no P inside)
                                optional `else: raise ...`
    self.x = P[j] | conv(P[j]) | P[a:b]                  unguarded read
    validation:  if <test>: raise/print only;  self._paircheck();  (counted in `checks`, not modelled)
Everything else makes the class *residual* (listed with the offending statements; modelled by hand or left out).
Equivalent spellings accepted: any name for P, `len(P) >= k`, `k < len(P)`, `int()/float()` wrappers, tuple
assignment of literals, `self.x: T = v` annotated assignment.
"""
from __future__ import annotations

import ast
from fractions import Fraction
from pathlib import Path

import extract

CARDS = 'shelxfile/shelx/cards.py'
SKIP = {'Residue', 'Restraint', 'Command', 'Residues', 'Restraints', 'FVAR', 'FVARs', 'SymmCards', 'SFACTable'}


class NoFit(Exception):
    pass


def rat(x) -> str:
    fr = Fraction(str(x))
    if fr.denominator == 1:
        return f'({fr.numerator} : Rat)'
    return f'(({fr.numerator} : Rat) / {fr.denominator})'


def lit(node):
    """python literal node -> Lean `Val` text, or raise NoFit"""
    try:
        v = ast.literal_eval(node)
    except Exception:
        raise NoFit()
    return val(v)


def val(v) -> str:
    if v is None:
        return '.none'
    if isinstance(v, bool):
        return f'.other {extract.lean_str(str(v))}'
    if isinstance(v, (int, float)):
        return f'.num {rat(v)}'
    if isinstance(v, str):
        return f'.other {extract.lean_str(repr(v))}'
    if isinstance(v, (list, tuple)) and all(isinstance(x, (int, float)) and not isinstance(x, bool) for x in v):
        return '.nums [' + ', '.join(rat(x) for x in v) + ']'
    raise NoFit()


def self_attr(node):
    if isinstance(node, ast.Attribute) and isinstance(node.value, ast.Name) and node.value.id == 'self':
        return node.attr
    return None


def mentions(node, name) -> bool:
    return any(isinstance(n, ast.Name) and n.id == name for n in ast.walk(node))


def is_parse_call(node):
    return (isinstance(node, ast.Call) and isinstance(node.func, ast.Attribute) and node.func.attr == '_parse_line'
            and isinstance(node.func.value, ast.Name) and node.func.value.id == 'self')


def nat(node):
    if isinstance(node, ast.Constant) and isinstance(node.value, int) and not isinstance(node.value, bool) and node.value >= 0:
        return node.value
    return None


def read_src(node, P):
    """P[j] / conv(P[j]) / P[a:b]  ->  (src text, conv text) or None"""
    conv = '.id'
    if isinstance(node, ast.Call) and isinstance(node.func, ast.Name) and node.func.id in ('int', 'float') \
            and len(node.args) == 1 and not node.keywords:
        conv = '.int' if node.func.id == 'int' else '.id'
        node = node.args[0]
    if isinstance(node, ast.Subscript) and isinstance(node.value, ast.Name) and node.value.id == P:
        sl = node.slice
        if isinstance(sl, ast.Slice):
            if sl.step is not None:
                return None
            a = 0 if sl.lower is None else nat(sl.lower)
            b = None if sl.upper is None else nat(sl.upper)
            if a is None or (sl.upper is not None and b is None):
                return None
            return f'.slice {a} ' + ('none' if b is None else f'(some {b})'), conv
        j = nat(sl)
        if j is not None:
            return f'.idx {j}', conv
    return None


def len_guard(test, P):
    """len(P) > g | len(P) >= g+1 | g < len(P)  -> g"""
    if not (isinstance(test, ast.Compare) and len(test.ops) == 1 and len(test.comparators) == 1):
        return None
    l, op, r = test.left, test.ops[0], test.comparators[0]

    def is_len(n):
        return (isinstance(n, ast.Call) and isinstance(n.func, ast.Name) and n.func.id == 'len' and len(n.args) == 1
                and isinstance(n.args[0], ast.Name) and n.args[0].id == P)
    if is_len(l) and nat(r) is not None:
        if isinstance(op, ast.Gt):
            return nat(r)
        if isinstance(op, ast.GtE) and nat(r) >= 1:
            return nat(r) - 1
    if is_len(r) and nat(l) is not None:
        if isinstance(op, ast.Lt):
            return nat(l)
        if isinstance(op, ast.LtE) and nat(l) >= 1:
            return nat(l) - 1
    return None


def only_raise_or_print(stmts) -> bool:
    for s in stmts:
        if isinstance(s, ast.Raise):
            continue
        if isinstance(s, ast.Expr) and isinstance(s.value, ast.Call) and isinstance(s.value.func, ast.Name) and s.value.func.id == 'print':
            continue
        if isinstance(s, ast.If) and only_raise_or_print(s.body) and only_raise_or_print(s.orelse):
            continue
        return False
    return True


def assigned_pairs(stmt):
    """Assign/AnnAssign -> list of (target node, value node); tuple assignment of equal length is unpacked"""
    if isinstance(stmt, ast.AnnAssign) and stmt.value is not None:
        return [(stmt.target, stmt.value)]
    if isinstance(stmt, ast.Assign) and len(stmt.targets) == 1:
        t, v = stmt.targets[0], stmt.value
        if isinstance(t, ast.Tuple) and isinstance(v, ast.Tuple) and len(t.elts) == len(v.elts):
            return list(zip(t.elts, v.elts))
        return [(t, v)]
    return None


def read_init(cls: ast.ClassDef):
    init = next((n for n in cls.body if isinstance(n, ast.FunctionDef) and n.name == '__init__'), None)
    base = cls.bases[0].id if cls.bases and isinstance(cls.bases[0], ast.Name) else ''
    info = dict(name=cls.name, base=base, intnums=False, words=None, defaults=[], slots=[], checks=0, residual=[], derived=0)
    if init is None:
        return info
    P = None
    argnames = {a.arg for a in init.args.args}
    for st in init.body:
        try:
            fit_stmt(st, info, argnames, lambda: P)
            if '_P' in info:
                P = info.pop('_P')
        except NoFit:
            info['residual'].append(ast.unparse(st).split('\n')[0][:100])
    return info


def fit_stmt(st, info, argnames, getP):
    P = getP()
    # docstring / super().__init__ ------------------------------------------------------------------
    if isinstance(st, ast.Expr):
        v = st.value
        if isinstance(v, ast.Constant) and isinstance(v.value, str):
            return
        if isinstance(v, ast.Call) and isinstance(v.func, ast.Attribute):
            if v.func.attr == '__init__':
                return
            if v.func.attr == '_paircheck':
                info['checks'] += 1
                return
        raise NoFit()
    # validation ----------------------------------------------------------------------------------------
    if isinstance(st, ast.If) and len_guard(st.test, P or '') is None:
        if only_raise_or_print(st.body) and only_raise_or_print(st.orelse):
            info['checks'] += 1
            return
        raise NoFit()
    # guarded block -------------------------------------------------------------------------------------
    if isinstance(st, ast.If):
        g = len_guard(st.test, P)
        if st.orelse and not only_raise_or_print(st.orelse):
            raise NoFit()
        if st.orelse:
            info['checks'] += 1
        new = []
        for b in st.body:
            pairs = assigned_pairs(b)
            if pairs is None:
                raise NoFit()
            for t, v in pairs:
                a = self_attr(t)
                if a is None:
                    raise NoFit()
                rs = read_src(v, P)
                if rs is not None:
                    new.append((a, f'.gt {g}', rs[0], rs[1]))
                elif not mentions(v, P):
                    try:
                        new.append((a, f'.gt {g}', f'.const ({lit(v)})', '.id'))
                    except NoFit:
                        info['derived'] += 1      # computed from other attributes (CELL: cosines, volume …)
                else:
                    raise NoFit()
        info['slots'] += new
        return
    pairs = assigned_pairs(st)
    if pairs is None:
        raise NoFit()
    # the parse call ------------------------------------------------------------------------------------
    if len(pairs) == 1 and is_parse_call(pairs[0][1]):
        t, call = pairs[0]
        if not (isinstance(t, ast.Tuple) and len(t.elts) == 2) or P is not None:
            raise NoFit()
        for kw in call.keywords:
            if kw.arg == 'intnums' and isinstance(kw.value, ast.Constant):
                info['intnums'] = bool(kw.value.value)
            else:
                raise NoFit()
        if len(call.args) != 1 or not (isinstance(call.args[0], ast.Name) and call.args[0].id in argnames):
            raise NoFit()
        pn, wn = t.elts
        if isinstance(wn, ast.Name):
            pass
        elif self_attr(wn):
            info['words'] = self_attr(wn)
        else:
            raise NoFit()
        if isinstance(pn, ast.Name):
            info['_P'] = pn.id
        elif self_attr(pn):
            info['_P'] = '\0whole'
            info['slots'].append((self_attr(pn), '.always', '.slice 0 none', '.id'))
        else:
            raise NoFit()
        return
    # plain assignments ---------------------------------------------------------------------------------
    new_d, new_s = [], []
    for t, v in pairs:
        a = self_attr(t)
        if a is None:
            raise NoFit()
        if isinstance(v, ast.Name) and v.id in argnames:
            continue                                  # self.shx = shx
        rs = read_src(v, P) if P else None
        if rs is not None:
            new_s.append((a, '.always', rs[0], rs[1]))
            continue
        if P and mentions(v, P):
            raise NoFit()
        if isinstance(v, ast.JoinedStr) or (isinstance(v, ast.Call) and not mentions(v, P or '\0')):
            # `self._textline = ' '.join(spline)`: bookkeeping of the raw text, not a parameter
            if a.startswith('_'):
                continue
            raise NoFit()
        lv = lit(v)
        if P is None:
            new_d.append((a, lv))
        else:
            new_s.append((a, '.always', f'.const ({lv})', '.id'))
    info['defaults'] += new_d
    info['slots'] += new_s


def read_defs(tree):
    """Restraint._set_defs_values ->  [(name, attr, field, mult)] ; raises NoFit when the shape is lost"""
    fn = extract.find(tree, 'Restraint._set_defs_values')
    if fn is None:
        raise NoFit()
    body = [s for s in fn.body if not (isinstance(s, ast.Expr) and isinstance(s.value, ast.Constant))]
    if len(body) != 1 or not isinstance(body[0], ast.If):
        raise NoFit()
    top = body[0]
    t = top.test
    if not (isinstance(t, ast.Attribute) and t.attr == 'defs'):
        raise NoFit()
    rules = []

    def defs_field(n):
        if isinstance(n, ast.Attribute) and isinstance(n.value, ast.Attribute) and n.value.attr == 'defs':
            return n.attr
        return None

    def walk(stmts):
        for s in stmts:
            if not isinstance(s, ast.If):
                raise NoFit()
            c = s.test
            if not (isinstance(c, ast.Compare) and len(c.ops) == 1 and isinstance(c.ops[0], ast.Eq)
                    and self_attr(c.left) == 'name' and isinstance(c.comparators[0], ast.Constant)):
                raise NoFit()
            nm = c.comparators[0].value
            for b in s.body:
                pairs = assigned_pairs(b)
                if pairs is None or len(pairs) != 1:
                    raise NoFit()
                tgt, v = pairs[0]
                a = self_attr(tgt)
                if a is None:
                    raise NoFit()
                mult = 1
                f = defs_field(v)
                if f is None and isinstance(v, ast.BinOp) and isinstance(v.op, ast.Mult):
                    if defs_field(v.left) and isinstance(v.right, ast.Constant):
                        f, mult = defs_field(v.left), v.right.value
                    elif defs_field(v.right) and isinstance(v.left, ast.Constant):
                        f, mult = defs_field(v.right), v.left.value
                if f is None:
                    raise NoFit()
                rules.append((nm, a, f, mult))
            walk(s.orelse)          # elif chains
    walk(top.body)
    if top.orelse:
        raise NoFit()
    return rules


def render(classes, rules, residual) -> str:
    L = [extract.HEADER, 'import ShelxModel.C16', 'namespace Shelx.Extracted', 'open Shelx.C16', '']
    L.append('def slotTable : List CardSlots := [')
    rows = []
    for c in classes:
        d = ', '.join(f'({extract.lean_str(a)}, {v})' for a, v in c['defaults'])
        s = ',\n      '.join(f'⟨{extract.lean_str(a)}, {g}, {src}, {cv}⟩' for a, g, src, cv in c['slots'])
        w = 'none' if c['words'] is None else f'some {extract.lean_str(c["words"])}'
        rows.append(f'  {{ name := {extract.lean_str(c["name"])}, base := {extract.lean_str(c["base"])}, '
                    f'intnums := {"true" if c["intnums"] else "false"}, wordsAttr := {w},\n'
                    f'    defaults := [{d}],\n    slots := [\n      {s}],\n    checks := {c["checks"]} }}')
    L.append(',\n'.join(rows))
    L.append(']')
    L.append('')
    L.append('def defsTable : List DefsRule := [')
    L.append(',\n'.join(f'  ⟨{extract.lean_str(n)}, {extract.lean_str(a)}, {extract.lean_str(f)}, {rat(m)}⟩' for n, a, f, m in rules))
    L.append(']')
    L.append('')
    L.append('def residualClasses : List (String × List String) := [')
    L.append(',\n'.join(f'  ({extract.lean_str(n)}, [{", ".join(extract.lean_str(x) for x in r)}])' for n, r in residual))
    L.append(']')
    L.append('')
    L.append('end Shelx.Extracted')
    return '\n'.join(L) + '\n'


@extract.extractor
def c16_slots(repo: Path, out: Path):
    lost = []
    tree = extract.parse(repo, CARDS)
    classes, residual = [], []
    for n in tree.body:
        if isinstance(n, ast.ClassDef) and n.name not in SKIP:
            info = read_init(n)
            if info['residual']:
                residual.append((info['name'], info['residual']))
            else:
                classes.append(info)
    try:
        rules = read_defs(tree)
    except NoFit:
        rules = []
        lost.append(dict(props=['C16'], what='Restraint._set_defs_values no longer has the shape '
                                            '`if self.shx.defs: if self.name == K: self.a = self.shx.defs.f [* k]`'))
    extract.write_if_changed(out / 'C16Slots.lean', render(classes, rules, residual))
    # machine-readable copy for the harness (which classes are table shaped, which residual)
    import json
    extract.write_if_changed(out / 'c16_slots.json', json.dumps(dict(
        table=[c['name'] for c in classes], residual={n: r for n, r in residual},
        derived={c['name']: c['derived'] for c in classes if c['derived']}), indent=1, sort_keys=True) + '\n')
    return lost


def c16_fallback(out: Path):
    extract.write_if_changed(out / 'C16Slots.lean', render([], [], []))


c16_slots.props = ['C16']
c16_slots.fallback = c16_fallback

"""
C12 — tracing targets: the cell-derived geometry and the displacement-tensor chain, as the working tree computes them.

Every target runs the real code on symbolic numbers (symtrace.py). Angles enter the code in degrees and are only ever
used as `cos(radians(·))` / `sin(radians(·))`; those values are the inputs `ca … sg` of the emitted definitions (the
`Cell` record of lean/ShelxModel/C12.lean). `src_…` theorems in lean/ShelxProps/C12.lean tie each emitted definition
to the hand-written model for all inputs.
"""
from trace_run import target

CELLP = ['a', 'b', 'c', 'ca', 'cb', 'cg', 'sa', 'sb', 'sg']


def cell(t):
    a, b, c = t.var('a', 10.5101), t.var('b', 11.5202), t.var('c', 12.5303)
    al = t.angle('alpha', 81.04, 'ca', 'sa')
    be = t.angle('beta', 82.05, 'cb', 'sb')
    ga = t.angle('gamma', 83.06, 'cg', 'sg')
    return a, b, c, al, be, ga


def vec(t, names, samples):
    return [t.var(n, s) for n, s in zip(names, samples)]


@target('C12', 'volUnitcell', CELLP[:6], doc='dsrmath.vol_unitcell(a, b, c, alpha, beta, gamma)', calls=['sqrt'])
def vol_unitcell(t):
    from shelxfile.misc.dsrmath import vol_unitcell
    return vol_unitcell(*cell(t))


@target('C12', 'orthoM', CELLP[:6] + ['sg'], doc='dsrmath.OrthogonalMatrix(a, b, c, alpha, beta, gamma).m.values, row-major',
        result_len=9, calls=['sqrt'])
def ortho_m(t):
    from shelxfile.misc.dsrmath import OrthogonalMatrix
    return OrthogonalMatrix(*cell(t)).m


@target('C12', 'orthoMulVec', CELLP[:6] + ['sg', 'x', 'y', 'z'], doc='OrthogonalMatrix(...) * Array([x, y, z])',
        result_len=3, calls=['sqrt'])
def ortho_mul(t):
    from shelxfile.misc.dsrmath import OrthogonalMatrix, Array
    return OrthogonalMatrix(*cell(t)) * Array(vec(t, 'xyz', (0.1234, 0.2345, 0.3456)))


@target('C12', 'metricMatrix', CELLP[:6] + ['sg'], doc='OrthogonalMatrix(...).metric_matrix.values, row-major',
        result_len=9, calls=['sqrt'])
def metric(t):
    from shelxfile.misc.dsrmath import OrthogonalMatrix
    return OrthogonalMatrix(*cell(t)).metric_matrix


M9 = [f'm{i}{j}' for i in range(3) for j in range(3)]
N9 = [f'n{i}{j}' for i in range(3) for j in range(3)]


def mat(t, names, base):
    from shelxfile.misc.dsrmath import Matrix
    vs = [t.var(n, base + 0.37 * k + 0.011 * k * k) for k, n in enumerate(names)]
    return Matrix([vs[0:3], vs[3:6], vs[6:9]])


@target('C12', 'matDet', M9, doc='Matrix(m).det  (misc.determinante)')
def mat_det(t):
    return mat(t, M9, 1.3).det


@target('C12', 'matInversed', M9, doc='Matrix(m).inversed.values, row-major', result_len=9)
def mat_inv(t):
    return mat(t, M9, 1.3).inversed


@target('C12', 'matTransposed', M9, doc='Matrix(m).transposed.values / .T', result_len=9)
def mat_t(t):
    return mat(t, M9, 1.3).T


@target('C12', 'matMulStar', M9 + N9, doc='(Matrix(m) * Matrix(n)).values  — the `*` operator', result_len=9)
def mat_mul(t):
    return mat(t, M9, 1.3) * mat(t, N9, 0.7)


@target('C12', 'matDot', M9 + N9, doc='Matrix(m).dot(Matrix(n)).values', result_len=9)
def mat_dot(t):
    return mat(t, M9, 1.3).dot(mat(t, N9, 0.7))


@target('C12', 'matMulVec', M9 + ['x', 'y', 'z'], doc='(Matrix(m) * Array([x, y, z])).values', result_len=3)
def mat_mulvec(t):
    from shelxfile.misc.dsrmath import Array
    return mat(t, M9, 1.3) * Array(vec(t, 'xyz', (0.1234, 0.2345, 0.3456)))


@target('C12', 'matTrace', M9, doc='Matrix(m).trace')
def mat_trace(t):
    return mat(t, M9, 1.3).trace


@target('C12', 'fracToCartMisc', CELLP[:6] + ['sb', 'sg', 'x', 'y', 'z'], doc='misc.frac_to_cart([x, y, z], cell)',
        result_len=3, calls=['sqrt'])
def f2c(t):
    from shelxfile.misc.misc import frac_to_cart
    return frac_to_cart(vec(t, 'xyz', (0.1234, 0.2345, 0.3456)), list(cell(t)))


@target('C12', 'cartToFracMisc', CELLP[:6] + ['sb', 'sg', 'x', 'y', 'z'], doc='misc.cart_to_frac([x, y, z], cell)',
        result_len=3, calls=['sqrt'])
def c2f(t):
    from shelxfile.misc.misc import cart_to_frac
    return cart_to_frac(vec(t, 'xyz', (1.234, 2.345, 3.456)), list(cell(t)))


@target('C12', 'atomicDistance', CELLP[:6] + ['x1', 'y1', 'z1', 'x2', 'y2', 'z2'],
        doc='dsrmath.atomic_distance([x1, y1, z1], [x2, y2, z2], cell)', calls=['sqrt'])
def adist(t):
    from shelxfile.misc.dsrmath import atomic_distance
    p1 = vec(t, ['x1', 'y1', 'z1'], (0.1234, 0.2345, 0.3456))
    p2 = vec(t, ['x2', 'y2', 'z2'], (0.6234, 0.1345, 0.8456))
    return atomic_distance(p1, p2, list(cell(t)))


# ---- through the public API: a file is read, the observables of the parsed objects are the results ----------------

FILE = """TITL traced
CELL 0.71073 10.5101 11.5202 12.5303 81.04 82.05 83.06
ZERR 4 0.001 0.001 0.001 0.01 0.01 0.01
LATT -1
SFAC C H O
UNIT 4 4 4
FVAR 1.0
C1    1    0.123411    0.234522    0.345633    11.00000    0.021101    0.032202    0.043303   -0.004404    0.005505   -0.006606
HKLF 4
END
"""
CELL_LIT = dict(a='10.5101', b='11.5202', c='12.5303', alpha='81.04', beta='82.05', gamma='83.06')
XYZ_LIT = dict(x='0.123411', y='0.234522', z='0.345633')
U_LIT = dict(u11='0.021101', u22='0.032202', u33='0.043303', u23='-0.004404', u13='0.005505', u12='-0.006606')
UP = ['u11', 'u22', 'u33', 'u23', 'u13', 'u12']
# the parser looks at the magnitude of each number to tell free-variable codes from plain values
PARSE_EVENTS = ('> 4', '>= 4', '< 4', '> 15', '> -', '< -', 'abs(', '> 1e-06', '> 1e-05', '> 0', '< 0', '== 0', 'bool(',
                '> 5', '< 5', '> 10', '< 10', '>= 5', '>= 10', '>= 15', '== 10', '== 11', '> 0.5', '< 0.5')


def read(t):
    from shelxfile import Shelxfile
    for n, lit in CELL_LIT.items():
        v = t.literal(lit, n)
        if n in ('alpha', 'beta', 'gamma'):
            import symtrace as st
            c, s = dict(alpha=('ca', 'sa'), beta=('cb', 'sb'), gamma=('cg', 'sg'))[n]
            rad = st.mk('call', 'radians', v.node)
            t.table[st.mk('call', 'cos', rad)] = st.mk('var', c)
            t.table[st.mk('call', 'sin', rad)] = st.mk('var', s)
    for n, lit in XYZ_LIT.items():
        t.literal(lit, n)
    for n, lit in U_LIT.items():
        if lit.startswith('-'):
            # the sign belongs to the literal: '-0.004404' is one token
            t.literal(lit, n)
        else:
            t.literal(lit, n)
    shx = Shelxfile()
    shx.read_string(FILE)
    return shx


@target('C12', 'cellVolume', CELLP[:6], doc='Shelxfile.read_string(file).cell.volume', calls=['sqrt'], expect=PARSE_EVENTS)
def cell_volume(t):
    return read(t).cell.volume


@target('C12', 'cellRecip', CELLP, doc='cell.astar, cell.bstar, cell.cstar of a parsed file', result_len=3,
        calls=['sqrt'], expect=PARSE_EVENTS)
def cell_recip(t):
    c = read(t).cell
    return [c.astar, c.bstar, c.cstar]


@target('C12', 'cellN', CELLP, doc='cell.N.values of a parsed file, row-major', result_len=9, calls=['sqrt'],
        expect=PARSE_EVENTS)
def cell_n(t):
    return read(t).cell.N


@target('C12', 'atomCart', CELLP[:6] + ['sg', 'x', 'y', 'z'], doc='Atom.cart_coords of the atom of a parsed file',
        result_len=3, calls=['sqrt'], expect=PARSE_EVENTS)
def atom_cart(t):
    return list(list(read(t).atoms)[0].cart_coords)


@target('C12', 'shxFracToCart', CELLP[:6] + ['sg', 'x', 'y', 'z'], doc='Shelxfile.frac_to_cart(atom.frac_coords)',
        result_len=3, calls=['sqrt'], expect=PARSE_EVENTS)
def shx_f2c(t):
    shx = read(t)
    return list(shx.frac_to_cart(list(list(shx.atoms)[0].frac_coords)))


@target('C12', 'atomUcif', UP, doc='Atom.ucif.values, row-major', result_len=9, expect=PARSE_EVENTS)
def atom_ucif(t):
    return list(read(t).atoms)[0].ucif


@target('C12', 'atomUstar', CELLP + UP, doc='Atom.ustar.values, row-major', result_len=9, calls=['sqrt'],
        expect=PARSE_EVENTS)
def atom_ustar(t):
    return list(read(t).atoms)[0].ustar


@target('C12', 'atomUcart', CELLP + UP, doc='Atom.u_cart.values, row-major', result_len=9, calls=['sqrt'],
        expect=PARSE_EVENTS)
def atom_ucart(t):
    return list(read(t).atoms)[0].u_cart


@target('C12', 'atomUeq', CELLP + UP, doc='Atom.ueq of an anisotropic atom', calls=['sqrt'], expect=PARSE_EVENTS)
def atom_ueq(t):
    return list(read(t).atoms)[0].ueq


# ---- histories on the parsed objects: what was asked before an edit must not survive the edit ----------------------------

CELL2_LIT = dict(a='7.5202', b='11.2503', c='32.0104', alpha='81.55', beta='104.06', gamma='117.27')


def set_cell2(t, shx):
    """the placeholders of the SECOND cell carry the parameter names; the first cell's numbers become a1 … sg1 (they are
    no parameters of the emitted definition: a result that still mentions them can not be written out)"""
    import symtrace as st
    for n, lit in CELL2_LIT.items():
        v = t.literal(lit, n)
        if n in ('alpha', 'beta', 'gamma'):
            c, s = dict(alpha=('ca', 'sa'), beta=('cb', 'sb'), gamma=('cg', 'sg'))[n]
            rad = st.mk('call', 'radians', v.node)
            t.table[st.mk('call', 'cos', rad)] = st.mk('var', c)
            t.table[st.mk('call', 'sin', rad)] = st.mk('var', s)
    shx.cell.set('CELL 0.71073 ' + ' '.join(CELL2_LIT.values()))


def read_first(t):
    """read FILE with the numbers of its CELL line named a1 … (not parameters)"""
    import symtrace as st
    from shelxfile import Shelxfile
    for n, lit in CELL_LIT.items():
        v = t.literal(lit, n + '1')
        if n in ('alpha', 'beta', 'gamma'):
            c, s = dict(alpha=('ca1', 'sa1'), beta=('cb1', 'sb1'), gamma=('cg1', 'sg1'))[n]
            rad = st.mk('call', 'radians', v.node)
            t.table[st.mk('call', 'cos', rad)] = st.mk('var', c)
            t.table[st.mk('call', 'sin', rad)] = st.mk('var', s)
    for n, lit in XYZ_LIT.items():
        t.literal(lit, n)
    for n, lit in U_LIT.items():
        t.literal(lit, n)
    shx = Shelxfile()
    shx.read_string(FILE)
    return shx


@target('C12', 'cellSetInversed', CELLP[:6] + ['sg'],
        doc="cell.o.inversed.values after: read (another cell), cell.o.inversed asked, shx.cell.set('CELL … a b c α β γ')",
        result_len=9, calls=['sqrt'], expect=PARSE_EVENTS)
def cell_set_inversed(t):
    shx = read_first(t)
    shx.cell.o.inversed                     # asked for the first cell
    shx.orthogonal_matrix.inversed
    set_cell2(t, shx)
    return shx.cell.o.inversed


@target('C12', 'cellSetShxInversed', CELLP[:6] + ['sg'],
        doc="shx.orthogonal_matrix.inversed.values after the same history", result_len=9, calls=['sqrt'], expect=PARSE_EVENTS)
def cell_set_shx_inversed(t):
    shx = read_first(t)
    shx.orthogonal_matrix.inversed
    shx.cell.o.inversed
    set_cell2(t, shx)
    return shx.orthogonal_matrix.inversed


@target('C12', 'cellSetUeq', CELLP + UP,
        doc="Atom.ueq after: read (another cell), ueq / cell.N / cell.o.inversed asked, shx.cell.set('CELL …')", calls=['sqrt'],
        expect=PARSE_EVENTS)
def cell_set_ueq(t):
    shx = read_first(t)
    a = list(shx.atoms)[0]
    a.ueq, shx.cell.N, shx.cell.o.inversed, shx.cell.volume
    set_cell2(t, shx)
    return a.ueq


# ---- displacement tensors whose last four components are tiny but not zero: every magnitude test on the way from the six
# ---- values to Ueq shows as a branch event; the result has to be the same straight-line program on either side -------------

def read_flat(t, lits):
    from shelxfile import Shelxfile
    text = FILE
    for n, lit in lits.items():
        text = text.replace(U_LIT[n], lit, 1)
    for n, lit in CELL_LIT.items():
        v = t.literal(lit, n)
        if n in ('alpha', 'beta', 'gamma'):
            import symtrace as st
            c, s = dict(alpha=('ca', 'sa'), beta=('cb', 'sb'), gamma=('cg', 'sg'))[n]
            rad = st.mk('call', 'radians', v.node)
            t.table[st.mk('call', 'cos', rad)] = st.mk('var', c)
            t.table[st.mk('call', 'sin', rad)] = st.mk('var', s)
    for n, lit in XYZ_LIT.items():
        t.literal(lit, n)
    for n in UP:
        t.literal(lits.get(n, U_LIT[n]), n)
    shx = Shelxfile()
    shx.read_string(text)
    return shx


# U33 … U12: absolute values sum to 1e-5 (at the limit under which the writer prints an isotropic line)
FLAT5 = dict(u33='0.000004', u23='0.000001', u13='-0.000002', u12='0.000003')
# … sum to 7e-7 (under the limit of set_uvals for 'regular atom')
FLAT7 = dict(u33='0.0000004', u23='0.0000001', u13='-0.0000001', u12='0.00000010')
# … sum to 1e-10
FLAT10 = dict(u33='0.00000000004', u23='0.00000000001', u13='-0.00000000002', u12='0.00000000003')


@target('C12', 'atomUeqFlat5', CELLP + UP, doc='Atom.ueq, |U33|+|U23|+|U13|+|U12| = 1e-5', calls=['sqrt'], expect=PARSE_EVENTS)
def atom_ueq_flat5(t):
    return list(read_flat(t, FLAT5).atoms)[0].ueq


@target('C12', 'atomUeqFlat7', CELLP + UP, doc='Atom.ueq, |U33|+|U23|+|U13|+|U12| = 7e-7', calls=['sqrt'], expect=PARSE_EVENTS)
def atom_ueq_flat7(t):
    return list(read_flat(t, FLAT7).atoms)[0].ueq


@target('C12', 'atomUeqFlat10', CELLP + UP, doc='Atom.ueq, |U33|+|U23|+|U13|+|U12| = 1e-10', calls=['sqrt'], expect=PARSE_EVENTS)
def atom_ueq_flat10(t):
    return list(read_flat(t, FLAT10).atoms)[0].ueq

"""
C02 translator: reads the per-keyword dispatch chain of `Shelxfile._parse_cards`, the constructors of the card
classes of `cards.py`, `Atom.parse_line` and `Shelxfile.is_atom` off the working tree with `ast` and writes them
as *requirement tables* (lean/ShelxModel/Extracted/C02Dispatch.lean, types in ShelxModel/C02.lean):

  per branch / constructor a flat list of guarded steps — which `spline[i]` / `p[i]` / `words[i]` is read
  (`needS/needP/needW`), which token goes through `float()` / `int()` (`toFloat/toInt/floatFrom/floatRange`),
  `pop`s, tuple unpacking, `_parse_line` calls, card constructions, reachable `raise`s (an exception constructor
  whose arguments mention an undefined name is a `NameError`, a `self.shx` that the class never assigns an
  `AttributeError`), `continue`, `lastcard = …`, and the guards they sit under (`len(spline) == n`, `len(p) > n`,
  diagnostic mode, `lastcard != 'X'`, parser flags, try/except).

Nothing is imported from the repository.  Statements without a recognised hazard are skipped (they are covered by
the digests of model_map.json and by the correspondence stream); a statement that *mentions* the tracked lists in
a way the recogniser does not understand becomes an `unknown` step (which the model treats as raising) and a
lost-message, so that the scope cannot shrink silently.
"""
from __future__ import annotations

import ast
import builtins
import re
from pathlib import Path

import extract
from extract import lean_str, lean_list, HEADER, write_if_changed

OUT = 'C02Dispatch.lean'
CMP = {ast.Eq: 'Eq', ast.NotEq: 'Ne', ast.Gt: 'Gt', ast.Lt: 'Lt', ast.GtE: 'Ge', ast.LtE: 'Le'}
NEG = {'Eq': 'Ne', 'Ne': 'Eq', 'Gt': 'Le', 'Le': 'Gt', 'Lt': 'Ge', 'Ge': 'Lt'}
FLAGS = {'frag': 'frag', 'cell': 'cell', 'sfac_table': 'sfac', 'end': 'end', 'latt': 'latt'}
MODES = {'debug': '.debug', 'verbose': '.verbose'}
PARSE_ERRS = {'ParseOrderError', 'ParseNumError', 'ParseParamError', 'ParseUnknownParam', 'ParseSyntaxError'}
PLAIN_ERRS = {'IndexError', 'ValueError', 'NameError', 'AttributeError', 'KeyError'}


def err_of(name):
    if name in PLAIN_ERRS:
        return '.' + name
    if name in PARSE_ERRS:
        return '.ParseError'
    return '.Other'


class Cond:
    """one guard atom; `lean` is the Lean term, `neg` its negation"""

    def __init__(self, kind, *args):
        self.kind, self.args = kind, args

    def lean(self):
        k, a = self.kind, self.args
        if k in ('s', 'p', 'w'):
            return f'.{k}{a[0]} {a[1]}'
        if k == 'mode':
            return '.modeIn ' + lean_list(sorted(a[0]))
        if k in ('lastEq', 'lastNe', 'flagOn', 'flagOff', 'opaque'):
            return f'.{k} {lean_str(a[0])}'
        if k in ('notCaught', 'restAlpha', 'restNotAlpha'):
            return f'.{k} {a[0]}'
        if k == 'caught':
            return f'.caught {a[0]} ' + lean_list(list(a[1]))
        if k in ('lastIn', 'lastNotIn'):
            return f'.{k} ' + lean_list([lean_str(x) for x in a[0]])
        raise ValueError(k)

    def neg(self):
        k, a = self.kind, self.args
        if k in ('s', 'p', 'w'):
            return Cond(k, NEG[a[0]], a[1])
        if k == 'mode':
            return Cond('mode', {'.quiet', '.verbose', '.debug'} - set(a[0]))
        sw = {'lastEq': 'lastNe', 'lastNe': 'lastEq', 'flagOn': 'flagOff', 'flagOff': 'flagOn',
              'restAlpha': 'restNotAlpha', 'restNotAlpha': 'restAlpha', 'lastIn': 'lastNotIn', 'lastNotIn': 'lastIn'}
        if k in ('caught', 'notCaught'):
            return Cond('opaque', 'not:try-state')
        if k in sw:
            return Cond(sw[k], *a)
        t = a[0]
        return Cond('opaque', t[4:] if t.startswith('not:') else 'not:' + t)


class Scanner:
    """walks one function body and produces the flat step list"""

    def __init__(self, module_names, classes, cls=None, self_is_parser=False):
        self.module_names = module_names      # names defined at module level (+ builtins)
        self.classes = classes                # name -> ClassDef of cards.py (and Atom)
        self.cls = cls                        # ClassDef being scanned (None for _parse_cards)
        self.self_is_parser = self_is_parser
        self.steps = []                       # (conds, catch, tryid, act)
        self.lost = []
        self.ntry = 0
        self.svar = set()                     # names of the token list (spline / atline / resi …)
        self.pvar = set()                     # names / 'self.attr' of the numeric list
        self.wvar = set()
        self.locals = set()
        self.loopvars = {}                    # loop target -> (a, b) slice of the token list it runs over
        self.enum_len = {}                    # enumerate counter name -> length of the literal list
        self.enum_fixed = {}                  # enumerate counter fixed by an enclosing `if n == k:`
        self.attr_guard = {}                  # self.attr -> list of guard lists under which __init__ assigns it
        self.depth = 0

    # ---- helpers -------------------------------------------------------------------------------------------
    def ref(self, node):
        """'name' or 'self.attr' for Name / self.attr nodes"""
        if isinstance(node, ast.Name):
            return node.id
        if isinstance(node, ast.Attribute) and isinstance(node.value, ast.Name) and node.value.id == 'self':
            return 'self.' + node.attr
        return None

    def emit(self, conds, catch, tryid, act):
        self.steps.append((list(conds), list(catch), tryid, act))

    def mro_assigns(self, attr):
        """does the class under scan (or a base) ever assign self.<attr>?"""
        seen = set()
        todo = [self.cls]
        while todo:
            c = todo.pop()
            if c is None or c.name in seen:
                continue
            seen.add(c.name)
            for n in ast.walk(c):
                if isinstance(n, ast.Attribute) and isinstance(n.ctx, ast.Store) and isinstance(n.value, ast.Name) \
                        and n.value.id == 'self' and n.attr == attr:
                    return True
                if isinstance(n, ast.AnnAssign) and isinstance(n.target, ast.Attribute) and n.target.attr == attr:
                    return True
            for st in c.body:
                if isinstance(st, (ast.Assign, ast.AnnAssign)):
                    tg = st.targets if isinstance(st, ast.Assign) else [st.target]
                    if any(isinstance(t, ast.Name) and t.id == attr for t in tg):
                        return True
                if isinstance(st, ast.FunctionDef) and st.name == attr:
                    return True
            for b in c.bases:
                if isinstance(b, ast.Name) and b.id in self.classes:
                    todo.append(self.classes[b.id])
        return False

    def find_method(self, name):
        seen = set()
        todo = [self.cls]
        while todo:
            c = todo.pop(0)
            if c is None or c.name in seen:
                continue
            seen.add(c.name)
            for st in c.body:
                if isinstance(st, ast.FunctionDef) and st.name == name:
                    return c, st
            for b in c.bases:
                if isinstance(b, ast.Name) and b.id in self.classes:
                    todo.append(self.classes[b.id])
        return None, None

    def base_kind(self):
        """'restr' if the class derives from Restraint, 'cmd' if from Command, 'own' if it overrides _parse_line"""
        c, m = self.find_method('_parse_line')
        if c is None:
            return None
        return {'Restraint': 'restr', 'Command': 'cmd'}.get(c.name, 'own')

    def undefined_in(self, node):
        """kind of error raised while *evaluating* node because of a name/attribute that does not exist"""
        for n in ast.walk(node):
            if isinstance(n, ast.Name) and isinstance(n.ctx, ast.Load):
                if n.id not in self.locals and n.id not in self.module_names and n.id != 'self':
                    return '.NameError'
            if isinstance(n, ast.Attribute) and isinstance(n.value, ast.Name) and n.value.id == 'self' and n.attr == 'shx':
                if self.self_is_parser or (self.cls is not None and not self.mro_assigns('shx')):
                    return '.AttributeError'
        return None

    def mode_of(self, node):
        """self.debug / self.shx.verbose / shx.debug ... -> '.debug' / '.verbose'"""
        if isinstance(node, ast.Attribute) and node.attr in MODES:
            v = node.value
            ok = (isinstance(v, ast.Name) and v.id in ('self', 'shx')) or \
                 (isinstance(v, ast.Attribute) and v.attr in ('shx', '_shx') and isinstance(v.value, ast.Name) and v.value.id == 'self')
            if ok and self.undefined_in(node) is None:
                return MODES[node.attr]
        return None

    # ---- guards --------------------------------------------------------------------------------------------
    def conj(self, test):
        """test -> list of (Cond, node) in evaluation order (conjunction)"""
        if isinstance(test, ast.BoolOp) and isinstance(test.op, ast.And):
            out = []
            for v in test.values:
                out += self.conj(v)
            return out
        return [(self.atom(test), test)]

    def atom(self, t):
        if isinstance(t, ast.BoolOp) and isinstance(t.op, ast.Or):
            ms = [self.mode_of(v) for v in t.values]
            if all(ms):
                return Cond('mode', set(ms))
        m = self.mode_of(t)
        if m:
            return Cond('mode', {m})
        if isinstance(t, ast.UnaryOp) and isinstance(t.op, ast.Not):
            return self.atom(t.operand).neg()
        if isinstance(t, ast.Compare) and len(t.ops) == 1 and type(t.ops[0]) in CMP:
            l, r = t.left, t.comparators[0]
            op = CMP[type(t.ops[0])]
            if isinstance(l, ast.Call) and isinstance(l.func, ast.Name) and l.func.id == 'len' and len(l.args) == 1 \
                    and isinstance(r, ast.Constant) and isinstance(r.value, int):
                which = self.which(l.args[0])
                if which:
                    return Cond(which, op, r.value)
            if isinstance(l, ast.Name) and l.id == 'lastcard' and isinstance(r, ast.Constant) and op in ('Eq', 'Ne'):
                return Cond('last' + op, r.value)
        if isinstance(t, ast.Compare) and len(t.ops) == 1 and isinstance(t.ops[0], (ast.In, ast.NotIn)) and isinstance(t.left, ast.Name) \
                and t.left.id == 'lastcard' and isinstance(t.comparators[0], (ast.Tuple, ast.List)) \
                and all(isinstance(e, ast.Constant) for e in t.comparators[0].elts):
            return Cond('lastIn' if isinstance(t.ops[0], ast.In) else 'lastNotIn', [e.value for e in t.comparators[0].elts])
        # ''.join(spline[a:]).isalpha()
        if isinstance(t, ast.Call) and isinstance(t.func, ast.Attribute) and t.func.attr == 'isalpha' and isinstance(t.func.value, ast.Call) \
                and isinstance(t.func.value.func, ast.Attribute) and t.func.value.func.attr == 'join' and t.func.value.args:
            sb = self.slice_bounds(t.func.value.args[0])
            if sb and sb[1] is None:
                return Cond('restAlpha', sb[0])
        which = self.which(t)
        if which in ('p', 'w'):
            return Cond(which, 'Gt', 0)
        if self.self_is_parser and isinstance(t, ast.Attribute) and isinstance(t.value, ast.Name) and t.value.id == 'self' \
                and t.attr in FLAGS:
            return Cond('flagOn', FLAGS[t.attr])
        return Cond('opaque', ast.unparse(t))

    def which(self, node):
        r = self.ref(node)
        if r is None:
            return None
        if r in self.svar:
            return 's'
        if r in self.pvar:
            return 'p'
        if r in self.wvar:
            return 'w'
        return None

    # ---- expressions ---------------------------------------------------------------------------------------
    def const_index(self, sl):
        if isinstance(sl, ast.Constant) and isinstance(sl.value, int):
            return sl.value
        if isinstance(sl, ast.UnaryOp) and isinstance(sl.op, ast.USub) and isinstance(sl.operand, ast.Constant):
            return -sl.operand.value
        if isinstance(sl, ast.BinOp) and isinstance(sl.op, ast.Add) and isinstance(sl.left, ast.Name) \
                and sl.left.id in self.enum_len and isinstance(sl.right, ast.Constant):
            if sl.left.id in self.enum_fixed:
                return self.enum_fixed[sl.left.id] + sl.right.value
            return self.enum_len[sl.left.id] - 1 + sl.right.value
        return None

    def slice_bounds(self, node):
        """spline[a:b] -> (a, b or None) when node is a slice of the token list"""
        if isinstance(node, ast.Subscript) and self.which(node.value) == 's' and isinstance(node.slice, ast.Slice) \
                and node.slice.step is None:
            lo = node.slice.lower
            hi = node.slice.upper
            a = 0 if lo is None else self.const_index(lo)
            b = None if hi is None else self.const_index(hi)
            if a is not None and a >= 0 and (hi is None or (b is not None and b >= 0)):
                return a, b
        return None

    def expr(self, node, g):
        """emit the hazards of evaluating `node` (source order)"""
        conds, catch, tid = g
        if node is None:
            return
        if isinstance(node, ast.BoolOp) and isinstance(node.op, ast.And):
            cs = list(conds)
            for c, sub in self.conj(node):
                self.expr(sub, (cs, catch, tid))
                cs = cs + [c]
            return
        if isinstance(node, ast.IfExp):
            self.expr(node.test, g)
            c = self.atom(node.test)
            self.expr(node.body, (conds + [c], catch, tid))
            self.expr(node.orelse, (conds + [c.neg()], catch, tid))
            return
        if isinstance(node, (ast.ListComp, ast.GeneratorExp, ast.SetComp)) and len(node.generators) == 1:
            gen = node.generators[0]
            if isinstance(gen.iter, ast.Subscript) and self.which(gen.iter.value) in ('p', 'w') and isinstance(gen.iter.slice, ast.Slice) \
                    and isinstance(gen.target, ast.Name) and not gen.ifs:
                return          # p holds floats already: int(x)/float(x) of an element cannot raise, slices never do
            sb = self.slice_bounds(gen.iter)
            if sb and isinstance(gen.target, ast.Name) and not gen.ifs:
                conv = self.conv_of(node.elt, gen.target.id)
                if conv == 'float':
                    self.emit(conds, catch, tid, f'.floatFrom {sb[0]}' if sb[1] is None else f'.floatRange {sb[0]} {sb[1]}')
                    return
                if conv is None and not self.mentions_tracked(node.elt):
                    return
            if not self.mentions_tracked(node):
                for n in ast.iter_child_nodes(node):
                    pass
                return
            self.unknown(node, g)
            return
        if isinstance(node, ast.Call):
            f = node.func
            # float(spline[i]) / int(spline[i]) / float(spline[i].split('(')[0])
            if isinstance(f, ast.Name) and f.id in ('float', 'int') and len(node.args) == 1:
                subs = [n for n in ast.walk(node.args[0]) if isinstance(n, ast.Subscript) and self.which(n.value) == 's'
                        and self.const_index(n.slice) is not None]
                if len(subs) == 1 and self.const_index(subs[0].slice) >= 0:
                    self.emit(conds, catch, tid, f'.to{f.id.capitalize()} {self.const_index(subs[0].slice)}')
                    return
                lv = [n for n in ast.walk(node.args[0]) if isinstance(n, ast.Name) and n.id in self.loopvars]
                if len(lv) == 1:
                    a, b = self.loopvars[lv[0].id]
                    per = [c for c in conds if c.kind == 'opaque' and re.search(r'\b%s\b' % lv[0].id, c.args[0])]
                    rest = [c for c in conds if c not in per]
                    if f.id == 'float' and not per:
                        self.emit(conds, catch, tid, f'.floatFrom {a}' if b is None else f'.floatRange {a} {b}')
                        return
                    if f.id == 'int' and b is None and len(per) == 1 and per[0].args[0].startswith('not:') and '.search(' in per[0].args[0]:
                        # every token without a letter goes through int()
                        self.emit(rest, catch, tid, f'.intNonWord {a}')
                        return
                    if per and all('.search(' in c.args[0] and not c.args[0].startswith('not:') for c in per[:1]):
                        return      # conversions of a *part* of a word-like token (chain:number): value level, not modelled
                    self.unknown(node, g)
                    return
            # x.pop(i)
            if isinstance(f, ast.Attribute) and f.attr == 'pop' and self.which(f.value):
                w = self.which(f.value)
                i = self.const_index(node.args[0]) if node.args else None
                if w == 's' and i is not None and i >= 0:
                    self.emit(conds, catch, tid, f'.popS {i}')
                    return
                if w == 'p' and i == 0:
                    self.emit(conds, catch, tid, '.popP')
                    return
                self.unknown(node, g)
                return
            # Cls(self, spline)
            if isinstance(f, ast.Name) and f.id in self.classes and len(node.args) == 2 and self.which(node.args[1]) == 's':
                self.emit(conds, catch, tid, f'.card {lean_str(f.id)}')
                return
            # a.parse_line(spline, ...)   (Atom)
            if isinstance(f, ast.Attribute) and f.attr == 'parse_line' and node.args and self.which(node.args[0]) == 's':
                self.emit(conds, catch, tid, '.card "Atom"')
                return
            # self.sfac_table.parse_element_line(spline)
            if isinstance(f, ast.Attribute) and f.attr == 'parse_element_line' and node.args and self.which(node.args[0]) == 's':
                self.emit(conds, catch, tid, '.card "SFACTable.parse_element_line"')
                self.emit(conds, [], 0, '.setFlag "sfac" true')
                return
            # self._parse_line(spline[, intnums=…])
            if isinstance(f, ast.Attribute) and f.attr == '_parse_line' and isinstance(f.value, ast.Name) and f.value.id == 'self' \
                    and node.args and self.which(node.args[0]) == 's':
                kind = self.base_kind()
                if kind == 'cmd':
                    intn = False
                    for kw in node.keywords:
                        if kw.arg == 'intnums' and isinstance(kw.value, ast.Constant):
                            intn = bool(kw.value.value)
                    if len(node.args) > 1 and isinstance(node.args[1], ast.Constant):
                        intn = bool(node.args[1].value)
                    self.emit(conds, catch, tid, f'.parseCmd {"true" if intn else "false"}')
                elif kind == 'restr':
                    self.emit(conds, catch, tid, '.parseRestr')
                elif kind == 'own':
                    c, m = self.find_method('_parse_line')
                    self.inline(m, node, g)
                else:
                    self.unknown(node, g)
                return
            # self.helper(...) of the same class: inline
            if isinstance(f, ast.Attribute) and isinstance(f.value, ast.Name) and f.value.id == 'self' and self.cls is not None:
                c, m = self.find_method(f.attr)
                if m is not None and self.depth < 3 and f.attr not in ('__init__',):
                    for a in node.args:
                        self.expr(a, g)
                    self.inline(m, node, g)
                    return
            for a in list(node.args) + [k.value for k in node.keywords]:
                self.expr(a, g)
            if isinstance(f, ast.Attribute):
                self.expr(f.value, g)
            elif isinstance(f, ast.Name):
                self.name(f, g)
            return
        if isinstance(node, ast.Subscript):
            w = self.which(node.value)
            if w:
                if isinstance(node.slice, ast.Slice):
                    return
                i = self.const_index(node.slice)
                if i is None:
                    self.unknown(node, g)
                    return
                if i < 0:
                    i = -i - 1
                self.emit(conds, catch, tid, f'.need{w.upper()} {i}')
                return
            self.expr(node.value, g)
            self.expr(node.slice, g)
            return
        if isinstance(node, ast.Name):
            self.name(node, g)
            return
        if isinstance(node, ast.Attribute) and isinstance(node.ctx, ast.Load) and self.cls is not None and self.ref(node) in self.attr_guard:
            gs = self.attr_guard[self.ref(node)]
            if gs and all(len(x) == 1 for x in gs) and len({x[0].lean() for x in gs}) == 1:
                # e.g. `self.d` of DFIX is assigned under `len(p) > 0` only: reading it otherwise is an AttributeError
                self.emit(conds + [gs[0][0].neg()], catch, tid, '.raise .AttributeError')
        if isinstance(node, ast.Attribute):
            if isinstance(node.value, ast.Name) and node.value.id == 'self' and node.attr == 'shx' and not self.self_is_parser \
                    and self.cls is not None and not self.mro_assigns('shx'):
                self.emit(conds, catch, tid, '.raise .AttributeError')
                return
            if self.self_is_parser and isinstance(node.value, ast.Name) and node.value.id == 'self' and node.attr == 'shx':
                self.emit(conds, catch, tid, '.raise .AttributeError')
                return
            self.expr(node.value, g)
            return
        for ch in ast.iter_child_nodes(node):
            if isinstance(ch, ast.expr):
                self.expr(ch, g)

    def name(self, node, g):
        if isinstance(node.ctx, ast.Load) and node.id not in self.locals and node.id not in self.module_names and node.id != 'self':
            self.emit(g[0], g[1], g[2], '.raise .NameError')

    def conv_of(self, elt, var):
        if isinstance(elt, ast.Call) and isinstance(elt.func, ast.Name) and elt.func.id in ('float', 'int') and len(elt.args) == 1 \
                and isinstance(elt.args[0], ast.Name) and elt.args[0].id == var:
            return elt.func.id
        return None

    def mentions_tracked(self, node):
        for n in ast.walk(node):
            if self.which(n):
                return True
            if isinstance(n, ast.Name) and n.id in self.loopvars:
                return True
        return False

    def unknown(self, node, g):
        txt = ast.unparse(node)[:80]
        self.emit(g[0], g[1], g[2], f'.unknown {lean_str(txt)}')
        self.lost.append(txt)

    def inline(self, m, call, g):
        """scan the body of a helper method with the caller's tracked lists mapped to its parameters"""
        params = [a.arg for a in m.args.args][1:]
        saved = (set(self.svar), set(self.pvar), set(self.wvar), set(self.locals))
        for p, a in zip(params, call.args):
            w = self.which(a)
            if w == 's':
                self.svar.add(p)
            elif w == 'p':
                self.pvar.add(p)
            elif w == 'w':
                self.wvar.add(p)
        self.locals |= local_names(m)
        self.depth += 1
        self.walk(m.body, g)
        self.depth -= 1
        self.svar, self.pvar, self.wvar, self.locals = saved

    # ---- statements ----------------------------------------------------------------------------------------
    def walk(self, stmts, g):
        conds, catch, tid = g
        for st in stmts:
            if isinstance(st, ast.If) and isinstance(st.test, ast.Compare) and isinstance(st.test.left, ast.Name) \
                    and st.test.left.id in self.enum_len and isinstance(st.test.ops[0], ast.Eq) \
                    and isinstance(st.test.comparators[0], ast.Constant) and not st.orelse:
                self.enum_fixed[st.test.left.id] = st.test.comparators[0].value
                self.walk(st.body, g)
                del self.enum_fixed[st.test.left.id]
            elif isinstance(st, ast.If):
                cs = list(conds)
                for c, sub in self.conj(st.test):
                    self.expr(sub, (cs, catch, tid))
                    cs = cs + [c]
                self.walk(st.body, (cs, catch, tid))
                if st.orelse:
                    atoms = self.conj(st.test)
                    if len(atoms) == 1:
                        ncs = conds + [atoms[0][0].neg()]
                    else:
                        ncs = conds + [Cond('opaque', 'not:(' + ast.unparse(st.test) + ')')]
                    self.walk(st.orelse, (ncs, catch, tid))
            elif isinstance(st, ast.Try):
                self.ntry += 1
                k = self.ntry
                def hclasses(h):
                    t = h.type
                    if t is None:
                        return sorted('.' + c for c in list(PLAIN_ERRS) + ['ParseError', 'Other'])
                    names = [t] if not isinstance(t, ast.Tuple) else list(t.elts)
                    out = []
                    for n in names:
                        if isinstance(n, ast.Name):
                            out.append(n.id if n.id in PLAIN_ERRS else ('ParseError' if n.id in PARSE_ERRS else 'Other'))
                    return sorted(set('.' + c for c in out))
                cl = sorted(set(c for h in st.handlers for c in hclasses(h)))
                self.walk(st.body, (conds + [Cond('notCaught', k)], cl, k))
                for h in st.handlers:
                    hc = hclasses(h)
                    self._caught_class = hc[0] if hc else '.Other'
                    self.walk(h.body, (conds + [Cond('caught', k, hc)], catch, tid))
                self.walk(st.orelse, (conds + [Cond('notCaught', k)], catch, tid))
                self.walk(st.finalbody, g)
            elif isinstance(st, ast.With):
                self.walk(st.body, g)
            elif isinstance(st, ast.For):
                sb = None
                it = st.iter
                tgt = st.target
                if isinstance(it, ast.Call) and isinstance(it.func, ast.Name) and it.func.id == 'enumerate' and it.args:
                    inner = it.args[0]
                    if isinstance(tgt, ast.Tuple) and len(tgt.elts) == 2 and isinstance(tgt.elts[0], ast.Name):
                        if isinstance(inner, (ast.List, ast.Tuple)):
                            self.enum_len[tgt.elts[0].id] = len(inner.elts)
                        it, tgt = inner, tgt.elts[1]
                sb = self.slice_bounds(it)
                if sb is None and self.which(it) == 's':
                    sb = (0, None)
                if sb and isinstance(tgt, ast.Name):
                    self.loopvars[tgt.id] = sb
                else:
                    self.expr(st.iter, g)
                self.walk(st.body, g)
            elif isinstance(st, ast.Raise):
                if st.exc is None:
                    self.emit(conds, catch, tid, f'.raise {getattr(self, "_caught_class", ".Other")}')
                    continue
                und = self.undefined_in(st.exc)
                if und:
                    self.emit(conds, catch, tid, f'.raise {und}')
                    continue
                exc = st.exc.func if isinstance(st.exc, ast.Call) else st.exc
                self.emit(conds, catch, tid, f'.raise {err_of(exc.id if isinstance(exc, ast.Name) else "?")}')
            elif isinstance(st, ast.Continue):
                self.emit(conds, [], 0, '.stop')
            elif isinstance(st, (ast.Assign, ast.AnnAssign, ast.AugAssign, ast.Expr, ast.Return)):
                val = st.value
                tgts = st.targets if isinstance(st, ast.Assign) else ([st.target] if hasattr(st, 'target') else [])
                # p, w = self._parse_line(...)
                if isinstance(val, ast.Call) and isinstance(val.func, ast.Attribute) and val.func.attr == '_parse_line' and tgts:
                    self.expr(val, g)
                    t = tgts[0]
                    if isinstance(t, ast.Tuple) and len(t.elts) == 2 and self.base_kind() in ('cmd', 'restr'):
                        a, b = self.ref(t.elts[0]), self.ref(t.elts[1])
                        if a:
                            self.pvar.add(a)
                        if b:
                            self.wvar.add(b)
                    continue
                # a, b = p
                if tgts and isinstance(tgts[0], ast.Tuple) and self.which(val) == 'p':
                    self.emit(conds, catch, tid, f'.unpackP {len(tgts[0].elts)}')
                    continue
                self.expr(val, g)
                if self.cls is not None and self.depth == 0:
                    for t in tgts:
                        for tt in (t.elts if isinstance(t, ast.Tuple) else [t]):
                            r = self.ref(tt)
                            if r and r.startswith('self.'):
                                own = [c for c in conds if c.kind not in ('notCaught',)]
                                self.attr_guard.setdefault(r, []).append(own)
                for t in tgts:
                    if isinstance(t, ast.Name) and t.id == 'lastcard' and isinstance(val, ast.Constant):
                        self.emit(conds, [], 0, f'.setLast {lean_str(val.value)}')
                    if self.self_is_parser and self.ref(t) and self.ref(t).startswith('self.') and self.ref(t)[5:] in FLAGS:
                        v = not (isinstance(val, ast.Constant) and val.value in (None, False))
                        self.emit(conds, [], 0, f'.setFlag {lean_str(FLAGS[self.ref(t)[5:]])} {"true" if v else "false"}')
                    if isinstance(t, ast.Subscript):
                        self.expr(t.value, g)
            elif isinstance(st, (ast.Pass, ast.Break, ast.Global, ast.Import, ast.ImportFrom)):
                pass
            elif isinstance(st, ast.While):
                self.walk(st.body, g)
            else:
                if self.mentions_tracked(st):
                    self.unknown(st, g)


def local_names(fn):
    out = {a.arg for a in fn.args.args + fn.args.kwonlyargs}
    if fn.args.vararg:
        out.add(fn.args.vararg.arg)
    if fn.args.kwarg:
        out.add(fn.args.kwarg.arg)
    for n in ast.walk(fn):
        if isinstance(n, ast.Name) and isinstance(n.ctx, (ast.Store, ast.Del)):
            out.add(n.id)
        if isinstance(n, ast.ExceptHandler) and n.name:
            out.add(n.name)
    return out


def module_level_names(tree):
    out = set(dir(builtins))
    for st in tree.body:
        if isinstance(st, (ast.FunctionDef, ast.ClassDef)):
            out.add(st.name)
        elif isinstance(st, (ast.Import, ast.ImportFrom)):
            for a in st.names:
                out.add((a.asname or a.name).split('.')[0])
        elif isinstance(st, (ast.Assign, ast.AnnAssign)):
            for t in (st.targets if isinstance(st, ast.Assign) else [st.target]):
                for n in ast.walk(t):
                    if isinstance(n, ast.Name):
                        out.add(n.id)
        elif isinstance(st, (ast.If, ast.Try)):
            if isinstance(st, ast.If) and '__name__' in ast.unparse(st.test):
                continue          # names bound only when the module runs as a script do not exist for the library
            for n in ast.walk(st):
                if isinstance(n, (ast.Import, ast.ImportFrom)):
                    for a in n.names:
                        out.add((a.asname or a.name).split('.')[0])
                if isinstance(n, ast.Name) and isinstance(n.ctx, ast.Store):
                    out.add(n.id)
    return out


def encode(s):
    n = 0
    for ch in s:
        n = n * 256 + ord(ch)
    return n


def lean_steps(steps, indent='      '):
    rows = []
    for conds, catch, tid, act in steps:
        parts = []
        if conds:
            parts.append('conds := ' + lean_list([c.lean() for c in conds]))
        if catch:
            parts.append('catches := ' + lean_list(catch))
            parts.append(f'tid := {tid}')
        parts.append(f'act := {act}')
        rows.append(indent + '{ ' + ', '.join(parts) + ' }')
    return '[\n' + ',\n'.join(rows) + ']' if rows else '[]'


def branch_test(test):
    """the keyword test of one arm of the chain -> Lean `Test` (or None when it is not a keyword test)"""
    first = test.values[0] if isinstance(test, ast.BoolOp) and isinstance(test.op, ast.And) else test
    if isinstance(first, ast.Compare) and len(first.ops) == 1 and isinstance(first.left, ast.Name) and first.left.id == 'word':
        r = first.comparators[0]
        if isinstance(first.ops[0], ast.Eq) and isinstance(r, ast.Constant):
            return f'.wordEq {lean_str(r.value)} {encode(r.value)}', first is test
        if isinstance(first.ops[0], ast.In) and isinstance(r, (ast.List, ast.Tuple)) and all(isinstance(e, ast.Constant) for e in r.elts):
            return '.wordIn ' + lean_list([lean_str(e.value) for e in r.elts]) + ' ' + lean_list([str(encode(e.value)) for e in r.elts]), first is test
    if isinstance(first, ast.Call) and isinstance(first.func, ast.Attribute) and first.func.attr == 'startswith' \
            and isinstance(first.func.value, ast.Name) and first.func.value.id == 'line' and len(first.args) == 1:
        a = first.args[0]
        if isinstance(a, ast.Constant):
            return f'.starts {lean_str(a.value)} {encode(a.value)}', first is test
        return 'RESET', False          # line.startswith(('END', 'HKLF')) and self.xxx : context reset block
    if isinstance(first, ast.Call) and isinstance(first.func, ast.Attribute) and first.func.attr == 'is_atom':
        return '.isAtom', first is test
    return None, False


def fallback(out: Path):
    write_if_changed(out / OUT, HEADER + 'import ShelxModel.C02\nnamespace Shelx.C02.Extracted\nopen Shelx.C02\n'
                     'def tables : Tables := { shxCards := [], dispatch := [], cards := [], atomMinCols := 5 }\n'
                     'end Shelx.C02.Extracted\n')


@extract.extractor
def c02_tables(repo: Path, out: Path):
    lost = []
    shelx = extract.parse(repo, 'shelxfile/shelx/shelx.py')
    cards = extract.parse(repo, 'shelxfile/shelx/cards.py')
    atom = extract.parse(repo, 'shelxfile/atoms/atom.py')
    # SHX_CARDS -------------------------------------------------------------------------------------------------
    shx_cards = None
    for st in shelx.body:
        if isinstance(st, ast.Assign) and any(isinstance(t, ast.Name) and t.id == 'SHX_CARDS' for t in st.targets):
            shx_cards = list(ast.literal_eval(st.value))
    if shx_cards is None:
        raise ValueError('SHX_CARDS not found')
    # is_atom: minimum number of columns -----------------------------------------------------------------------
    isatom = extract.find(shelx, 'Shelxfile.is_atom')
    mincols = None
    for n in ast.walk(isatom):
        if isinstance(n, ast.Compare) and isinstance(n.left, ast.Call) and getattr(n.left.func, 'id', '') == 'len' \
                and isinstance(n.ops[0], ast.Lt) and isinstance(n.comparators[0], ast.Constant):
            mincols = n.comparators[0].value
    if mincols is None:
        lost.append(dict(props=['C02'], what='is_atom: `len(spline) < n` not found'))
        mincols = 5
    # is_atom: is the `> 4.0` test applied to the raw coordinate (then 10.25 is refused) or to the decoded one?
    unreal = extract.find(shelx, 'Shelxfile._coordinates_are_unrealistic') or isatom
    has_limit = any(isinstance(n, ast.Compare) and isinstance(n.ops[0], (ast.Gt, ast.GtE)) and isinstance(n.comparators[0], ast.Constant)
                    and isinstance(n.comparators[0].value, float) for n in ast.walk(unreal))
    decodes = any(isinstance(n, ast.Name) and n.id == 'split_fvar_and_parameter' for n in ast.walk(unreal))
    rejects_big = has_limit and not decodes
    # Command._parse_line: does a leading '.' start a number?
    cpl = extract.find(cards, 'Command._parse_line')
    dot = False
    if cpl is None:
        lost.append(dict(props=['C02'], what='Command._parse_line not found'))
    else:
        for n in ast.walk(cpl):
            if isinstance(n, ast.If) and any(isinstance(c, ast.Call) and getattr(c.func, 'attr', '') == 'isdigit' for c in ast.walk(n.test)):
                dot = any(isinstance(c, ast.Constant) and isinstance(c.value, str) and '.' in c.value for c in ast.walk(n.test))
    # keyword case: the model's lines carry the keyword in upper case; that abstraction is sound only while every
    # place that reads the keyword off the line folds its case
    def has_upper(node):
        return any(isinstance(n, ast.Call) and isinstance(n.func, ast.Attribute) and n.func.attr == 'upper' for n in ast.walk(node))

    def assigns_upper(fn, target):
        """every assignment in fn whose target (possibly inside a tuple) is `target` takes its value through .upper()"""
        found, ok = False, True
        for n in ast.walk(fn) if fn is not None else []:
            if isinstance(n, ast.Assign):
                for t in n.targets:
                    for tt in (t.elts if isinstance(t, ast.Tuple) else [t]):
                        if ast.unparse(tt) == target:
                            found = True
                            ok = ok and has_upper(n.value)
        return found and ok
    pcf = extract.find(shelx, 'Shelxfile._parse_cards')
    word_from_upper = False
    if pcf is not None:
        upper_line = False
        for n in ast.walk(pcf):
            if isinstance(n, ast.Assign) and any(ast.unparse(t) == 'line' for t in n.targets) and has_upper(n.value):
                upper_line = True
            if isinstance(n, ast.Assign) and any(ast.unparse(t) == 'word' for t in n.targets):
                word_from_upper = upper_line or has_upper(n.value)
    case_sites = [('_parse_cards: word', word_from_upper),
                  ('is_atom: first word', has_upper(isatom)),
                  ('Command._parse_line: _card_name', assigns_upper(extract.find(cards, 'Command._parse_line'), 'self._card_name')),
                  ('Restraint._parse_line: name', assigns_upper(extract.find(cards, 'Restraint._parse_line'), 'self.name'))]
    # card classes ------------------------------------------------------------------------------------------------
    classes = {c.name: c for c in cards.body if isinstance(c, ast.ClassDef)}
    cnames = module_level_names(cards)
    card_rows = []
    for name, c in classes.items():
        init = extract.find(c, '__init__')
        if init is None or len(init.args.args) != 3:
            continue
        sc = Scanner(cnames, classes, cls=c)
        sc.locals = local_names(init)
        sc.svar = {init.args.args[2].arg}
        sc.walk(init.body, ([], [], 0))
        card_rows.append((name, sc.steps))
        lost += [dict(props=['C02'], what=f'cards.py {name}.__init__: not understood: {t}') for t in sc.lost]
    # SFACTable.parse_element_line
    sf = extract.find(cards, 'SFACTable.parse_element_line')
    if sf is not None:
        sc = Scanner(cnames, classes, cls=classes['SFACTable'])
        sc.locals = local_names(sf)
        sc.svar = {sf.args.args[1].arg}
        sc.walk(sf.body, ([], [], 0))
        card_rows.append(('SFACTable.parse_element_line', sc.steps))
        lost += [dict(props=['C02'], what=f'cards.py SFACTable.parse_element_line: not understood: {t}') for t in sc.lost]
    # Atom.parse_line
    aclass = extract.find(atom, 'Atom')
    ap = extract.find(atom, 'Atom.parse_line')
    if ap is not None:
        sc = Scanner(module_level_names(atom), {'Atom': aclass}, cls=aclass)
        sc.locals = local_names(ap)
        sc.svar = {ap.args.args[1].arg}
        sc.walk(ap.body, ([], [], 0))
        card_rows.append(('Atom', sc.steps))
        lost += [dict(props=['C02'], what=f'atom.py Atom.parse_line: not understood: {t}') for t in sc.lost]
    else:
        lost.append(dict(props=['C02'], what='Atom.parse_line not found'))
    # the dispatch chain ------------------------------------------------------------------------------------------
    pc = extract.find(shelx, 'Shelxfile._parse_cards')
    loop = next((n for n in pc.body if isinstance(n, ast.For)), None)
    if loop is None:
        raise ValueError('_parse_cards: no for loop')
    snames = module_level_names(shelx)
    all_classes = dict(classes)
    branches = []
    seen_word = False

    def scan_branch(test_lean, whole, test, body):
        sc = Scanner(snames, all_classes, cls=None, self_is_parser=True)
        sc.locals = local_names(pc)
        sc.svar = {'spline'}
        pre = []
        if not whole:     # further conjuncts of the test guard the body (none in the present code)
            pre = [c for c, _ in sc.conj(test)][1:]
        sc.walk(body, (pre, [], 0))
        branches.append((test_lean, sc.steps))
        lost.extend(dict(props=['C02'], what=f'shelx.py branch {test_lean}: not understood: {t}') for t in sc.lost)

    def chain(node):
        while True:
            t, whole = branch_test(node.test)
            if t == 'RESET':
                sc = Scanner(snames, all_classes, cls=None, self_is_parser=True)
                sc.locals = local_names(pc)
                sc.svar = {'spline'}
                sc.walk(node.body, ([], [], 0))
                if any(not a.startswith('.setFlag') for *_, a in sc.steps):
                    lost.append(dict(props=['C02'], what='context reset block of _parse_cards has requirements'))
            elif t is None:
                lost.append(dict(props=['C02'], what=f'_parse_cards: test not understood: {ast.unparse(node.test)[:60]}'))
            else:
                scan_branch(t, whole, node.test, node.body)
            if len(node.orelse) == 1 and isinstance(node.orelse[0], ast.If):
                node = node.orelse[0]
                continue
            if node.orelse:
                scan_branch('.otherwise', True, None, node.orelse)
            return

    for st in loop.body:
        if isinstance(st, ast.Assign) and any(isinstance(t, ast.Name) and t.id == 'word' for t in st.targets):
            seen_word = True
            continue
        if seen_word and isinstance(st, ast.If):
            chain(st)
    if len(branches) < 20:
        lost.append(dict(props=['C02'], what=f'_parse_cards: only {len(branches)} branches recognised'))
    # write -------------------------------------------------------------------------------------------------------
    txt = [HEADER, 'import ShelxModel.C02', 'namespace Shelx.C02.Extracted', 'open Shelx.C02', '']
    txt.append('def shxCards : List String := ' + lean_list([lean_str(s) for s in shx_cards]))
    # (codes of the right-stripped entries: `word` of the model is right-stripped)
    txt.append('def shxCodes : List Nat := ' + lean_list([str(encode(s)) for s in shx_cards]))
    txt.append(f'def atomMinCols : Nat := {mincols}')
    txt.append('def dispatch : List Branch := [')
    txt.append(',\n'.join(f'  {{ test := {t},\n    steps := {lean_steps(s)} }}' for t, s in branches))
    txt.append(']')
    order = {n: i for i, (n, _) in enumerate(card_rows)}

    def fix_idx(steps):
        out = []
        for conds, catch, tid, act in steps:
            if act.startswith('.card '):
                nm = act[len('.card '):].strip().strip('"')
                act = f'.card {lean_str(nm)} {order.get(nm, 9999)}'
            out.append((conds, catch, tid, act))
        return out
    branches = [(t, fix_idx(s)) for t, s in branches]
    txt = [x for x in txt if not x.startswith('def dispatch') ]
    # re-emit the dispatch with resolved card indices
    txt = txt[:txt.index(next(x for x in txt if x.startswith('def atomMinCols'))) + 1]
    txt.append('def dispatch : List Branch := [')
    txt.append(',\n'.join(f'  {{ test := {t},\n    steps := {lean_steps(s)} }}' for t, s in branches))
    txt.append(']')
    txt.append('def cards : List CardReq := [')
    txt.append(',\n'.join(f'  {{ name := {lean_str(n)},\n    steps := {lean_steps(s)} }}' for n, s in card_rows))
    txt.append(']')
    txt.append(f'def dotNumeric : Bool := {"true" if dot else "false"}')
    txt.append(f'def atomRejectsBig : Bool := {"true" if rejects_big else "false"}')
    txt.append('def caseSites : List (String × Bool) := ' + lean_list([f'({lean_str(a)}, {"true" if b else "false"})' for a, b in case_sites]))
    txt.append('def tables : Tables := { shxCards := shxCards, shxCodes := shxCodes, dispatch := dispatch, cards := cards, atomMinCols := atomMinCols,\n'
               '                         dotNumeric := dotNumeric, atomRejectsBig := atomRejectsBig, caseSites := caseSites, assumedFalse := assumed }')
    txt.append('end Shelx.C02.Extracted')
    write_if_changed(out / OUT, '\n'.join(txt) + '\n')
    return lost


c02_tables.props = ['C02']
c02_tables.fallback = fallback

"""
C02 translator: writes the *requirement tables* of lean/ShelxModel/Extracted/C02Dispatch.lean (types in
ShelxModel/C02.lean) from the working tree of the repository:

  per keyword of the dispatch chain of `Shelxfile._parse_cards` and per card constructor of `cards.py` (+
  `Atom.parse_line`, `SFACTable.parse_element_line`) a flat list of guarded steps — which `spline[i]` / `p[i]` /
  `words[i]` is read (`needS/needP/needW`), which token goes through `float()` / `int()`, `pop`s, tuple unpacking,
  `_parse_line` calls, card constructions, reachable `raise`s (an undefined name on the way is a `NameError`, a
  `self.shx` the class never assigns an `AttributeError`), `continue`, `lastcard = …`, and the guards they sit under.

Three readers work together (so that a behaviour-preserving respelling of the source does not change the table):

  * c02_reader.py — an abstract interpreter over the syntax tree: values instead of names (renamed locals, helper
    methods / functions / static methods / properties the code was moved into are followed, module-level and class-level
    constants and regular expressions are evaluated, loops over constant tables unrolled, comparisons normalised, early
    `return` / `continue` turned into guards, tuple assignment, `zip` / `setattr` tables …);
  * c02_probe.py — the small pure functions whose *behaviour* is what the model assumes (`Command._parse_line`,
    `Restraint._parse_line`, `is_atom`, the keyword table, case folding) are imported from the tree in a separate
    interpreter and called on a fixed battery; an answer that does not have the shape the model assumes is a lost table;
  * c02_assume.py — tests on values are recognised by what they compute on sample states, not by their text.

The chain itself is read per keyword: the loop body of `_parse_cards` is a sequence of statements, some of them
`if`/`elif` chains (or `match`) on the keyword; for one keyword, the handler is what the statements do in order for a
line with that keyword (the matching arm of each chain, up to the first `continue`).  So an `if … continue` sequence,
an `if/elif` chain, a membership test against a named frozenset and blocks merged or split differently all give the
same table.

A statement that *mentions* the tracked lists in a way the reader does not understand becomes an `unknown` step (which
the model treats as raising) and a lost-message, so that the scope cannot shrink silently.
"""
from __future__ import annotations

import ast
import json
import subprocess
import sys
from pathlib import Path

import extract
from extract import lean_str, lean_list, HEADER, write_if_changed

HERE = Path(__file__).resolve().parent
if str(HERE) not in sys.path:
    sys.path.insert(0, str(HERE))

import c02_reader as R                 # noqa: E402
from c02_consts import Program, ClassRef, NotConst      # noqa: E402
from c02_values import Toks, Unk, ShxV, SelfV, Line, Last      # noqa: E402

OUT = 'C02Dispatch.lean'
SHELX = 'shelxfile.shelx.shelx'
CARDS = 'shelxfile.shelx.cards'
ATOM = 'shelxfile.atoms.atom'


def encode(s):
    n = 0
    for ch in s:
        n = n * 256 + ord(ch)
    return n


def lean_steps(steps, indent='      '):
    rows = []
    for conds, catch, tid, act in steps:
        parts = []
        if conds:
            parts.append('conds := ' + lean_list([c.lean() for c in conds]))
        if catch:
            parts.append('catches := ' + lean_list(catch))
            parts.append(f'tid := {tid}')
        parts.append(f'act := {act}')
        rows.append(indent + '{ ' + ', '.join(parts) + ' }')
    return '[\n' + ',\n'.join(rows) + ']' if rows else '[]'


def fallback(out: Path):
    write_if_changed(out / OUT, HEADER + 'import ShelxModel.C02\nnamespace Shelx.C02.Extracted\nopen Shelx.C02\n'
                     'def tables : Tables := { shxCards := [], dispatch := [], cards := [], atomMinCols := 5 }\n'
                     'end Shelx.C02.Extracted\n')


def run_probe(repo):
    p = subprocess.run([sys.executable, str(HERE / 'c02_probe.py'), '--repo', str(repo)], stdout=subprocess.PIPE, stderr=subprocess.PIPE,
                       text=True, timeout=120, env={'PATH': '/usr/bin:/bin', 'PYTHONDONTWRITEBYTECODE': '1', 'PYTHONHASHSEED': '0'})
    if p.returncode != 0:
        return dict(problems=[f'c02_probe.py failed: {p.stderr[-300:]}'])
    try:
        return json.loads(p.stdout[p.stdout.index('{'):])
    except ValueError:
        return dict(problems=[f'c02_probe.py printed no result: {p.stdout[-200:]} {p.stderr[-200:]}'])


# ----------------------------------------------------------------------------------------------------------------
# the dispatch chain

def find_statevar(cls_node, fn):
    """the variable that remembers the last header keyword: assigned string constants and compared with string constants"""
    def ref(n):
        if isinstance(n, ast.Name):
            return n.id
        if isinstance(n, ast.Attribute) and isinstance(n.value, ast.Name) and n.value.id == 'self':
            return 'self.' + n.attr
        return None

    def strs(n):
        if isinstance(n, ast.Constant):
            return isinstance(n.value, str)
        if isinstance(n, (ast.Tuple, ast.List, ast.Set)):
            return bool(n.elts) and all(isinstance(e, ast.Constant) and isinstance(e.value, str) for e in n.elts)
        return False
    assigned, compared = {}, {}
    scope = [fn] + [s for s in cls_node.body if isinstance(s, ast.FunctionDef) and s is not fn]
    for f in scope:
        for n in ast.walk(f):
            if isinstance(n, ast.Assign) and len(n.targets) == 1 and isinstance(n.value, ast.Constant) and isinstance(n.value.value, str):
                r = ref(n.targets[0])
                if r and (f is fn or r.startswith('self.')):
                    assigned[r] = assigned.get(r, 0) + 1
            if isinstance(n, ast.Compare) and len(n.ops) == 1 and isinstance(n.ops[0], (ast.Eq, ast.NotEq, ast.In, ast.NotIn)):
                r = ref(n.left)
                if r and strs(n.comparators[0]) and (f is fn or r.startswith('self.')):
                    compared[r] = compared.get(r, 0) + 1
    cands = [r for r in assigned if r in compared and assigned[r] >= 2]
    cands.sort(key=lambda r: -(assigned[r] + compared[r]))
    return cands[0] if cands else None


def parser_attr_classes(prog, shelx_cls):
    """self.<attr> = Cls(...) in Shelxfile.__init__: parser attribute -> class"""
    out = {}
    r, init = prog.method(shelx_cls, '__init__')
    if init is None:
        return out
    mod = prog.module(r.mod)
    for n in ast.walk(init):
        if isinstance(n, (ast.Assign, ast.AnnAssign)) and n.value is not None and isinstance(n.value, ast.Call) and isinstance(n.value.func, ast.Name):
            tg = n.targets if isinstance(n, ast.Assign) else [n.target]
            for t in tg:
                if isinstance(t, ast.Attribute) and isinstance(t.value, ast.Name) and t.value.id == 'self':
                    try:
                        v = mod.value(n.value.func.id)
                    except NotConst:
                        continue
                    if isinstance(v, ClassRef):
                        out[t.attr] = v
    return out


class Chain:
    """reads the loop of `_parse_cards` for one keyword at a time"""

    def __init__(self, prog, prims, shelx_cls, fn, owner):
        self.prog, self.prims, self.cls, self.fn, self.owner = prog, prims, shelx_cls, fn, owner
        self.lost = []
        self.notes = []
        self.pattr = parser_attr_classes(prog, shelx_cls)
        self.statevar = find_statevar(prog.cls(owner), fn)
        self.cards_used = []

    def new_scanner(self):
        sc = R.Scanner(self.prog, self.prims, 'parser', self.pattr, self.statevar)
        fr = R.Frame(self.fn, self.prog.module(self.owner.mod), SelfV('parser', self.cls), top=True)
        fr.owner = self.owner
        fr.env['self'] = fr.selfav
        if self.statevar and not self.statevar.startswith('self.'):
            fr.env[self.statevar] = Last()
        sc.frames.append(fr)
        return sc

    def run_key(self, key):
        """the whole loop body for a line with keyword `key`: every test of the keyword is decided, everything else is read"""
        sc = self.new_scanner()
        sc.cur_key = key
        g = ([], [], 0)
        body = self.fn.body
        loop = None
        for st in body:
            if isinstance(st, ast.For) and loop is None:
                loop = st
                break
            n0 = len(sc.steps)
            sc.stmt(st, g)
            for s in sc.steps[n0:]:
                if s[3].startswith('.setLast') and s[3] != '.setLast ""':
                    self.lost.append(f'_parse_cards: the state variable does not start empty: {s[3]}')
                elif not s[3].startswith(('.setLast', '.setFlag')):
                    self.lost.append(f'_parse_cards: requirement in front of the loop: {s[3]}')
            del sc.steps[n0:]
        if loop is None:
            raise ValueError('_parse_cards: no for loop')
        spec = sc.iteration(loop.iter, g)
        tgt = loop.target
        if spec[0] == 'enumres' and isinstance(tgt, (ast.Tuple, ast.List)) and len(tgt.elts) == 2:
            sc.bind(tgt.elts[0], Unk(), g, tgt)
            sc.bind(tgt.elts[1], Line(), g, tgt)
        elif spec[0] == 'other' and type(spec[1]).__name__ == 'ResList':
            sc.bind(tgt, Line(), g, tgt)
        else:
            self.lost.append('_parse_cards: the loop does not run over the lines of the file')
            sc.bind(tgt, Unk(), g, tgt)
        del sc.steps[:]
        sc.dead = False
        sc.walk(loop.body, g)
        return sc


def scan_card(prog, prims, row, cls, meth, sig, pattr):
    r, fn = prog.method(cls, meth)
    sc = R.Scanner(prog, prims, 'card', pattr, None)
    fr = R.Frame(fn, prog.module(r.mod), SelfV('card', cls), top=True)
    fr.owner = r
    a = fn.args
    params = [x.arg for x in a.posonlyargs + a.args]
    fr.env[params[0]] = fr.selfav
    roles = {}
    for p, role in zip(params[1:], sig[0]):
        roles[p] = role
    for k, role in sig[1]:
        roles[k] = role
    for p in params[1:] + [x.arg for x in a.kwonlyargs]:
        role = roles.get(p, 'unk')
        fr.env[p] = Toks('s') if role == 'S' else ShxV() if role == 'shx' else Unk()
    sc.frames.append(fr)
    sc.stack.append(fn)
    sc.walk(fn.body, ([], [], 0))
    return sc


@extract.extractor
def c02_tables(repo: Path, out: Path):
    lost = []

    def lose(what):
        lost.append(dict(props=['C02'], what=what))
    prog = Program(repo)
    shelx = prog.module(SHELX)
    if shelx is None or 'Shelxfile' not in shelx.classes:
        raise ValueError('shelx.py: class Shelxfile not found')
    shelx_cls = ClassRef(SHELX, 'Shelxfile')
    owner, pcf = prog.method(shelx_cls, '_parse_cards')
    if pcf is None:
        raise ValueError('Shelxfile._parse_cards not found')
    # ---- behaviour of the small pure functions ---------------------------------------------------------------
    probe = run_probe(repo)
    for p in probe.get('problems', []):
        lose('probe: ' + p)
    prims = {}
    dot = None
    upper = {'cmd': False, 'restr': False}
    for e in probe.get('primitives', []):
        for p in e['problems']:
            lose('probe: ' + p)
        prims[(e['cls'], e['name'])] = dict(kind=e['kind'], flag=e.get('flag'))
        if e['kind'] == 'cmd':
            dot = e.get('dot') if dot is None else (dot if dot == e.get('dot') else 'differ')
        upper[e['kind']] = e.get('upper', False) if not [x for x in probe['primitives'] if x['kind'] == e['kind'] and x is not e] \
            else all(x.get('upper', False) for x in probe['primitives'] if x['kind'] == e['kind'])
    if dot is None or dot == 'differ':
        lose('Command._parse_line: whether a leading `.` starts a number could not be established')
        dot = False
    ia = probe.get('is_atom') or {}
    mincols = ia.get('mincols')
    if mincols is None:
        lose('is_atom: the minimum number of columns could not be established')
        mincols = 5
    rejects_big = ia.get('rejects_big')
    if rejects_big is None:
        lose('is_atom: the treatment of coordinates above 4.0 could not be established')
        rejects_big = True
    shx_cards = probe.get('shx_cards')
    if not shx_cards:
        raise ValueError('SHX_CARDS not found')
    case = probe.get('case', {})
    case_sites = [('_parse_cards: word', bool(case.get('parse_cards'))),
                  ('is_atom: first word', bool(case.get('is_atom'))),
                  ('Command._parse_line: _card_name', bool(upper['cmd'])),
                  ('Restraint._parse_line: name', bool(upper['restr']))]
    # ---- the dispatch chain, keyword by keyword -----------------------------------------------------------------
    ch = Chain(prog, prims, shelx_cls, pcf, owner)
    if ch.statevar is None:
        lose('_parse_cards: no variable that remembers the last header keyword found')
    first = ch.run_key(('else', ''))          # first pass: which keywords does the loop test for, in which order
    ch.lost = []
    keys = [k for k in first.kw_seen if k != ('else', '')]
    branches = []           # (key, steps)
    cards_used = []
    done = set()
    while True:
        todo = [k for k in keys + [('else', '')] if k not in done]
        if not todo:
            break
        for key in todo:
            done.add(key)
            sc = ch.run_key(key)
            branches.append((key, sc.steps))
            cards_used += sc.cards_used
            name = {'word': key[1], 'starts': key[1], 'atom': 'is_atom', 'else': 'else'}[key[0]]
            for t in sc.lost:
                lose(f'shelx.py branch {name}: not understood: {t}')
            for k in sc.kw_seen:            # a keyword that is only tested for inside the handler of another one
                if k not in keys and k != ('else', ''):
                    keys.append(k)
    order_of = {k: i for i, k in enumerate(keys + [('else', '')])}
    branches.sort(key=lambda b: order_of[b[0]])
    seen_lost = set()
    for t in ch.lost:
        if t not in seen_lost:
            seen_lost.add(t)
            lose(t)
    if len(branches) < 20:
        lose(f'_parse_cards: only {len(branches)} branches recognised')
    # ---- card rows (on demand) -----------------------------------------------------------------------------------
    rows, order, sigs = [], {}, {}
    todo = list(cards_used)
    while todo:
        row, cls, meth, sig = todo.pop(0)
        if row in order:
            if sigs[row] != sig:
                lose(f'{row}: constructed with different argument roles: {sigs[row]} / {sig}')
            continue
        order[row] = len(rows)
        sigs[row] = sig
        rows.append(None)
        sc = scan_card(prog, prims, row, cls, meth, sig, ch.pattr)
        rows[order[row]] = (row, sc.steps)
        for t in sc.lost:
            lose(f'{prog.module(cls.mod).path.name} {row}: not understood: {t}')
        todo += sc.cards_used

    def fix_idx(steps):
        res = []
        for conds, catch, tid, act in steps:
            if act.startswith('.card '):
                nm = act[len('.card '):].strip().strip('"')
                act = f'.card {lean_str(nm)} {order.get(nm, 9999)}'
            res.append((conds, catch, tid, act))
        return res
    # ---- group keywords that share one arm and one handler (word in (...)) -----------------------------------------
    grouped = []
    for key, steps in branches:
        steps = fix_idx(steps)
        txt = lean_steps(steps)
        if key[0] == 'word' and grouped and grouped[-1][0][0][0] == 'word' and grouped[-1][2] == txt:
            grouped[-1][0].append(key)
        else:
            grouped.append(([key], steps, txt))

    def test_of(ks):
        k = ks[0]
        if k[0] == 'atom':
            return '.isAtom'
        if k[0] == 'else':
            return '.otherwise'
        if k[0] == 'starts':
            return f'.starts {lean_str(k[1])} {encode(k[1])}'
        if len(ks) == 1:
            return f'.wordEq {lean_str(k[1])} {encode(k[1])}'
        return '.wordIn ' + lean_list([lean_str(x[1]) for x in ks]) + ' ' + lean_list([str(encode(x[1])) for x in ks])
    # ---- write -----------------------------------------------------------------------------------------------------
    txt = [HEADER, 'import ShelxModel.C02', 'namespace Shelx.C02.Extracted', 'open Shelx.C02', '']
    txt.append('def shxCards : List String := ' + lean_list([lean_str(s) for s in shx_cards]))
    # (codes of the entries: `word` of the model is right-stripped)
    txt.append('def shxCodes : List Nat := ' + lean_list([str(encode(s)) for s in shx_cards]))
    txt.append(f'def atomMinCols : Nat := {mincols}')
    txt.append('def dispatch : List Branch := [')
    txt.append(',\n'.join(f'  {{ test := {test_of(ks)},\n    steps := {t} }}' for ks, s, t in grouped))
    txt.append(']')
    txt.append('def cards : List CardReq := [')
    txt.append(',\n'.join(f'  {{ name := {lean_str(n)},\n    steps := {lean_steps(fix_idx(s))} }}' for n, s in rows))
    txt.append(']')
    txt.append(f'def dotNumeric : Bool := {"true" if dot else "false"}')
    txt.append(f'def atomRejectsBig : Bool := {"true" if rejects_big else "false"}')
    txt.append('def caseSites : List (String × Bool) := ' + lean_list([f'({lean_str(a)}, {"true" if b else "false"})' for a, b in case_sites]))
    txt.append('def tables : Tables := { shxCards := shxCards, shxCodes := shxCodes, dispatch := dispatch, cards := cards, atomMinCols := atomMinCols,\n'
               '                         dotNumeric := dotNumeric, atomRejectsBig := atomRejectsBig, caseSites := caseSites, assumedFalse := assumed }')
    txt.append('end Shelx.C02.Extracted')
    write_if_changed(out / OUT, '\n'.join(txt) + '\n')
    return lost


c02_tables.props = ['C02']
c02_tables.fallback = fallback

"""
C18 tables (DESIGN.md 3.1), read off the working tree with `ast`/text only:

  * how `SymmetryElement.to_cif` turns a translation into text
      mode 0  `self._replace_float_values(self.to_shelxl()).lower()` and the ordered replacement list
              `val = val.replace(a, b)` of `_replace_float_values`                      -> `replList`
      mode 1  the translation is formatted through `Fraction(..).limit_denominator(N)`  -> `fracLimit`
      mode 2  neither shape recognised (lost)
  * the CIF template: every `${placeholder}` (`templateTags`) and the `_data_name ${placeholder}` lines
    (`templatePairs`, with the information whether the value is quoted)
  * the keys the substitution dictionary of `CifFile._cif_dict` provides (`dictKeys`): string keys stored
    by subscript assignment or returned in dict literals by `_cif_dict` and the `self._xxx()` helpers it
    merges with `.update(...)`.

Writes lean/ShelxModel/Extracted/C18.lean.
"""
import ast
import re
from pathlib import Path

import extract

DSRMATH = 'shelxfile/misc/dsrmath.py'
CIFWRITE = 'shelxfile/cif/cif_write.py'
TEMPLATE = 'shelxfile/cif/cif_template.tmpl'


def chars(s: str) -> str:
    def one(c):
        if c == "'":
            return "'\\''"
        if c == '\\':
            return "'\\\\'"
        return f"'{c}'"
    return '[' + ', '.join(one(c) for c in s) + ']'


def _methods(cls):
    return {n.name: n for n in cls.body if isinstance(n, ast.FunctionDef)}


def _self_calls(fn):
    """names of methods called as self.<name>(...) inside fn"""
    out = []
    for n in ast.walk(fn):
        if isinstance(n, ast.Call) and isinstance(n.func, ast.Attribute) and isinstance(n.func.value, ast.Name) \
                and n.func.value.id == 'self':
            out.append(n.func.attr)
    return out


def _self_refs(fn):
    """names used as self.<name> (called or passed around) inside fn"""
    return [n.attr for n in ast.walk(fn) if isinstance(n, ast.Attribute) and isinstance(n.value, ast.Name) and n.value.id == 'self']


def op_mode(repo: Path):
    """-> (mode, limit, replacement list, lost-message or None)"""
    tree = extract.parse(repo, DSRMATH)
    cls = extract.find(tree, 'SymmetryElement')
    if cls is None:
        return 2, 0, [], 'class SymmetryElement not found in dsrmath.py'
    ms = _methods(cls)
    to_cif = ms.get('to_cif')
    if to_cif is None:
        return 2, 0, [], 'SymmetryElement.to_cif not found'
    # everything reachable from to_cif through self.<method> references (two levels are enough)
    reach = [to_cif]
    seen = {'to_cif'}
    frontier = [to_cif]
    for _ in range(3):
        nxt = []
        for f in frontier:
            for name in _self_refs(f):
                if name in ms and name not in seen:
                    seen.add(name)
                    nxt.append(ms[name])
        reach += nxt
        frontier = nxt
    # mode 1: a limit_denominator(N) call on the way
    for f in reach:
        for n in ast.walk(f):
            if isinstance(n, ast.Call) and isinstance(n.func, ast.Attribute) and n.func.attr == 'limit_denominator':
                args = list(n.args) + [k.value for k in n.keywords]
                if len(args) == 1 and isinstance(args[0], ast.Constant) and isinstance(args[0].value, int):
                    return 1, args[0].value, [], None
                if not args:
                    return 1, 1000000, [], None      # CPython's default
                if len(args) == 1 and isinstance(args[0], (ast.Name, ast.Attribute)):
                    # a named constant: NAME = <int> at module or class level
                    name = args[0].id if isinstance(args[0], ast.Name) else args[0].attr
                    for a in ast.walk(tree):
                        if isinstance(a, ast.Assign) and len(a.targets) == 1 and isinstance(a.targets[0], ast.Name) \
                                and a.targets[0].id == name and isinstance(a.value, ast.Constant) and isinstance(a.value.value, int):
                            return 1, a.value.value, [], None
                return 2, 0, [], 'limit_denominator called with a bound that is no integer constant'
    # mode 0: chain of val = val.replace('a', 'b')
    if '_replace_float_values' in seen:
        fn = ms['_replace_float_values']
        repl = []
        for st in fn.body:
            if isinstance(st, ast.Expr) and isinstance(st.value, ast.Constant):
                continue  # docstring
            if isinstance(st, ast.Return):
                continue
            ok = (isinstance(st, (ast.Assign, ast.AugAssign)) and isinstance(st.value, ast.Call)
                  and isinstance(st.value.func, ast.Attribute) and st.value.func.attr == 'replace'
                  and len(st.value.args) == 2 and all(isinstance(a, ast.Constant) and isinstance(a.value, str) for a in st.value.args))
            if not ok:
                return 2, 0, [], f'_replace_float_values: statement not of the form val = val.replace(a, b): {ast.unparse(st)[:60]}'
            repl.append((st.value.args[0].value, st.value.args[1].value))
        return 0, 0, repl, None
    return 2, 0, [], 'SymmetryElement.to_cif: neither text replacement nor limit_denominator recognised'


def template_tables(repo: Path):
    text = (repo / TEMPLATE).read_text()
    tags = re.findall(r'\$\{(\w+)\}|\$(\w+)', text)
    tags = [a or b for a, b in tags]
    pairs = []
    for line in text.splitlines():
        m = re.match(r"^\s*(_\S+)\s+('?)\$\{(\w+)\}('?)\s*$", line)
        if m:
            pairs.append((m.group(1), m.group(3), bool(m.group(2)) and bool(m.group(4))))
    return tags, pairs


def dict_keys(repo: Path):
    tree = extract.parse(repo, CIFWRITE)
    cls = extract.find(tree, 'CifFile')
    if cls is None:
        return None
    ms = _methods(cls)
    root = ms.get('_cif_dict')
    if root is None:
        return None
    fns = [root] + [ms[n] for n in _self_calls(root) if n in ms]
    keys = []

    def add(k):
        if k not in keys:
            keys.append(k)
    for f in fns:
        for n in ast.walk(f):
            if isinstance(n, ast.Subscript) and isinstance(n.ctx, ast.Store) and isinstance(n.slice, ast.Constant) \
                    and isinstance(n.slice.value, str):
                add(n.slice.value)
            if isinstance(n, ast.Return) and isinstance(n.value, ast.Dict):
                for k in n.value.keys:
                    if isinstance(k, ast.Constant) and isinstance(k.value, str):
                        add(k.value)
    return keys


def render(mode, limit, repl, tags, pairs, keys) -> str:
    L = [extract.HEADER, 'namespace Shelx.Extracted.C18\n']
    L.append('/-- how `SymmetryElement.to_cif` prints a translation: 0 = text replacement on `str(float)`,\n'
             '    1 = `Fraction(t).limit_denominator(fracLimit)`, 2 = not recognised -/')
    L.append(f'def opMode : Nat := {mode}')
    L.append(f'def fracLimit : Nat := {limit}')
    L.append('/-- `_replace_float_values`: ordered (old, new) text replacements -/')
    L.append('def replList : List (List Char × List Char) := ' + extract.lean_list(f'({chars(a)}, {chars(b)})' for a, b in repl))
    L.append('/-- every `${placeholder}` of cif_template.tmpl, in order of appearance -/')
    L.append('def templateTags : List String := ' + extract.lean_list(extract.lean_str(t) for t in tags))
    L.append('/-- the `_data_name  ${placeholder}` lines of the template: (data name, placeholder, value quoted) -/')
    L.append('def templatePairs : List (String × String × Bool) := ' +
             extract.lean_list(f'({extract.lean_str(a)}, {extract.lean_str(b)}, {"true" if q else "false"})' for a, b, q in pairs))
    L.append('/-- the keys of the substitution dictionary built by `CifFile._cif_dict` -/')
    L.append('def dictKeys : List String := ' + extract.lean_list(extract.lean_str(k) for k in keys))
    L.append('\nend Shelx.Extracted.C18\n')
    return '\n'.join(L)


@extract.extractor
def c18_tables(repo, out):
    lost = []
    try:
        mode, limit, repl, msg = op_mode(repo)
    except (OSError, SyntaxError) as e:
        mode, limit, repl, msg = 2, 0, [], f'dsrmath.py unreadable: {e}'
    if msg:
        lost.append(dict(props=['C18'], what=msg))
    try:
        tags, pairs = template_tables(repo)
    except OSError as e:
        tags, pairs = [], []
        lost.append(dict(props=['C18'], what=f'cif_template.tmpl unreadable: {e}'))
    try:
        keys = dict_keys(repo)
    except (OSError, SyntaxError) as e:
        keys = None
    if keys is None:
        keys = []
        lost.append(dict(props=['C18'], what='CifFile._cif_dict not found / cif_write.py unreadable'))
    extract.write_if_changed(Path(out) / 'C18.lean', render(mode, limit, repl, tags, pairs, keys))
    return lost


def _fallback(out):
    extract.write_if_changed(Path(out) / 'C18.lean', render(2, 0, [], [], [], []))


c18_tables.props = ['C18']
c18_tables.fallback = _fallback
